#!/usr/bin/env python3
"""rerun_refactors.py : apply every stored behaviour-preserving refactoring (refactors/*/patch.diff) to /repo in turn, run
all checks, restore /repo. Prints which checks alarm today (each such alarm is a false alarm: DESIGN 9.7 measures them)."""
import glob, json, os, subprocess, sys
os.environ["VF_NO_EVIDENCE"] = "1"
tot = 0
for d in sorted(glob.glob("/verif/refactors/*/")):
    pd = os.path.join(d, "patch.diff")
    if not os.path.exists(pd):
        continue
    r = subprocess.run(["git", "-C", "/repo", "apply", pd], capture_output=True, text=True)
    if r.returncode != 0:
        print(os.path.basename(d[:-1]), "PATCH DOES NOT APPLY"); continue
    try:
        rr = subprocess.run(["/verif/vf", "all"], capture_output=True, text=True, cwd="/verif")
    finally:
        subprocess.run(["git", "-C", "/repo", "checkout", "--", "."])
    alarms = {}
    cur = None
    for l in rr.stdout.splitlines():
        if "violation: " in l:
            k = l.split("violation: ")[1]
            alarms.setdefault(k.split("|")[0], 0)
            alarms[k.split("|")[0]] += 1
        if l.startswith("CANNOT-DECIDE"):
            alarms[l[:60]] = 1
    # known findings print as violations inside the per-check listing too; drop the three listed keys
    for k in ("R3.written-read-back", "R3.sibling-agreement", "R2.flatten-enum"):
        alarms.pop(k, None)
    tot += 1 if alarms else 0
    print(os.path.basename(d[:-1]), "silent" if not alarms else "ALARMS %s" % alarms)
print("%d refactorings alarm" % tot)

#!/usr/bin/env python3
"""confirm_seed.py <seed-id> <property> <dir-with patch.diff + seed_demo.rs> [needs text]
Confirms a seeded defect in a scratch worktree (/tmp/wt-fix): demo passes on the clean tree, the 105 library
tests pass with the patch, demo fails with the patch. Then applies the patch to /repo, runs every implemented
check, restores /repo, and stores everything under /verif/seeded/<seed-id>/."""
import json, os, shutil, subprocess, sys, glob
import os as _os
_os.environ["VF_NO_EVIDENCE"] = "1"

sid, prop, src = sys.argv[1:4]
needs = sys.argv[4] if len(sys.argv) > 4 else ""
WT = "/tmp/wt-fix"
ENV = dict(os.environ, CARGO_TARGET_DIR="/tmp/wt-target", CARGO_NET_OFFLINE="true")


def sh(cmd, cwd=None, env=None):
    r = subprocess.run(cmd, shell=True, cwd=cwd, env=env or ENV, stdout=subprocess.PIPE, stderr=subprocess.STDOUT, text=True)
    return r.returncode, r.stdout


head = subprocess.check_output(["git", "-C", "/repo", "rev-parse", "HEAD"], text=True).strip()
sh("git checkout -q -- . && git clean -fdq tests && git checkout -q --detach %s" % head, WT)
shutil.copy(os.path.join(src, "seed_demo.rs"), os.path.join(WT, "tests", "seed_demo.rs"))
ran = []
rc0, out0 = sh("cargo test --offline --features serde,base64 --test seed_demo 2>&1 | tail -5", WT)
demo_clean = "test result: ok" in out0
ran.append(("demo on clean tree", "pass" if demo_clean else "FAIL"))
rc, out = sh("git apply %s" % os.path.join(src, "patch.diff"), WT)
applied = rc == 0
rc1, out1 = sh("cargo test --offline --features serde,base64 --lib 2>&1 | grep 'test result'", WT)
lib_ok = "105 passed; 0 failed" in out1
ran.append(("library tests with patch", out1.strip()))
rc2, out2 = sh("cargo test --offline --features serde,base64 --test seed_demo 2>&1 | tail -5", WT)
demo_fails = "test result: FAILED" in out2 or "error: test failed" in out2
ran.append(("demo with patch", "fails" if demo_fails else "DOES NOT FAIL"))
sh("git checkout -q -- . && git clean -fdq tests", WT)
confirmed = applied and demo_clean and lib_ok and demo_fails
print("confirmed" if confirmed else "NOT CONFIRMED", ran)
# run the checks against /repo with the patch
results = {}
if confirmed:
    rc, out = sh("git -C /repo apply %s" % os.path.join(src, "patch.diff"))
    try:
        props = sorted(os.path.basename(p)[:-3].upper() for p in glob.glob("/verif/vflib/rules/c*.py"))
        for p in props:
            r = subprocess.run(["/verif/vf", p], stdout=subprocess.PIPE, stderr=subprocess.STDOUT, text=True, cwd="/verif")
            viol = [l.strip()[:240] for l in r.stdout.splitlines() if "violation:" in l]
            results[p] = {"exit": r.returncode, "violations": viol[:6]}
    finally:
        sh("git -C /repo checkout -- .")
    # restore evidence files by re-running on the clean tree is left to the caller
dst = os.path.join("/verif/seeded", sid)
os.makedirs(dst, exist_ok=True)
shutil.copy(os.path.join(src, "patch.diff"), os.path.join(dst, "patch.diff"))
shutil.copy(os.path.join(src, "seed_demo.rs"), os.path.join(dst, "seed_demo.rs"))
if os.path.exists(os.path.join(src, "notes.md")):
    shutil.copy(os.path.join(src, "notes.md"), os.path.join(dst, "notes.md"))
caught_by = [p for p, r in results.items() if r["exit"] == 1]
meta = {"id": sid, "breaks_property": prop, "needs_to_manifest": needs, "base_commit": head, "confirmed": confirmed, "what_i_ran": ran,
        "caught_by": caught_by, "target_check_caught": prop in caught_by, "check_results": results}
json.dump(meta, open(os.path.join(dst, "meta.json"), "w"), indent=1)
print("caught by:", caught_by, "| target caught:", prop in caught_by)
for p in caught_by:
    print(" ", p, results[p]["violations"][:2])
other = {p: r for p, r in results.items() if r["exit"] == 2}
if other:
    print("cannot-decide:", list(other))

#!/usr/bin/env python3
"""equiv_rewrites.py : behaviour-preserving rewrites of /repo that must NOT make the named check alarm.
Each entry is applied to /repo's working tree, the check is run, the file is restored. Exit 1 if any check alarms."""
import os as _os
_os.environ["VF_NO_EVIDENCE"] = "1"
import subprocess, sys

R = []
def eq(prop, path, old, new, why):
    R.append((prop, path, old, new, why))

FM = "src/fast_merkle_root.rs"
eq("C18", FM, "while count != (1u32 << level) {", "while count > (1u32 << level) {", "count >= 1 << level on every reachable state")
eq("C18", FM, "let mut temp_hash = sha256::Midstate::new(leaves[count as usize], 64);\n        count += 1;",
   "count += 1; let mut temp_hash = sha256::Midstate::new(leaves[(count-1) as usize], 64);", "index after the increment")
eq("C18", FM, "while count & (1u32 << level) == 0 {\n            temp_hash", "while (count >> level) & 1 != 1 {\n            temp_hash", "same bit test")
T = "src/taproot.rs"
eq("C15", T, "if curr_hash.as_byte_array() < elem.as_byte_array() {", "if curr_hash.as_byte_array() <= elem.as_byte_array() {", "equal operands feed equal bytes")
eq("C15", T, "for elem in self.merkle_branch.as_inner() {", "for elem in &self.merkle_branch.0 {", "accessor vs field")
eq("C15", T, ".min_by(|x, y| x.0.len().cmp(&y.0.len()))", ".max_by(|x, y| x.0.len().cmp(&y.0.len()))", "any stored path of the leaf verifies")
eq("C15", T, "node = NodeInfo::combine(child, node)?;", "node = NodeInfo::combine(node, child)?;", "leaf-list order only (C07's concern)")
D = "src/dynafed.rs"
eq("C19", D, "        fn serialize_hash<E: Encodable>(obj: &E) -> sha256d::Hash {\n            let mut engine = sha256d::Hash::engine();\n            obj.consensus_encode(&mut engine).expect(\"engines don't error\");\n            sha256d::Hash::from_engine(engine)\n        }\n\n        if self.is_null()",
   "        fn serialize_hash<E: Encodable>(obj: &E) -> sha256d::Hash {\n            sha256d::Hash::hash(&crate::encode::serialize(obj))\n        }\n\n        if self.is_null()", "one-shot hashing")
eq("C19", D, "        if self.is_null() {\n            return ParamsRoot::from_byte_array([0u8; 32]);\n        }", "        if let Params::Null = self {\n            return ParamsRoot::from_byte_array([0u8; 32]);\n        }", "pattern instead of predicate")
eq("C09", "src/pset/mod.rs", "vbf2 += -vbf;", "let negated = -vbf; vbf2 += negated;", "temporary")
eq("C12", "src/transaction.rs", "32 + 4 + 4 + // output + nSequence\n                VarInt(input.script_sig.len() as u64).size() +\n                input.script_sig.len() +",
   "4 + 32 + 4 + // output + nSequence\n                input.script_sig.len() +\n                VarInt(input.script_sig.len() as u64).size() +", "addend order")
eq("C12", "src/transaction.rs", "weight -= (33 - 9) * 4;", "weight -= 96;", "constant folded")
eq("C12", "src/transaction.rs", "let witness_weight = VarInt(sp_len as u64).size() + sp_len + VarInt(rp_len as u64).size() + rp_len;",
   "let witness_weight = rp_len + VarInt(rp_len as u64).size() + sp_len + VarInt(sp_len as u64).size();", "addend order")
eq("C14", "src/pset/map/output.rs", "        merge!(witness_script, self, other);", "        if self.witness_script.is_none() { self.witness_script = other.witness_script; }", "macro expanded by hand")
eq("C16", "src/script.rs", "self.0.len() == 22 &&\n            self.0[0] == opcodes::all::OP_PUSHBYTES_0.into_u8() &&\n            self.0[1] == opcodes::all::OP_PUSHBYTES_20.into_u8()",
   "22 == self.0.len() &&\n            self.0[1] == 0x14 &&\n            self.0[0] == 0x00", "orientation and literals")
eq("C05", "src/blind.rs", "if let Some(comm) = out.value.commitment() {", "if let Value::Confidential(comm) = out.value {", "pattern instead of accessor")
eq("C05", "src/blind.rs", "        self.verify(secp, asset_commit, &[gen])\n", "        let verdict = self.verify(secp, asset_commit, &[gen]);\n        verdict\n", "temporary for the verdict (R5.asset-proof-verdict must follow it)")
eq("C11", "src/issuance.rs", "AssetId::from_midstate(fast_merkle_root(&[entropy.to_byte_array(), ZERO32]))",
   "{ let leaves = [entropy.to_byte_array(), ZERO32]; let root = fast_merkle_root(&leaves); AssetId::from_midstate(root) }", "locals")
eq("C11", "src/issuance.rs", "let mut enc = sha256d::Hash::engine();\n            prevout.consensus_encode(&mut enc).unwrap();\n            sha256d::Hash::from_engine(enc)",
   "sha256d::Hash::hash(&crate::encode::serialize(&prevout))", "one-shot hashing")
eq("C03", "src/sighash.rs", "        self.tx.version.consensus_encode(&mut writer)?;\n\n        // nLockTime (4): the nLockTime of the transaction.",
   "        let version = self.tx.version;\n        version.consensus_encode(&mut writer)?;\n\n        // nLockTime (4): the nLockTime of the transaction.", "local")

GI_OLD = """            let out = self.tx
                .output
                .get(input_index)
                .ok_or(Error::SingleWithoutCorrespondingOutput {
                    index: input_index,
                    outputs_size: self.tx.output.len(),
                })?;
            out.consensus_encode(&mut enc)?;"""
GI_NEW = """            if input_index >= self.tx.output.len() {
                return Err(Error::SingleWithoutCorrespondingOutput {
                    index: input_index,
                    outputs_size: self.tx.output.len(),
                });
            }
            let out = &self.tx.output[input_index];
            out.consensus_encode(&mut enc)?;"""
for P in ("C10", "C03", "C13"):
    eq(P, "src/sighash.rs", GI_OLD, GI_NEW, "get().ok_or()? as an explicit bounds test followed by indexing")
eq("C08", "src/pset/map/output.rs", """            value: match (self.amount_comm, self.amount) {
                (Some(comm), _) => confidential::Value::Confidential(comm),
                (None, Some(x)) => confidential::Value::Explicit(x),
                (None, None) => confidential::Value::Null,
            },""", """            value: self
                .amount_comm
                .map(confidential::Value::Confidential)
                .or(self.amount.map(confidential::Value::Explicit))
                .unwrap_or_default(),""", "Option combinators with the same priority")
eq("C01", "src/transaction.rs", """        Ok(TxOut {
            asset: Decodable::consensus_decode(&mut d)?,
            value: Decodable::consensus_decode(&mut d)?,
            nonce: Decodable::consensus_decode(&mut d)?,
            script_pubkey: Decodable::consensus_decode(&mut d)?,
            witness: TxOutWitness::default(),
        })""", """        let asset = Decodable::consensus_decode(&mut d)?;
        let value = Decodable::consensus_decode(&mut d)?;
        let nonce = Decodable::consensus_decode(&mut d)?;
        let script_pubkey = Decodable::consensus_decode(&mut d)?;
        Ok(TxOut { asset, value, nonce, script_pubkey, witness: TxOutWitness::default() })""", "locals")

eq("C03", "src/sighash.rs", "        encode::consensus_encode_with_size(self.0, writer)\n", "        encode::consensus_encode_with_size(self.as_bytes(), writer)\n", "accessor instead of field")
eq("C03", "src/sighash.rs", "    fn consensus_encode<W: io::Write>(&self, writer: W) -> Result<usize, encode::Error> {\n        encode::consensus_encode_with_size(self.0, writer)\n",
   "    fn consensus_encode<W: io::Write>(&self, mut writer: W) -> Result<usize, encode::Error> {\n        let n = encode::VarInt(self.0.len() as u64).consensus_encode(&mut writer)?;\n        writer.write_all(self.0)?;\n        Ok(n + self.0.len())\n", "length prefix and bytes written by hand")
eq("C08", "src/transaction.rs", "self.asset.is_confidential() || self.value.is_confidential() || !self.witness.is_empty()",
   "!self.witness.is_empty() || self.value.is_confidential() || self.asset.is_confidential()", "disjunct order")
eq("C08", "src/transaction.rs", "self.asset.is_confidential() || self.value.is_confidential() || !self.witness.is_empty()",
   "!(self.witness.is_empty() && !self.value.is_confidential() && !self.asset.is_confidential())", "De Morgan")
VOLD = """            domain.push(gen);
            in_commits.push(
                spent_utxos[i]
                    .get_value_commit(secp)
                    .map_err(|e| VerificationError::SpentTxOutError(i, e))?,
            );
"""
VNEW = """            let vc = spent_utxos[i]
                    .get_value_commit(secp)
                    .map_err(|e| VerificationError::SpentTxOutError(i, e))?;
            in_commits.push(vc);
            domain.push(gen);
"""
for P in ("C05", "C04"):
    eq(P, "src/blind.rs", VOLD, VNEW, "local for the commitment, the two pushes in the other order")

LOLD = """        let set_a = inputs
            .iter()
            .map(|(value, abf, vbf)| CommitmentSecrets {
                value: *value,
                value_blinding_factor: vbf.0,
                generator_blinding_factor: abf.into_inner(),
            })
            .collect::<Vec<_>>();
        let set_b = outputs
            .iter()
            .map(|(value, abf, vbf)| CommitmentSecrets {
                value: *value,
                value_blinding_factor: vbf.0,
                generator_blinding_factor: abf.into_inner(),
            })
            .collect::<Vec<_>>();
"""
LNEW = """        let secrets = |set: &[(u64, AssetBlindingFactor, ValueBlindingFactor)]| {
            set.iter()
                .map(|(value, abf, vbf)| CommitmentSecrets {
                    value: *value,
                    value_blinding_factor: vbf.0,
                    generator_blinding_factor: abf.into_inner(),
                })
                .collect::<Vec<_>>()
        };
        let set_a = secrets(inputs);
        let set_b = secrets(outputs);
"""
for P in ("C09", "C04"):
    eq(P, "src/confidential.rs", LOLD, LNEW, "one local closure builds both sets")

eq("C14", "src/pset/macros.rs", """        if let (&None, Some($thing)) = (&$slf.$thing, $other.$thing) {
            $slf.$thing = Some($thing);
        }""", """        match ($slf.$thing.take(), $other.$thing) {
            (None, theirs) => $slf.$thing = theirs,
            (ours, _) => $slf.$thing = ours,
        }""", "take() and restore on every arm")

for P in ("C09", "C04"):
    eq(P, "src/blind.rs", """                let gen = asset
                    .into_asset_gen(secp)
                    .ok_or(TxOutError::UnExpectedNullAsset)?;""",
       "                let gen = match asset.into_asset_gen(secp) { Some(g) => g, None => return Err(TxOutError::UnExpectedNullAsset) };", "match instead of ok_or()?")

only = sys.argv[1] if len(sys.argv) > 1 else None
bad = 0
for prop, path, old, new, why in R:
    if only and prop != only:
        continue
    p = "/repo/" + path
    s = open(p).read()
    if s.count(old) < 1:
        print(prop, "PATTERN NOT FOUND (update the entry):", why)
        bad += 1
        continue
    open(p, "w").write(s.replace(old, new, 1))
    try:
        r = subprocess.run(["/verif/vf", prop], capture_output=True, text=True, cwd="/verif")
    finally:
        subprocess.run(["git", "-C", "/repo", "checkout", "--", path])
    v = [l.strip()[:160] for l in r.stdout.splitlines() if "violation:" in l or l.startswith("CANNOT")]
    ok = r.returncode == 0
    bad += 0 if ok else 1
    print(prop, "silent" if ok else "ALARM exit %d" % r.returncode, "-", why, v[:2] if not ok else "")
sys.exit(1 if bad else 0)

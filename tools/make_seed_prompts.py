#!/usr/bin/env python3
"""make_seed_prompts.py <suffix> [Cxx ...] : write /tmp/seed-prompt-<Cxx>-<suffix>.txt for the sub-agents that seed
defects. Each prompt carries ONLY the property text (from properties.jsonl) and the places already used by stored seeds
of that property (file + enclosing item taken from the hunk headers of seeded/<id>/patch.diff) — nothing else from /verif.
An optional environment variable SEED_HINT adds one paragraph of steering (what kind of change to prefer this round).
Also creates the scratch worktree /tmp/seed-<Cxx>-<suffix> (detached at /repo's HEAD) with an out/ directory."""
import glob, json, os, re, subprocess, sys

V = "/verif"
suffix = sys.argv[1]
only = sys.argv[2:]
tmpl = open(os.path.join(V, "tools", "seed_prompt_template.txt")).read()
props = [json.loads(l) for l in open(os.path.join(V, "properties.jsonl"))]
for p in props:
    pid = p["id"]
    if only and pid not in only:
        continue
    anchors = p.get("anchors", {})
    mech = "; ".join("%s (%s)" % (m.get("name", ""), m.get("where", m.get("file", ""))) if isinstance(m, dict) else str(m) for m in anchors.get("mechanism", []))
    text = ("PROPERTY %s — %s\n\nStatement: %s\n\nQuantifier: %s\n\nWhy the existing tests cannot settle it: %s\n\nCode anchors: files %s; mechanisms: %s\n"
            % (pid, p["title"], p["statement"], p["quantifier"]["text"], p["why_tests_cant"], ", ".join(anchors.get("files", [])), mech))
    sites = []
    for d in sorted(glob.glob(os.path.join(V, "seeded", pid + "-*"))):
        cur = None
        for line in open(os.path.join(d, "patch.diff")):
            m = re.match(r"^\+\+\+ b/(.*)$", line)
            if m:
                cur = m.group(1)
            m = re.match(r"^@@ [^@]* @@ ?(.*)$", line)
            if m and cur:
                s = "%s (near: %s)" % (cur, m.group(1).strip() or "top of file")
                if s not in sites:
                    sites.append(s)
    note = ""
    if sites:
        note = ("\nNote: earlier participants already produced changes for this property at the following places; choose a DIFFERENT function and a "
                "different mechanism of the property (another clause of the statement, another anchor, a helper or a constant that the anchored "
                "functions rely on — possibly in another file —, a trait impl, macro or attribute they depend on, or an interaction between two "
                "functions that each stay plausible on their own), so that the collection covers more of it. Prefer the subtlest change you can "
                "find: one that a careful reviewer reading the diff could plausibly approve.\n" + "".join("  - %s\n" % s for s in sites) + "\n")
    hint = os.environ.get("SEED_HINT", "")
    if hint:
        note += hint.strip() + "\n\n"
    wt = "/tmp/seed-%s-%s" % (pid, suffix)
    out = tmpl.replace("__WT__", wt).replace("__ID__", pid + suffix).replace("__PROP__", note + text)
    open("/tmp/seed-prompt-%s-%s.txt" % (pid, suffix), "w").write(out)
    if not os.path.isdir(wt):
        subprocess.run(["git", "-C", "/repo", "worktree", "add", "--detach", "-q", wt, "HEAD"], check=True)
    os.makedirs(os.path.join(wt, "out"), exist_ok=True)
    print(pid, len(sites), "earlier sites ->", "/tmp/seed-prompt-%s-%s.txt" % (pid, suffix))

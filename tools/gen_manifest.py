#!/usr/bin/env python3
"""Generates /verif/MANIFEST.json from the table below (single source of truth)."""
import json, os, subprocess
V = os.path.dirname(os.path.dirname(os.path.abspath(__file__)))

BASE_NOTE = ("Trusted base: rustc's type checker, MIR construction and const evaluation (nightly in this image); the "
             "elfacts driver's faithful dump of MIR; the spec tables in /verif/vflib/rules (transcribed from the "
             "specifications and quoted in the evidence); dependencies (bitcoin_hashes, secp256k1-zkp, bech32, serde) "
             "are not analysed. Only the named structural clauses are decided, not the behaviour as a whole. "
             "Besides its own rules every check evaluates, as rules named D.<Q>.<rule>, the instances of other properties' rules whose "
             "subject is a crate function reached (resolved call graph) from this property's anchors and not itself an anchor "
             "(vflib/deps.py, DESIGN 9.8); the evidence lists the reached helpers that no rule decides (trusted).")

CLAIMS = {
    "C02": dict(
        category="other",
        text=("Decides the structural clauses of C02 for all inputs at once: the exact ordered list of values fed to the "
              "sha256d engine by txid/wtxid/block_hash, that every non-witness field of the transaction/header types is "
              "read on the way (monomorphic call-graph field coverage) and no witness field is, that the non-witness "
              "branch of Transaction's encoder equals the txid preimage, that the TxIn writer folds both flag bits independently and the "
              "TxOut/AssetIssuance/confidential writers write every field (C01's writer rules evaluated here), and that clear_witness writes exactly the "
              "fields outside the block hash. Digest arithmetic is trusted."),
        technique="MIR event-sequence extraction + transitive field-read coverage on the instance call graph",
        design_ref="§4 C02"),
    "C05": dict(
        category="other",
        text=("Decides, for every path of Transaction::verify_tx_amt_proofs at once, the must-pass-through clauses of C05: the "
              "length check dominates all work, Ok(()) is reachable only through the success edge of the balance check, and no "
              "path from a confidential value/asset to the next output avoids the missing-proof check and the success edge of "
              "RangeProof::verify / SurjectionProof::verify; plus the argument bindings of the three checks, every push into "
              "the domain/commitment vectors (the spent output's entries pushed for every input, unfiltered), the get_value_commit "
              "decision table, zero-value admissibility incl. the truth table of Script::is_provably_unspendable, and the exact-value "
              "proof verifiers (bindings of their verify calls; the asset-proof verifier's answer is that call's result on every path). That libsecp256k1-zkp rejects a tampered proof is trusted."),
        technique="CFG must-pass-through / failing-edge reachability + provenance of call arguments + decision table",
        design_ref="§4 C05"),
    "C14": dict(
        category="other",
        text=("Decides the information-preservation clauses of C14 for all PSETs: every non-identity field of `other` flows into "
              "the same field of `self` in Input/Output/Global::merge, no merge assigns a constant to a field of self, all "
              "mutation in PartiallySignedTransaction::merge is dominated by the unique-id comparison with a UniqueIdMismatch "
              "error edge and sub-merge errors propagate, and a predicate-abstraction walk of the xpub key-source branch over the "
              "seven classes of key-source pairs yields the documented keep/insert/conflict table without a panic; a first-present-wins "
              "assignment to self.X may only be guarded by a test on X itself, and a call that can empty a field of self (take, replace, "
              "clear, ...) must be followed by an assignment to that field on every path; every crate-local type inside a key of the merged "
              "BTreeMaps has derived comparison traits or a hand-written comparison that reads every field. Conflicting "
              "values under one map key are outside the property's quantifier."),
        technique="resolved write-effect coverage with data dependence + dominance of the id gate + predicate-abstraction decision table",
        design_ref="§4 C14"),
    "C08": dict(
        category="other",
        text=("Decides the structural clauses of C08: an exhaustive abstract interpretation of locktime() over the discriminant "
              "lattice {Unconstrained, Minimum, Disallowed}^2 (all reachable cells, each outcome compared with the BIP370 table, "
              "height preferred; this also proves the unreachable!() arms dead; Height/Time ordered numerically); the kill set of unique_id (every non-witness TxIn "
              "field extract_tx fills from a signer/updater-mutable PSET field is reset before txid()); the per-field identity of "
              "from_txin/from_txout composed with extract_tx and the agreement of to_txout with extract_tx, including which source wins "
              "(commitment over explicit field) on all 16 presence patterns in both views and in the issuance view of an input; small PSET accessors and the 64-row tables of is_partially/fully_blinded; the truth table of TxOut::is_partially_blinded that "
              "decides where from_txout stores the nonce; the 0xffffffff "
              "exemption at every reader of the index flag bits. Whole-value tx->PSET->tx equality is decided per field flow only."),
        technique="abstract interpretation over enum discriminants (exhaustive decision table) + field-flow composition of sibling converters",
        design_ref="§4 C08"),
    "C03": dict(
        category="other",
        text=("Decides the commitment structure of the legacy, segwit-v0 and taproot signature hashes for every transaction, index and "
              "hash type at once: the ordered list of (committed value, sink, wire type, guard set) extracted from the MIR of the three "
              "*_signing_data_to functions is compared row by row with spec tables (36 taproot rows incl. the Elements extensions, 18 "
              "BIP143+issuance rows with mutually exclusive zero-hash alternatives, the legacy construction: SINGLE-bug constant, "
              "ANYONECANPAY input selection, script_sig placement, sequence zeroing, outputs by type, trailing LE hash type); plus the "
              "contents of the common/segwit/taproot hash caches, that the blanked outputs of legacy SINGLE are the null output (TxOut::default resolved field by field), the outpoint flag byte, the Annex encoder (compact size + all bytes) and the TapLeaf preimage. Digest equality "
              "with an independent implementation is not decided."),
        technique="ordered guarded event-sequence extraction from MIR compared with specification tables",
        design_ref="§4 C03, Appendix B"),
    "C13": dict(
        category="other",
        text=("Decides C13 by a purity argument checked on the code: every use of all-prevouts data in the taproot algorithm is "
              "dominated by the !ANYONECANPAY edge and Prevouts::get_all is evaluated on every such query whatever the cache holds (so "
              "Prevouts::One suffices under ANYONECANPAY and is an error otherwise, independently of earlier queries), witness_mut "
              "writes nothing itself, the "
              "transitive field read-set of the three cache builders is disjoint from the only place the API hands out mutably "
              "(the script witness via witness_mut), no other public method returns &mut, the caches are written only by new() and by "
              "get_or_insert_with in their accessor, and the Prevouts decision tables are as specified. Hence every cached value is "
              "a function of data no API can change and query order cannot matter."),
        technique="dominance rule on call sites + transitive read-set vs mutable hand-out set + who-may-write rule + decision tables",
        design_ref="§4 C13"),
    "C10": dict(
        category="other",
        text=("Exact (not ranked) panic-site audit over every function instance reachable from the ~360 fallible public entries on the "
              "instance-level call graph: each of the ~540 panic-capable MIR sites (bounds/overflow/division asserts, unwrap/expect, "
              "panic!/unreachable!, indexing, copy_from_slice, split_at, Vec::remove, chunks) is either discharged by a recognised guard "
              "idiom evaluated on the code (constant-safe, in-memory sink, length-interval guard incl. relational `len >= end`, Some guard, "
              "byte-length arithmetic, guarded subtraction) or listed in tables/panic_sites.tsv with a reason confirmed by reading and the "
              "dominating conditions of its sites, which must still dominate it (for the script-template predicates guarding Address::from_script, "
              "their exact truth tables); plus the bounded-allocation rule for sizes derived from decoded "
              "integers (bound on count x size of the allocated element type); the truth tables of the predicates tabled sites rest on "
              "(script templates, lock-time thresholds, opcode classification over all 256 codes) are evaluated as well. A new unguarded site, or the removal of a guard a discharge/table entry relies on, is a violation. "
              "The reasons in the table are reviewed judgements, not machine proofs."),
        technique="reachability on the instance call graph + per-site guard discharge (interval/dominance) + reviewed exception table + taint-to-allocation rule",
        design_ref="§4 C10, Appendix A"),
    "C01": dict(
        category="other",
        text=("Decides the structural clauses that make the consensus codec a bijection, for all inputs at once: the trailing-data gate of "
              "deserialize; every canonicity guard with its error edge (minimal varints; exhaustive 256-value decision tables of the "
              "confidential prefixes and the dynafed tag; witness-flag table incl. the all-empty rejection; superfluous null issuance; "
              "flag-bit extraction only under vout != 0xffffffff; empty vector <=> absent proof); writer/reader agreement of the ordered "
              "(field, wire type) lists for every type with both impls (8 structs, ~20 newtypes, the three confidential unions, Params, "
              "TxIn, Transaction, BlockHeader/ExtData) incl. flag folding and byte order; length accounting of every encoder (each nested "
              "encode is summed or a fixed-width literal is added); the three varint tables; bounded allocation on decoder paths; the primitive layer (fixed-width integers as little-endian "
              "bytes of their own width, slices whole, compact size then bytes, fixed arrays), the identity byte views of the hash and root "
              "newtypes, the lock-time threshold tables, the null/default values of the transaction types, the generic slice encoder, and that no encoder has an "
              "explicit error return. Byte "
              "identity of secp256k1 parse/serialize is trusted; equality of values is argued per field, not executed."),
        technique="sibling codec agreement on MIR event sequences + exhaustive decision tables over tag bytes + dominance of canonicity guards + return-value dataflow",
        design_ref="§4 C01"),
    "C07": dict(
        category="other",
        text=("Decides the structural clauses of C07: the key-type tables extracted from get_pairs (writer) and from insert_pair plus the "
              "hand-written Decodable loops (reader) of Global, Input and Output are mutually inverse — same field per (key type, "
              "proprietary subtype) for all 70 keys, equal Serialize/Deserialize key and value types, no shared key, every struct field "
              "emitted and parsed; every unkeyed arm is guarded by empty key data and an unset field with InvalidKey/DuplicateKey edges, "
              "keyed arms reject occupied entries (every entry() on the proprietary/unknown catch-all maps has its own DuplicateKey edge), hash preimages are checked before insertion; framing (magic, separator, order, 0x00 "
              "terminators, NoMorePairs, sanity_check dominating Ok, 10 000 caps); mandatory-field errors with their exact presence conditions; "
              "the scalar pair the Global reader accepts is the writer's; the 30 paired PSET value codecs are inverse pairs of one kind; who-may-write rule for the "
              "counts with paired vector operations; tap-tree leaves kept/written/read in DFS order (re-encoding fixpoint); ELIP-100/102 "
              "getter/setter key agreement; ProprietaryKey and Schnorr-signature codecs; the tap-tree reader advances by exactly the byte count "
              "the script decoder reports (any length-prefix size) and the key-origin reader continues where the leaf-hash vector ended; the "
              "PublicKey value codec writes the key in the form its `compressed` flag says. Value codecs that delegate to consensus encoding are C01."),
        technique="table bijection between sibling writer/reader extracted from MIR + guard dominance + who-may-write rule",
        design_ref="§4 C07"),
    "C06": dict(
        category="other",
        text=("Decides the structural clauses of C06: the compiler-evaluated AddressParams constants equal the reference and are pairwise "
              "disjoint (9 version bytes, 6 HRPs); the set of data lengths the blech32 decoder accepts is obtained as an exhaustive decision "
              "table over len 0..200 x {v0, v1+} and must be {53,65} / 35..=73; padding masks 2^k-1; Display and the parsers agree on layout "
              "(key before program; prefix bytes/offsets of the base58 forms), on the prefix constants compared and on the checksum variant "
              "per witness version; prefix dispatch returns the segwit result without falling through to base58, FromStr tries exactly the "
              "three networks, versions > 16 are rejected; a string's HRP matches a network only on equal length and case-insensitive "
              "character equality. Character-for-character agreement with independent encoders is not decided."),
        technique="evaluated-constant tables + exhaustive decision table over lengths + sibling layout agreement between Display and parsers",
        design_ref="§4 C06"),
    "C12": dict(
        category="other",
        text=("Structural agreement between the size formulas and the encoders: every encoded_length table matches the byte count of the "
              "corresponding encoder arm (1/9/33/33 etc.), TxOut/TxIn/Transaction size formulas have exactly one addend per field the "
              "encoder writes (flag-gated fields under the same predicate, checked on the formula and on the encoder), the weight scale and discount constants are those of Elements, "
              "and block size/weight sum header + varint + per-transaction values. Numeric equality on every transaction is implied "
              "by, but not separately evaluated beyond, these term-level agreements."),
        technique="sibling agreement between size formula terms and encoder field sequences over MIR provenance terms",
        design_ref="§4 C12"),
    "C18": dict(
        category="other",
        text=("Decides the shape clauses: the structured while/if listing of fast_merkle_root extracted from MIR agrees component by "
              "component with the reference incremental algorithm — empty list returns the zero midstate first; leaf i enters as "
              "Midstate::new(leaves[i], 64) in index order; every combination is compress(stored subtree || running hash) with the stored "
              "subtree on the left; carry/skip/combine loops run exactly while bit `level` of count is clear; the finished subtree is stored "
              "at inner[level]; the sweep promotes an unpaired node unchanged and stops at count == 1 << level. Integer conditions, updates "
              "and indices are compared as functions on the reachable states of a (count, level, n) grid, so equivalent rewrites pass. "
              "Equality with the definitional tree for every leaf count then follows by the loop invariant written out in DESIGN.md; "
              "that last step is a paper argument and is not evaluated."),
        technique="structured-listing extraction from MIR + semantic comparison of integer sub-terms + structural comparison of hash terms",
        design_ref="§4 C18"),
    "C19": dict(
        category="other",
        text=("Decided by substitution: FullParams::calculate_root and Params::calculate_root are the same fast-merkle expression in "
              "(H(signblockscript), H(limit), extra root) with identical leaf order and hash helper; extra_root has the required three-leaf "
              "form for full parameters over canonically length-prefixed leaves (compact-size boundary table of the writer), returns the stored elided root for compact and zero for null; into_compact copies script and limit "
              "and stores extra_root(); null parameters return the zero root first; the header root is fmr([current, proposed]). Hence "
              "root(compact(p)) = root(p) for every p. Collision resistance of the hash is outside the claim."),
        technique="sibling agreement of provenance terms + exhaustive variant decision tables",
        design_ref="§4 C19"),
    "C15": dict(
        category="other",
        text=("Structural clauses decided: the tagged-hash midstates rustc evaluated equal the SHA-256 midstates of the Elements tags and every "
              "hash site uses the engine of the right tag; the tree builder (NodeInfo::combine) and the verifier "
              "(ControlBlock::verify_taproot_commitment) hash pairs smaller-first under the same tag, start from the same leaf hash and end in "
              "tweak_add_check with the stored parity and H_tweak(internal key || root); combine appends the partner hash to every leaf path of "
              "both children; control-block encoder order equals decoder offsets, size() = 33 + 32m, accepted lengths are exactly 33 + 32m "
              "with m <= 128 (decision table), leaf versions table over all 256 bytes, default leaf version = 0xc4; builder guards as exact decision tables over "
              "(depth, pending length) incl. over-complete/incomplete/empty refusal; Huffman: min-heap on Reverse<u64>, two pops per merge, "
              "saturating weight sum; key tweak composition for public keys and key pairs. NOT decided: that a wrong script/version/path/parity/"
              "key fails to verify (collision resistance and curve arithmetic), and optimality of Huffman depths beyond the algorithm's shape."),
        technique="structured-listing extraction + sibling agreement + exhaustive guard decision tables + evaluated-constant comparison",
        design_ref="§4 C15"),
    "C20": dict(
        category="other",
        text=("Table clauses decided (feature set serde,base64): writer keys of every keyed serde impl (own + flattened) are duplicate-free and "
              "equal the keys the reader recognises; hand-written struct readers map key -> identifier -> accumulator -> constructed field as "
              "the identity on field names; variant selection by present keys (ExtData, Params) maps each variant's written key set back to that "
              "variant (exhaustive table over presence patterns); confidential Value/Asset/Nonce tag tables, payload transforms and declared "
              "sequence lengths agree; every paired (de)serializer agrees on human-readable polarity and data-model shape, derived enums are externally tagged; sighash string tables "
              "are mutually inverse bijections and PsbtSighashType composes them with matching numeric tables; reversed-hex Display matches "
              "FromStr's reverse; OutPoint prefix literal length equals the parser's slice offset; PSET text = base64 over the consensus codec "
              "both ways; hand-written string/bytes visitors fail only where a conversion they call fails. Value-level equality after a round trip is not evaluated. Found F20 (fixed) and F21 (known finding)."),
        technique="writer/reader table extraction from MIR (derive-generated and hand-written impls) + exhaustive presence/decision tables",
        design_ref="§4 C20"),
    "C09": dict(
        category="other",
        text=("Decides the scalar bookkeeping, not the cryptographic outcome: blind_non_last publishes exactly one scalar "
              "last(v_k, abf_k, own inputs, other blinded outputs) + (-vbf_k) on every successful exit that blinded something, built from the "
              "factors the blinding calls returned; blind_last adds every published scalar to last(value, abf, inputs, explicit outputs), uses "
              "that blinder for the commitment and the explicit-value proof, and clears the list immediately before its only Ok exit; with "
              "several own outputs it hides/restores the last output's blinder_index around the nested non-last call and empties its input "
              "list; ValueBlindingFactor::last/AddAssign/Neg case tables; blind_checks selection as a 16-case decision table; surjection domain "
              "order and presence conditions agree with verify_tx_amt_proofs; the domain entry built per input (surjection_target / "
              "Asset::into_asset_gen decision tables: any non-null asset form of a non-owned input is accepted); every field is_fully_blinded reads is written per blinded output. "
              "NOT decided: balance and proof verification of the result, unblinding, any order/permutation claim beyond the fact that the "
              "published scalars are summed commutatively."),
        technique="structured-listing extraction + ordered effect rules + exhaustive predicate decision tables + sibling agreement",
        design_ref="§4 C09"),
    "C04": dict(
        category="other",
        text=("Decides the factor flow and sibling agreement, not the cryptographic outcome: in Transaction::blind the skip and count predicates "
              "are complementary (truth tables), unselected outputs enter the balance with zero factors, each non-last selected output with "
              "exactly the (abf, vbf) its blinding call returned (also the factors reported and the output stored), the last selected output is "
              "solved by ValueBlindingFactor::last over the caller's inputs and all other outputs; constructors draw each random factor once and "
              "report the ones they used; blinder, unblinder and verifier give the range proof the same script bytes and asset generator; "
              "range-proof message layout is identical in both directions and unblind returns the rewound value/blinder and the checked message; "
              "sender and receiver derive the shared secret with the same function; verify_tx_amt_proofs reaches Ok only through the balance "
              "equation over inputs(+issuance pseudo-inputs) and outputs with a range-proof check per confidential value and a surjection check "
              "per confidential asset, over a domain that holds every spent output's generator unfiltered; the blinding constructors "
              "have no explicit error return (the admitted amounts are libsecp's); variant tables of the confidential accessors. NOT decided: that blinding succeeds, that proofs verify, that commitments balance."),
        technique="structured-listing extraction + term-level factor-flow rules + predicate truth tables + must-pass-through (dominance)",
        design_ref="§4 C04"),
    "C17": dict(
        category="proof",
        text=("Proof by finite computation for the data-part clause: from the generator constants rustc evaluated out of /repo, all 31*N "
              "single-error syndromes (N = longest string the parser can check, derived from the HRP constants and accepted program "
              "lengths) are distinct and non-zero for blech32 and blech32m, so no one- or two-character corruption of the data part maps a "
              "codeword to a codeword; no weight<=2 pattern bridges the two residues (version-character changes); the constants equal the "
              "Elements reference and are internally consistent; and the decoder reaches Ok only through the residue comparison over the HRP "
              "and every data character (converted with bech32::Fe32::from_char only), on the caller's string unmodified (no case folding in front of the decoders); the mixed-case test covers every letter of the string, HRP included, so re-casing HRP letters is "
              "rejected. The rest of the human-readable-part clause (replacing HRP characters by other characters) is NOT claimed: "
              "rejection there is probabilistic."),
        technique="algebraic distance computation on compiler-evaluated constants + must-pass-through of the residue check",
        design_ref="§4 C17",
        note=("Trusted base: rustc const evaluation; the bech32 crate's polymod engine (dependency); Python integer arithmetic; the MIR dump for the "
              "structure obligations. The unblinded bech32/bech32m path uses the dependency's decoder and constants (side-checked on the published values).")),
    "C16": dict(
        category="other",
        text=("Decides the structural clauses of C16: the exact truth table of each of the ten template predicates over its own atomic "
              "conditions (length and byte comparisons against compiler-evaluated opcode constants) equals the specification table; "
              "Address::from_script takes the payload from the byte range the guarding predicate establishes and dispatches in the "
              "specified order; builders emit the opcodes the predicates test at the same positions; the push-size thresholds of "
              "push_slice, the minimal-push thresholds of Instructions::next and the PUSHDATA operand widths agree; small-integer, "
              "OP_TRUE/OP_FALSE and verify-folding tables; identity byte views of Script/Builder (Builder::from(bytes) remembers the last instruction only if it is an opcode); exhaustive 256-code table that an opcode "
              "classified Ordinary (Legacy context) is in the ordinary-opcode table; for the clause that an address's text form parses back, C06's rules "
              "(payload layouts, program-length and padding tables of the blech32 reader, prefix matching) are evaluated here as well. read_scriptint refuses only more than four bytes; script-number arithmetic itself and byte-level builder/iterator round trips are not decided."),
        technique="exact truth tables of boolean predicates (all valuations of their atoms) + table agreement between sibling builder/parser",
        design_ref="§4 C16, Appendix D"),
    "C11": dict(
        category="other",
        text=("Decides the structural clauses of C11: the three derivations are fast-merkle combinations of exactly the specified leaves in "
              "the specified order with the compiler-evaluated constants 0/1/2 || 0^31 and ONE for unblinded / TWO for blinded issuance "
              "amounts; TxIn::issuance_ids and pset::Input::issuance_ids have the same shape (same new/re-issuance test and branch "
              "association, same derivation calls, blinded flag from the issuance amount); the PSET output index reaches an OutPoint only "
              "through the flag mask (taint rule, with the coinbase exemption); the JSON contract is normalised through an ordered map and "
              "Cargo's resolved feature set of serde_json does not contain preserve_order. Hash arithmetic and fast_merkle_root are trusted/C18."),
        technique="provenance-term agreement of sibling derivations + evaluated constants + taint-to-sink rule + Cargo feature resolution check",
        design_ref="§4 C11"),
}

NOT_YET = "rule set designed in DESIGN.md but not built yet in this round; no claim is made"


def main():
    props = [json.loads(l) for l in open(os.path.join(V, "properties.jsonl"))]
    checks = []
    na = []
    extra_na = {}
    p = os.path.join(V, "tools", "not_applicable.json")
    if os.path.exists(p):
        extra_na = json.load(open(p))
    for pr in props:
        pid = pr["id"]
        if pid in CLAIMS and os.path.exists(os.path.join(V, "vflib", "rules", pid.lower() + ".py")):
            cl = CLAIMS[pid]
            checks.append({
                "property_id": pid,
                "quick_cmd": "./vf %s --tier quick" % pid,
                "thorough_cmd": "./vf %s --tier thorough" % pid,
                "evidence_file": "evidence/%s.json" % pid,
                "replay_cmd_template": "./vf explain {path}",
                "engine": "vf",
                "level_claimed": {"category": cl["category"], "text": cl["text"], "design_ref": cl["design_ref"]},
                "level_note": cl.get("note", BASE_NOTE),
                "technique": cl["technique"],
            })
        else:
            na.append({"property_id": pid, "reason": extra_na.get(pid, NOT_YET)})
    fixes = []
    try:
        out = subprocess.check_output(["git", "-C", "/repo", "log", "--format=%H %s"], text=True)
        for line in out.splitlines():
            h, s = line.split(" ", 1)
            if s.startswith("fix:"):
                fixes.append(h)
    except Exception:
        pass
    m = {
        "version": 1,
        "setup_cmd": "./vf setup",
        "hooks": {
            "guard": "elements_verif",
            "enable": "none needed: the checks analyse /repo's unmodified sources through a rustc wrapper (RUSTC_WORKSPACE_WRAPPER); no hook code exists in /repo",
            "baseline_off_cmd": "cd /repo && cargo test --workspace --no-fail-fast --offline",
            "source_commits": fixes,
            "add_only": True,
        },
        "engines": [
            {"name": "elfacts", "path": "driver/", "serves_properties": [c["property_id"] for c in checks],
             "kind_free_text": "rustc_private driver: dumps types, evaluated constants, MIR with resolved callees and the instance-level call graph of crate `elements` as JSON"},
            {"name": "vf", "path": "vf", "serves_properties": [c["property_id"] for c in checks],
             "kind_free_text": "Python rule engine over the facts: CFG/dominators, provenance terms, guards, field read/write sets, decision tables; per-property rules in vflib/rules"},
        ],
        "checks": checks,
        "notes": "Static analysis only: no library code is executed. Each check = the property's own rule module + supporting obligations adopted from other modules for helpers its anchors call (DESIGN 9.8). Exit codes: 0 held, 1 violation (VIOLATION line), 2 checker cannot decide (fail closed). Known findings in KNOWN_FINDINGS.txt.",
        "not_applicable": na,
    }
    json.dump(m, open(os.path.join(V, "MANIFEST.json"), "w"), indent=1)
    print("claimed:", [c["property_id"] for c in checks], "n/a:", len(na))


if __name__ == "__main__":
    main()

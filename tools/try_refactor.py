#!/usr/bin/env python3
"""try_refactor.py <id> <dir-with patch.diff + refactor_demo.rs> : confirm a behaviour-preserving refactoring in the
scratch worktree (demo passes without and with the patch, 105 library tests pass with it), then apply it to /repo, run
every check, restore /repo. Any check that alarms is a false alarm to fix (after reviewing that the refactoring really
preserves behaviour). Stores the refactoring under /verif/refactors/<id>/."""
import glob, json, os, shutil, subprocess, sys
import os as _os
_os.environ["VF_NO_EVIDENCE"] = "1"
rid, src = sys.argv[1:3]
WT = "/tmp/wt-fix"
ENV = dict(os.environ, CARGO_TARGET_DIR="/tmp/wt-target", CARGO_NET_OFFLINE="true")
def sh(cmd, cwd=None):
    r = subprocess.run(cmd, shell=True, cwd=cwd, env=ENV, stdout=subprocess.PIPE, stderr=subprocess.STDOUT, text=True)
    return r.returncode, r.stdout
head = subprocess.check_output(["git", "-C", "/repo", "rev-parse", "HEAD"], text=True).strip()
sh("git checkout -q -- . && git clean -fdq tests && git checkout -q --detach %s" % head, WT)
shutil.copy(os.path.join(src, "refactor_demo.rs"), os.path.join(WT, "tests", "refactor_demo.rs"))
_, o0 = sh("cargo test --offline --features serde,base64 --test refactor_demo 2>&1 | tail -4", WT)
rc, o = sh("git apply %s" % os.path.join(src, "patch.diff"), WT)
_, o1 = sh("cargo test --offline --features serde,base64 --lib 2>&1 | grep 'test result'", WT)
_, o2 = sh("cargo test --offline --features serde,base64 --test refactor_demo 2>&1 | tail -4", WT)
_, ow = sh("cargo build --offline --features serde,base64 --lib 2>&1 | grep -c '^warning: unused\\|^warning: unre'", WT)
sh("git checkout -q -- . && git clean -fdq tests", WT)
ok = rc == 0 and "test result: ok" in o0 and "105 passed; 0 failed" in o1 and "test result: ok" in o2
print("confirmed" if ok else "NOT CONFIRMED", {"demo clean": "ok" in o0, "apply": rc, "lib": o1.strip()[-60:], "demo patched": "test result: ok" in o2})
res = {}
if ok:
    sh("git -C /repo apply %s" % os.path.join(src, "patch.diff"))
    try:
        for p in sorted(os.path.basename(x)[:-3].upper() for x in glob.glob("/verif/vflib/rules/c[0-9]*.py")):
            r = subprocess.run(["/verif/vf", p], stdout=subprocess.PIPE, stderr=subprocess.STDOUT, text=True, cwd="/verif")
            res[p] = {"exit": r.returncode, "lines": [l.strip()[:300] for l in r.stdout.splitlines() if "violation:" in l or l.startswith("CANNOT")][:8]}
    finally:
        sh("git -C /repo checkout -- .")
dst = "/verif/refactors/" + rid
os.makedirs(dst, exist_ok=True)
for f in ("patch.diff", "refactor_demo.rs", "notes.md"):
    if os.path.exists(os.path.join(src, f)):
        shutil.copy(os.path.join(src, f), os.path.join(dst, f))
alarms = {p: v for p, v in res.items() if v["exit"] != 0}
json.dump({"id": rid, "base_commit": head, "confirmed": ok, "alarms_at_first_run": alarms}, open(os.path.join(dst, "meta.json"), "w"), indent=1)
print("alarms:", json.dumps(alarms, indent=1)[:3000] if alarms else "none")

#!/usr/bin/env python3
"""Authoring aid for tables/panic_sites.tsv (C10).

Input: the dump written by `VF_C10_DUMP=/tmp/c10pending.tsv ./vf C10` (sites that no discharge
rule covers) and its `.guards` companion. Output: tables/panic_sites.tsv with, per site key, the
reason confirmed by reading the code and, for parser/decoder sites, the dominating guards that
the reason relies on (the check fails when such a guard disappears).

Each rule: (function regex, key regex, reason, [guard substrings to require]). First match wins.
A site no rule matches stays unlisted and is reported by the check."""
import re
import sys

RULES = [
    # ---- pset/serialize.rs
    (r"Vec<taproot::TapLeafHash>, \(bitcoin::bip32::Fingerprint.*Deserialize>::deserialize$", r"RangeFrom\{encode::deserialize_partial\(arg1\)\.1\}",
     "consumed = Cursor::position() of a cursor over `bytes`, so consumed <= bytes.len() (encode::deserialize_partial, decided by C01.R1)", []),
    (r"TapTree as pset::serialize::Serialize>::serialize$", r"unreachable",
     "TapTree wraps only complete builders (TapTree::from_inner / Deserialize check is_complete()), whose single branch slot is Some", []),
    # ---- schnorr / taproot scalar arithmetic
    (r"schnorr::TapTweak>::tap_tweak$", r"expect .*add_tweak", "x-only tweak addition fails only if the result is the point at infinity (probability ~2^-128 for a hash-derived tweak)", []),
    (r"schnorr::TapTweak>::tap_tweak$", r"assertion failed: self.tweak_add_check", "debug_assert of the tweak just computed by add_tweak on the same inputs", []),
    (r"taproot::TapTweakHash::to_scalar$", r"Scalar::from_be_bytes", "a SHA256 output is >= the curve order with probability ~2^-128", []),
    (r"confidential::ValueBlindingFactor as std::ops::(AddAssign|Neg)>", r"SecretKey::from_slice\(confidential::ValueBlindingFactor::into_inner",
     "the operands are checked to be non-zero two statements above (early return for ZERO_TWEAK); a non-zero Tweak is a valid scalar < order by Tweak::from_inner/from_slice", []),
    (r"confidential::ValueBlindingFactor as std::ops::(AddAssign|Neg)>", r"ValueBlindingFactor::from_slice\(",
     "32 bytes of a valid SecretKey are a valid Tweak (same range check)", []),
    (r"confidential::Nonce::make_shared_secret$", r"copy_from_slice", "destination [1..] of a [u8;33] and source [..32] of the 64-byte shared point have 32 bytes each (constant ranges)", []),
    (r"confidential::Nonce::make_shared_secret$", r"core::slice::last", "shared_secret_point returns a 64-byte array", []),
    (r"confidential::Nonce::make_shared_secret$", r"SecretKey::from_slice", "sha256d output as secret key: invalid only if 0 or >= order (probability ~2^-128)", []),
    # ---- pset global decode
    (r"Global as encode::Decodable>::consensus_decode$", r"Overflow\(Sub\) \[\(std::vec::Vec::len\(.*\) Div 4\) ; 1\]",
     "raw_value is non-empty and len % 4 == 0 (guard two statements above), hence len/4 >= 1", ["std::vec::Vec::is_empty(ok(<pset::raw::Pair as encode::Decodable>::consensus_decode(arg1)).value)=false"]),
    (r"Global as encode::Decodable>::consensus_decode$", r"Index>::index \[ok\(.*\)\.value ; 0\]",
     "raw_value.len() == 1 is checked in the same condition", ["(std::vec::Vec::len(ok(<pset::raw::Pair as encode::Decodable>::consensus_decode(arg1)).value) Eq 1)=true"]),
    # ---- script iteration
    (r"script::Instructions<'a> as std::iter::Iterator>::next$", r"BoundsCheck \[len\(arg1\.data\) ; 1\]",
     "n == 1 and data.len() >= n + 1 were both checked in the dominating conditions, so index 1 exists",
     ["(core::slice::len(arg1.data) Lt ((opcodes::All::classify(arg1.data[0], opcodes::ClassifyContext::Legacy{}).0 as usize) AddWithOverflow 1).0)=false",
      "((opcodes::All::classify(arg1.data[0], opcodes::ClassifyContext::Legacy{}).0 as usize) Eq 1)=true"]),
    (r"script::Instructions<'a> as std::iter::Iterator>::next$", r"Overflow\(Add\) \[ok\(script::read_uint",
     "read_uint of at most 4 bytes returns < 2^32; adding <= 5 cannot overflow a 64-bit usize", []),
    (r"^script::read_uint$", r".", "size <= 4 at every call site (1, 2, 4): shifts are < 32 bits and the sum stays < 2^32; guarded by data.len() >= size",
     []),
    (r"^script::read_scriptint$", r".", "len is 1..=4 here (the two early returns), so sh = 8*len is 8..=32 and every shift/subtraction is in range; the result of a <= 32-bit accumulation cannot be i64::MIN",
     ["(core::slice::len(arg1) Eq 0)=false", "(core::slice::len(arg1) Gt 4)=false"]),
    (r"^script::read_scriptint::\{closure#0\}$", r".", "fold over at most 4 bytes (read_scriptint returns early for len > 4): sh <= 24 and acc < 2^32", []),
    (r"^script::Script::fmt_asm$", r"BoundsCheck", "index < self.0.len() is the loop condition", []),
    (r"^script::Script::fmt_asm$", r"Overflow\(Add\)", "index <= len(script) and data_len < 2^32 (read_uint of <= 4 bytes): sums of in-memory lengths", []),
    (r"^script::Script::fmt_asm$", r"RangeFrom\{cyc\}", "each `&self.0[index..]` follows the check self.0.len() >= index + k", []),
    (r"^script::Script::fmt_asm$", r"Range::Range\{", "guarded by index + data_len <= self.0.len() in the enclosing if", []),
    (r"^opcodes::All::classify$", r"Overflow", "i32 arithmetic on two u8 values", []),
    (r"^opcodes::All::classify$", r"try_from_all", "Legacy context (the only one used on fallible paths): every code > 0xb9 is mapped to ReturnOp by an earlier arm, codes <= 0x60 and PushNum are matched earlier, every remaining code is an Ordinary opcode", []),
    (r"^script::Builder::push_int$", r".", "inside `data == -1 || 1 <= data <= 16`: data - 1 + 0x51 is in 0x4f..=0x60", []),
    (r"^script::Builder::push_slice$", r"begin_panic", "infallible builder API with a documented size limit; on fallible paths it is only called with witness programs / hashes (<= 40 bytes)", []),
    (r"^script::build_scriptint$", r"OverflowNeg", "reached only through Builder::push_int from address/witness-program construction with values 0..=16; i64::MIN is not a script number", []),
    # ---- OutPoint::from_str
    (r"transaction::OutPoint as std::str::FromStr>::from_str$", r"RangeFrom\{10\}", "under starts_with(\"[elements]\"), a 10-byte ASCII prefix",
     ["core::str::starts_with("]),
    # ---- address
    (r"^address::Address::from_script$", r"Range::Range\{3, 23\}|try_into.*Range::Range\{3", "under is_p2pkh(): len == 25", ["script::Script::is_p2pkh(arg1)=true"]),
    (r"^address::Address::from_script$", r"Range::Range\{2, 22\}|try_into.*Range::Range\{2", "under is_p2sh() (len == 23) or is_v0_p2wpkh() (len == 22)", []),
    (r"^address::Address::from_script$", r"Range::Range\{2, 34\}", "under is_v0_p2wsh(): len == 34", ["script::Script::is_v0_p2wsh(arg1)=true"]),
    (r"^address::Address::from_script$", r"BoundsCheck|RangeFrom\{2\}|Overflow\(Sub\)|Fe32 as std::convert::TryFrom",
     "under is_v1plus_p2witprog(): len > 1, len == b1 + 2 and 0x51 <= b0 <= 0x60, so b0 - 0x50 is 1..=16 (< 32) and [2..] is in range (the predicate's table is decided by C16.R1)",
     ["script::Script::is_v1plus_p2witprog(arg1)=true"]),
    (r"^address::find_prefix$", r"split_at", "index returned by rfind('1') on the same string: a char boundary <= len", []),
    # ---- blech32
    (r"CheckedHrpstring::<'s>::validate_padding$", r"unreachable_display", "padding_len = n*5 % 8 and the > 4 case returned above; arms 0..=4 are exhaustive", []),
    (r"CheckedHrpstring::<'s>::validate_padding$", r"Iterator::last", "data is non-empty (early return above), so the iterator has a last element; its bytes were validated by check_characters",
     ["core::slice::is_empty(arg1.data)=false"]),
    (r"CheckedHrpstring::<'s>::validate_segwit$", r"RangeFrom\{1\}", "under the is_empty() early return", ["core::slice::is_empty("]),
    (r"blech32::decode::.*(validate_segwit|SegwitHrpstring::<'s>::new|SegwitHrpstring::<'s>::new_bech32|validate_checksum::\{closure#0\})$", r"Fe32::from_char",
     "every data character was validated by check_characters in UncheckedHrpstring::new, the only constructor (fields private)", []),
    (r"UncheckedHrpstring::<'s>::new$", r"split_at", "sep_pos is the byte index of an ASCII '1' found by char_indices() on the same string", []),
    (r"UncheckedHrpstring::<'s>::new$", r"RangeFrom", "data starts with the separator character, so it has at least 1 byte", []),
    (r"UncheckedHrpstring::<'s>::remove_checksum$", r"Overflow\(Sub\)",
     "documented `# Panics`; its only caller validate_and_remove_checksum runs validate_checksum first, which requires data.len() >= CHECKSUM_LENGTH", []),
    # ---- blind.rs
    (r"confidential::Value>::blind_with_shared_secret$", r"commitment", "value was just built by Value::new_confidential, whose commitment() is Some", []),
    (r"transaction::Transaction>::blind$", r"Index(Mut)?>::index(_mut)? \[arg1\.output ; phi",
     "last_index is Some(i) with i produced by enumerate() over self.output in the loop above (None returns TooFewBlindingOutputs)", []),
    (r"transaction::Transaction>::blind$", r"Nonce::commitment", "under nonce.is_confidential() (the other branch `continue`s / the index was recorded only in that branch)", []),
    (r"transaction::Transaction>::blind$", r"(Asset|Value)::explicit", "after the all-outputs-explicit check that returns MustHaveAllExplicitTxOuts", []),
    (r"transaction::Transaction>::verify_tx_amt_proofs$", r"BoundsCheck \[len\(arg3\) ; index\(arg1\.input\)\]",
     "i < self.input.len() == spent_utxos.len() (dominating equality check)", ["(core::slice::len(arg3) Ne std::vec::Vec::len(arg1.input))=false"]),
    (r"RangeProofMessage::to_byte_array$", r"copy_from_slice", "two 32-byte halves of a [u8;64] filled from 32-byte arrays", []),
    # ---- dynafed / misc
    (r"^dynafed::Params::calculate_root$", r"unwrap", "after the is_null() early return: Compact and Full both have a signblockscript / witness limit", []),
    (r"^endian::u32_to_array_le$", r".", "macro-generated loop over 0..4 on a [u8;4]: i < 4, i*8 <= 24, and the size_of assertion is a compile-time constant equality", []),
    (r"^fast_merkle_root::fast_merkle_root$", r".", "level <= log2(count) < 32 for any slice that fits in memory (count would need >= 2^32 leaves of 32 bytes); inner has 32 slots", []),
    (r"^fast_merkle_root::sha256midstate$", r"midstate", "exactly 64 bytes (one block) were input", []),
    (r"^issuance::ContractHash::from_json_contract$", r"to_writer", "writer is a hash engine; the value was just parsed from JSON so it re-serializes", []),
    (r"^locktime::LockTime::from_consensus$", r"expect", "guarded by n < LOCK_TIME_THRESHOLD on both sides", []),
    (r"^parse::int::\{closure#0\}$", r".", "size_of::<T>() <= 16 for the integer types this helper is instantiated with", []),
    # ---- pset blinding
    (r"PartiallySignedTransaction::blind_checks$", r"index\(arg1\.outputs\)", "index produced by enumerate() over self.outputs", []),
    (r"PartiallySignedTransaction::blind_(last|non_last)$", r"Index(Mut)?>::index(_mut)? \[arg1\.outputs ; ",
     "indices come from blind_checks, which collects them with enumerate() over self.outputs (no output is removed in between)", []),
    (r"PartiallySignedTransaction::blind_(last|non_last)$", r"(amount_comm|asset_comm) ; \"Blinding proof",
     "the field was assigned from txout.value/asset.commitment() of the freshly blinded output a few statements earlier", []),
    (r"PartiallySignedTransaction::blind_last$", r"unwrap \[std::vec::Vec::pop\(", "after the outs_to_blind.is_empty() early return (AtleastOneOutputBlind)", []),
    (r"PartiallySignedTransaction::blind_non_last$", r"unwrap \[std::vec::Vec::pop\(", "out_secrets received one push per element of outs_to_blind, which is non-empty here", []),
    (r"PartiallySignedTransaction::blind_non_last$", r"RangeTo\{std::vec::Vec::len", "range end is the length of the same vector", []),
    (r"PartiallySignedTransaction::locktime$", r"unreachable", "dead arms: proven by the lattice analysis C08.R1 (cells (U,D) and (D,U) are not reachable)", []),
    (r"PartiallySignedTransaction::remove_(input|output)$", r"Overflow\(Sub\)",
     "under get(index).is_some(): the vector is non-empty and the counts are only changed together with the vectors (C07.R5)", ["std::option::Option::is_some(core::slice::get("]),
    (r"PartiallySignedTransaction::remove_(input|output)$", r"Vec::::remove", "under get(index).is_some()", ["std::option::Option::is_some(core::slice::get("]),
    # ---- sighash (documented panics)
    (r"encode_legacy_signing_data_to$", r"assertion failed: input_index", "documented `# Panics`: input_index out of range", []),
    (r"encode_legacy_signing_data_to$", r"Index>::index \[arg1\.tx\.input ; arg3\]", "after assert!(input_index < self.tx.input.len()) (documented panic)", ["(arg3 Lt std::vec::Vec::len(arg1.tx.input))=true"]),
    (r"encode_legacy_signing_data_to$", r"Overflow\(Add\) \[arg3 ; 1\]", "input_index < input.len() <= isize::MAX", ["(arg3 Lt std::vec::Vec::len(arg1.tx.input))=true"]),
    (r"encode_legacy_signing_data_to$", r"unreachable", "split_anyonecanpay_flag returns only All/None/Single as base type", []),
    (r"encode_segwitv0_signing_data_to$", r"arg1\.tx\.input ; arg3", "documented `# Panics`: input_index out of range", []),
    (r"encode_segwitv0_signing_data_to$", r"arg1\.tx\.output ; arg3", "under input_index < self.tx.output.len()", ["(arg3 Lt std::vec::Vec::len(arg1.tx.output))=true"]),
    # ---- taproot
    (r"^taproot::ControlBlock::from_slice$", r"Parity::from_u8", "argument masked with & 1", []),
    (r"^taproot::ControlBlock::serialize$", r"encode", "writer is a Vec", []),
    (r"^taproot::TaprootBuilder::insert$", r"index_mut", "branch was extended to len >= depth + 1 just above (or the loop exited with len == depth + 1 after the push)", []),
    (r"^taproot::TaprootBuilder::insert$", r"unreachable_display", "loop condition len == depth + 1 >= 1, so pop() is Some", []),
    (r"^taproot::TaprootMerkleBranch::from_slice$", r"chunks_exact", "chunk size is the non-zero constant 32", []),
    (r"^taproot::TaprootMerkleBranch::from_slice::\{closure#0\}$", r"try_from", "chunks_exact(32) yields 32-byte chunks", []),
    (r"^taproot::TaprootSpendInfo::control_block$", r"min_by", "script_map values are created non-empty in from_node_info and never emptied", []),
    (r"^taproot::TaprootSpendInfo::with_huffman_tree$", r"len must be at least two", "inside while len() > 1", ["(std::collections::BinaryHeap::len("]),
    (r"^taproot::TaprootSpendInfo::with_huffman_tree$", r"assertion failed|huffman tree algorithm is broken", "the heap is non-empty (early return) and every iteration removes exactly one element, so exactly one remains",
     ["std::collections::BinaryHeap::is_empty("]),
    # ---- transaction sizes
    (r"^transaction::Transaction::discount_weight$", r"Overflow\(Sub\) \[33 ;", "constant arithmetic", []),
    (r"^transaction::Transaction::discount_weight$", r"Overflow\(Sub\)", "each amount subtracted was added to scaled_size(4) for the same output (witness bytes, 33-byte commitments at scale 4)", []),
    (r"^transaction::Transaction::scaled_size", r".", "private helper called with scale_factor 1 and 4 only: products/sums of byte lengths of in-memory data", []),
    (r"^transaction::TxOut::minimum_value$", r".", "a RangeProof object always serializes to >= 65 bytes (libsecp256k1-zkp rejects shorter proofs in from_slice; new() produces full proofs); any 8 bytes decode as u64",
     ["discr(arg1.witness.rangeproof)=Some"]),
]


def main():
    dump = sys.argv[1]
    out = sys.argv[2]
    guards = {}
    for ln in open(dump + ".guards"):
        fn, key, gs = ln.rstrip("\n").split("\t")
        guards.setdefault((fn, key), []).append(gs.split(" && ") if gs else [])
    rows = []
    unmatched = []
    for ln in open(dump):
        fn, key, n, where, entry = ln.rstrip("\n").split("\t")
        for (fr, kr, reason, need) in RULES:
            if re.search(fr, fn) and re.search(kr, key):
                sel = []
                for sub in need:
                    cands = None
                    for gl in guards.get((fn, key), []):
                        hit = {g for g in gl if sub in g}
                        cands = hit if cands is None else (cands & hit)
                    if not cands:
                        print("WARNING: required guard %r not found for %s | %s" % (sub, fn, key[:80]))
                    else:
                        sel.extend(sorted(cands))
                rows.append((fn, key, n, reason, " && ".join(sel)))
                break
        else:
            unmatched.append((fn, key, where))
    with open(out, "w") as fh:
        fh.write("# C10 panic-site table: function <TAB> site key <TAB> count <TAB> reason <TAB> required dominating guards\n")
        fh.write("# generated with tools/c10_table.py from reviewed rules; the check never writes this file\n")
        for r in sorted(rows):
            fh.write("\t".join(r) + "\n")
    print("tabled %d, unmatched %d" % (len(rows), len(unmatched)))
    for u in unmatched:
        print("UNMATCHED", u[0], "|", u[1][:140], "|", u[2])


if __name__ == "__main__":
    main()

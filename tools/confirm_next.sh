#!/bin/bash
# usage: tools/confirm_next.sh Cxx <suffix> "what it needs to manifest" : next free seed id for the property, then tools/confirm_seed.py on /tmp/seed-Cxx-<suffix>/out
prop=$1; suf=$2; shift 2
n=$(ls /verif/seeded | grep "^$prop-" | sed "s/$prop-//" | sort -n | tail -1); n=$((n+1))
python3 /verif/tools/confirm_seed.py $prop-$n $prop /tmp/seed-$prop-$suf/out "$*" 2>&1 | grep "confirmed\|CONFIRMED\|caught by\|^  $prop \[" | cut -c1-420

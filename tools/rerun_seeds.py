#!/usr/bin/env python3
"""rerun_seeds.py : apply every stored seeded change to /repo in turn, run the check of the property it breaks
(and report which other checks fire), restore /repo. Prints one line per seed; exit 1 if a target check misses."""
import glob, json, os, subprocess, sys
import os as _os
_os.environ["VF_NO_EVIDENCE"] = "1"
bad = 0
for meta in sorted(glob.glob("/verif/seeded/*/meta.json")):
    m = json.load(open(meta))
    d = os.path.dirname(meta)
    r = subprocess.run(["git", "-C", "/repo", "apply", os.path.join(d, "patch.diff")], capture_output=True, text=True)
    if r.returncode != 0:
        print(m["id"], "PATCH DOES NOT APPLY", r.stderr.strip()[:100]); bad += 1; continue
    try:
        res = {}
        for p in ([m["breaks_property"]] if "--all" not in sys.argv else sorted(os.path.basename(x)[:-3].upper() for x in glob.glob("/verif/vflib/rules/c[0-9]*.py"))):
            rr = subprocess.run(["/verif/vf", p], capture_output=True, text=True, cwd="/verif")
            res[p] = (rr.returncode, sorted({l.split("violation: ")[1].split("|")[0] for l in rr.stdout.splitlines() if "violation: " in l}))
    finally:
        subprocess.run(["git", "-C", "/repo", "checkout", "--", "."])
    t = res[m["breaks_property"]]
    ok = t[0] == 1
    bad += 0 if ok else 1
    others = [p for p, v in res.items() if v[0] == 1 and p != m["breaks_property"]]
    print(m["id"], "caught" if ok else "MISSED(exit %d)" % t[0], t[1], ("also: %s" % others) if others else "")
sys.exit(1 if bad else 0)

import sys
sys.path.insert(0, "/verif")
from vflib import facts
from vflib.mir import Program, show, Prov
from vflib.structured import listing
from vflib.analysis import effects
prog = Program(facts.load("full"))
def pr(stmts, ind=0):
    for s in stmts:
        if s[0]=="set": print(" "*ind+show(s[1],-20)," := ",show(s[2],-20))
        elif s[0]=="ret": print(" "*ind+"ret",show(s[1],-20))
        elif s[0]=="while":
            print(" "*ind+"while",show(s[1],-20),s[2]); pr(s[3],ind+2)
        elif s[0]=="if":
            print(" "*ind+"if",show(s[1],-20))
            for k,v in s[2].items(): print(" "*ind+" ["+k+"]"); pr(v,ind+3)
        else: print(" "*ind+str(s[0]), [show(x,-20) if isinstance(x,tuple) else x for x in s[1:]])
for name in sys.argv[1:]:
    f = prog.fn(name)
    print("=====", name)
    try:
        L, names = listing(f.body)
        print(names); pr(L)
    except Exception as e:
        import traceback; traceback.print_exc()
    print("-- effects")
    for e in effects(f.body): print("  ", e["kind"], e.get("callee"), show(e["target"],-12), "<-", show(e["value"],-12) if e.get("value") else "", [show(a,-12) for a in e.get("args",())])
    print("-- ret", show(Prov(f.body).local(0), -20)[:1500])

#!/usr/bin/env python3
"""coverage_map.py [Cxx ...] : which crate functions does each property's rule module look at, and which local
functions do those call (transitively) WITHOUT any rule of that property ever opening their body?  The second list is
where a change can alter the behaviour a rule relies on while the rule's own anchors stay untouched — the places to add
a rule, to borrow another property's instance, or to state a trust assumption.  Output: one block per property, and
/verif/tables/coverage_map.json.  (Static: bodies are 'opened' when a rule builds the MIR Body object of a function.)"""
import importlib, json, os, re, sys
sys.path.insert(0, "/verif")
os.environ["VF_NO_EVIDENCE"] = "1"
from vflib import facts
from vflib.mir import Program, callee_name
from vflib.report import Check

SKIP = re.compile(r"(as std::fmt::(Debug|Display|LowerHex|UpperHex)>::fmt$|as std::clone::Clone>::clone$|as std::cmp::(PartialEq|Eq|PartialOrd|Ord)>::|as std::hash::Hash>::hash$|"
                  r"as std::default::Default>::default$|::assert_fields_are_eq$|as std::error::Error>::|as std::convert::From<.*Error>|::fmt$|^<.*Error as )")


def local_callees(prog, f):
    out = set()
    b = f.body
    for bi in range(b.n):
        t = b.blocks[bi]["t"]
        if t["k"] != "call":
            continue
        for key in ("resolved", "callee"):
            n = t.get(key)
            if n and n in prog.fns:
                out.add(n)
        for a in t.get("args", []):
            pass
        # closures created here
    for p in prog.fns:
        if p.startswith(f.path + "::{closure#"):
            out.add(p)
    return out


def main():
    only = [a for a in sys.argv[1:] if re.match(r"^C\d\d$", a)]
    res = {}
    base = Program(facts.load("full"))
    callmap = {p: local_callees(base, f) for p, f in base.fns.items()}
    for i in range(1, 21):
        pid = "C%02d" % i
        if only and pid not in only:
            continue
        prog = Program(facts.load("full"))
        mod = importlib.import_module("vflib.rules." + pid.lower())
        c = Check(pid, "quick")
        try:
            mod.run(c, prog, {"tier": "quick", "config": "full"})
        except Exception as e:  # noqa
            print(pid, "rule module failed:", e)
            continue
        opened = {p for p, f in prog.fns.items() if f._body is not None}
        asked = set(prog.asked)
        seen, st = set(asked), list(asked)
        while st:
            x = st.pop()
            for y in callmap.get(x, ()):
                if y not in seen:
                    seen.add(y)
                    st.append(y)
        blind = sorted(p for p in seen - opened if not SKIP.search(p))
        res[pid] = {"opened": len(opened), "anchors": sorted(asked), "reachable_unopened": blind}
        print("== %s: %d anchors named by its rules (%d bodies opened incl. scans); %d local functions the anchors call (transitively) that no rule of %s opens" % (pid, len(asked), len(opened), len(blind), pid))
        for p in blind:
            print("     ", p)
    os.makedirs("/verif/tables", exist_ok=True)
    if not only:
        json.dump(res, open("/verif/tables/coverage_map.json", "w"), indent=1)


main()

#!/usr/bin/env python3
"""mutcheck.py <prop> <file> <old> <new> : apply a textual mutation to /repo, run the check, restore."""
import os as _os
_os.environ["VF_NO_EVIDENCE"] = "1"
import subprocess, sys
prop, path, old, new = sys.argv[1:5]
p = "/repo/" + path
s = open(p).read()
assert s.count(old) >= 1, "pattern not found"
open(p, "w").write(s.replace(old, new, 1))
try:
    r = subprocess.run(["/verif/vf", prop], capture_output=True, text=True)
    lines = [l for l in r.stdout.splitlines() if "violation:" in l or l.startswith("CANNOT") or l.startswith(prop)]
    print("exit", r.returncode)
    print("\n".join(l[:260] for l in lines[:12]))
finally:
    subprocess.run(["git", "-C", "/repo", "checkout", "--", path])

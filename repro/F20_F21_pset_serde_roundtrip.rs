// Append to src/pset/mod.rs and run: cargo test --lib --features serde,base64 verif_c20_repro -- --nocapture
// F20: before the fix every PSET fails with "duplicate field `version`" (JSON and CBOR).
// F21: after the fix, Global with fallback_locktime = Some(..) still fails under serde_cbor 0.8 (enum as array inside a flattened struct).
#[cfg(all(test, feature = "serde"))]
mod verif_c20_repro {
    use super::*;
    fn rt(pset: &PartiallySignedTransaction) {
        let s = serde_json::to_string(pset).unwrap();
        let back: PartiallySignedTransaction = serde_json::from_str(&s).expect("json roundtrip");
        assert_eq!(pset, &back);
        let s = serde_cbor::to_vec(pset).unwrap();
        let back: PartiallySignedTransaction = serde_cbor::from_slice(&s).expect("cbor roundtrip");
        assert_eq!(pset, &back);
    }
    #[test]
    fn pset_roundtrip_empty() {
        rt(&PartiallySignedTransaction::new_v2());
    }
    #[test]
    fn pset_roundtrip_vectors() {
        let pset_str = include_str!("../../tests/data/pset_swap_tutorial.hex");
        let bytes = hex::decode_to_vec(pset_str).unwrap();
        let pset = encode::deserialize::<PartiallySignedTransaction>(&bytes).unwrap();
        macro_rules! c { ($e:expr, $t:ty) => {{ let v = serde_cbor::to_vec(&$e).unwrap(); let r: Result<$t, _> = serde_cbor::from_slice(&v); match r { Ok(b) => assert!(b == $e, "{} differs", stringify!($e)), Err(e) => println!("CBOR FAIL {}: {:?}", stringify!($e), e) } }} }
        c!(pset.global, Global);
        println!("GLOBAL {:?}", pset.global.tx_data);
        let mut g2 = pset.global.clone(); g2.tx_data.fallback_locktime = None; c!(g2, Global);
        c!(pset.global.tx_data, crate::pset::GlobalTxData);
        for i in pset.inputs() { c!(i.clone(), Input); c!(i.witness_utxo, Option<TxOut>); c!(i.non_witness_utxo, Option<Transaction>); c!(i.sighash_type, Option<PsbtSighashType>); c!(i.sequence, Option<Sequence>); c!(i.bip32_derivation, BTreeMap<bitcoin::PublicKey, bitcoin::bip32::KeySource>); c!(i.previous_txid, Txid); c!(i.asset, Option<crate::AssetId>); c!(i.redeem_script, Option<crate::Script>); c!(i.final_script_witness, Option<Vec<Vec<u8>>>); c!(i.in_utxo_rangeproof, Option<Box<secp256k1_zkp::RangeProof>>); c!(i.partial_sigs, BTreeMap<bitcoin::PublicKey, Vec<u8>>); }
        for o in pset.outputs() { c!(o.clone(), Output); c!(o.script_pubkey, crate::Script); c!(o.blinding_key, Option<bitcoin::PublicKey>); c!(o.asset_comm, Option<secp256k1_zkp::Generator>); c!(o.amount_comm, Option<secp256k1_zkp::PedersenCommitment>); c!(o.value_rangeproof, Option<Box<secp256k1_zkp::RangeProof>>); c!(o.asset_surjection_proof, Option<Box<secp256k1_zkp::SurjectionProof>>); c!(o.ecdh_pubkey, Option<bitcoin::PublicKey>);}
        let mut p2 = pset.clone(); p2.global.tx_data.fallback_locktime = None; rt(&p2);
        let tx = pset.extract_tx().unwrap();
        let s = serde_json::to_string(&tx).unwrap();
        let back: Transaction = serde_json::from_str(&s).expect("tx json");
        assert_eq!(tx, back);
        let s = serde_cbor::to_vec(&tx).unwrap();
        let back: Transaction = serde_cbor::from_slice(&s).expect("tx cbor");
        assert_eq!(tx, back);
    }
}

use elements::pset::PartiallySignedTransaction as Pset;
use elements::pset::{Input, Output};
use elements::{confidential, AssetId, Script, Transaction, TxOut, TxIn, LockTime, Sequence, EcdsaSighashType, OutPoint, Txid};
use elements::hashes::Hash;
use elements::bitcoin::bip32::{Xpub, Fingerprint, DerivationPath};
use std::str::FromStr;

fn base() -> Pset {
    let mut p = Pset::new_v2();
    let inp = Input::from_prevout(OutPoint::new(Txid::from_byte_array([0u8; 32]), 1));
    p.add_input(inp);
    let asset = AssetId::from_byte_array([7u8; 32]);
    let out = Output::new_explicit(Script::from(vec![0x51]), 10, asset, None);
    p.add_output(out);
    p
}

#[test]
fn f5_sighash_and_sequence_dropped() {
    let a = base();
    let mut b = base();
    b.inputs_mut()[0].sighash_type = Some(EcdsaSighashType::All.into());
    b.inputs_mut()[0].sequence = Some(Sequence::from_consensus(5));
    assert_eq!(a.unique_id().unwrap(), b.unique_id().unwrap());
    let mut m = a.clone();
    m.merge(b.clone()).unwrap();
    assert_eq!(m.inputs()[0].sighash_type, b.inputs()[0].sighash_type, "sighash_type lost");
    assert_eq!(m.inputs()[0].sequence, b.inputs()[0].sequence, "sequence lost");
}

#[test]
fn f5b_non_witness_utxo_cleared() {
    let tx = Transaction { version: 2, lock_time: LockTime::ZERO, input: vec![], output: vec![] };
    let mut a = base();
    a.inputs_mut()[0].non_witness_utxo = Some(tx);
    let mut b = base();
    b.inputs_mut()[0].witness_utxo = Some(TxOut::default());
    let mut ab = a.clone(); ab.merge(b.clone()).unwrap();
    let mut ba = b.clone(); ba.merge(a.clone()).unwrap();
    assert!(ab.inputs()[0].non_witness_utxo.is_some(), "non_witness_utxo lost");
    assert_eq!(ab, ba, "merge order matters");
}

#[test]
fn f19_fallback_locktime_dropped() {
    let mut a = base();
    let mut b = base();
    // an input constrains the lock time, so the fallback is outside the unique id
    a.inputs_mut()[0].required_height_locktime = Some(elements::locktime::Height::from_consensus(10).unwrap());
    b.inputs_mut()[0].required_height_locktime = Some(elements::locktime::Height::from_consensus(10).unwrap());
    b.global.tx_data.fallback_locktime = Some(LockTime::from_consensus(77));
    assert_eq!(a.unique_id().unwrap(), b.unique_id().unwrap());
    a.merge(b).unwrap();
    assert_eq!(a.global.tx_data.fallback_locktime, Some(LockTime::from_consensus(77)), "fallback lost");
}

fn xpub() -> Xpub {
    Xpub::from_str("xpub661MyMwAqRbcFtXgS5sYJABqqG9YLmC4Q1Rdap9gSE8NqtwybGhePY2gZ29ESFjqJoCu1Rupje8YtGqsefD265TMg7usUDFdp6W1EGMcet8").unwrap()
}

#[test]
fn f4_xpub_shorter_not_suffix_panics() {
    let mut a = base();
    let mut b = base();
    a.global.xpub.insert(xpub(), (Fingerprint::from([1,2,3,4]), DerivationPath::from_str("m/1/2/3").unwrap()));
    b.global.xpub.insert(xpub(), (Fingerprint::from([1,2,3,4]), DerivationPath::from_str("m/9").unwrap()));
    // other's path is shorter and not a suffix: must be a MergeConflict, not a panic
    let r = std::panic::catch_unwind(move || a.merge(b));
    assert!(r.is_ok(), "merge panicked");
    assert!(r.unwrap().is_err());
}

#[test]
fn f4b_equal_path_different_fingerprint() {
    let mut a = base();
    let mut b = base();
    a.global.xpub.insert(xpub(), (Fingerprint::from([1,2,3,4]), DerivationPath::from_str("m/1/2").unwrap()));
    b.global.xpub.insert(xpub(), (Fingerprint::from([9,9,9,9]), DerivationPath::from_str("m/1/2").unwrap()));
    assert!(a.merge(b).is_err(), "equal path with different fingerprint must be a conflict");
}

#[test]
fn f6_output_amount_asset_dropped() {
    use elements::secp256k1_zkp::{Secp256k1, Generator, PedersenCommitment, Tag, Tweak};
    let secp = Secp256k1::new();
    let gen = Generator::new_blinded(&secp, Tag::from([7u8; 32]), Tweak::from_slice(&[1u8; 32]).unwrap());
    let comm = PedersenCommitment::new(&secp, 10, Tweak::from_slice(&[2u8; 32]).unwrap(), gen);
    let mut a = base();
    let mut b = base();
    // both are blinded (same commitments => same unique id); only b kept the explicit amount/asset
    for p in [&mut a, &mut b] {
        p.outputs_mut()[0].amount_comm = Some(comm);
        p.outputs_mut()[0].asset_comm = Some(gen);
    }
    a.outputs_mut()[0].amount = None;
    a.outputs_mut()[0].asset = None;
    assert_eq!(a.unique_id().unwrap(), b.unique_id().unwrap());
    a.merge(b.clone()).unwrap();
    assert_eq!(a.outputs()[0].amount, b.outputs()[0].amount, "explicit amount lost");
    assert_eq!(a.outputs()[0].asset, b.outputs()[0].asset, "explicit asset lost");
}

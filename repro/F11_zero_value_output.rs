use elements::{confidential, AssetId, Script, Transaction, TxOut, TxIn, LockTime, TxOutWitness};
use elements::secp256k1_zkp::Secp256k1;


#[test]
fn f11_zero_value_op_return() {
    let secp = Secp256k1::new();
    let asset = AssetId::from_byte_array([7u8; 32]);
    let spent = TxOut {
        asset: confidential::Asset::Explicit(asset),
        value: confidential::Value::Explicit(100),
        nonce: confidential::Nonce::Null,
        script_pubkey: Script::from(vec![0x51]),
        witness: TxOutWitness::default(),
    };
    let pay = TxOut { value: confidential::Value::Explicit(100), ..spent.clone() };
    let opret = TxOut {
        asset: confidential::Asset::Explicit(asset),
        value: confidential::Value::Explicit(0),
        nonce: confidential::Nonce::Null,
        script_pubkey: Script::from(vec![0x6a, 0x01, 0x00]),
        witness: TxOutWitness::default(),
    };
    let tx = Transaction { version: 2, lock_time: LockTime::ZERO, input: vec![TxIn::default()], output: vec![pay.clone()] };
    tx.verify_tx_amt_proofs(&secp, &[spent.clone()]).expect("balanced explicit tx verifies");
    let tx2 = Transaction { version: 2, lock_time: LockTime::ZERO, input: vec![TxIn::default()], output: vec![pay, opret] };
    tx2.verify_tx_amt_proofs(&secp, &[spent]).expect("zero-value OP_RETURN output is admissible");
}

use elements::{Address, AddressParams, Script};
use elements::address::Payload;
use elements::secp256k1_zkp::{Secp256k1, SecretKey, PublicKey};
use bech32::Fe32;
use std::str::FromStr;

#[test]
fn f2_blinded_address_with_too_short_program_must_not_parse() {
    let secp = Secp256k1::new();
    let pk = PublicKey::from_secret_key(&secp, &SecretKey::from_slice(&[3u8; 32]).unwrap());
    for plen in [0usize, 1] {
        let a = Address { params: &AddressParams::ELEMENTS, payload: Payload::WitnessProgram { version: Fe32::P, program: vec![7u8; plen] }, blinding_pubkey: Some(pk) };
        let s = a.to_string();
        assert!(Address::from_str(&s).is_err(), "blinded v1 address with a {}-byte program parsed: {}", plen, s);
    }
    // the shortest legal program still parses
    let a = Address { params: &AddressParams::ELEMENTS, payload: Payload::WitnessProgram { version: Fe32::P, program: vec![7u8; 2] }, blinding_pubkey: Some(pk) };
    assert_eq!(Address::from_str(&a.to_string()).unwrap(), a);
}

#[test]
fn f10_v1plus_predicate_requires_two_byte_program() {
    for bytes in [vec![0x51u8, 0x00], vec![0x51, 0x01, 0xaa]] {
        let script = Script::from(bytes.clone());
        assert!(!script.is_witness_program());
        assert!(!script.is_v1plus_p2witprog(), "{:x?} is not a witness program but is_v1plus_p2witprog() is true", bytes);
        assert!(Address::from_script(&script, None, &AddressParams::ELEMENTS).is_none());
    }
}

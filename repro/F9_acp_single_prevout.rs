use elements::sighash::{SighashCache, Prevouts};
use elements::{confidential, AssetId, Script, Transaction, TxOut, TxIn, LockTime, OutPoint, Txid, TxOutWitness, SchnorrSighashType, BlockHash};


#[test]
fn f9_all_anyonecanpay_with_single_prevout() {
    let asset = AssetId::from_byte_array([7u8; 32]);
    let out = TxOut { asset: confidential::Asset::Explicit(asset), value: confidential::Value::Explicit(5),
        nonce: confidential::Nonce::Null, script_pubkey: Script::from(vec![0x51]), witness: TxOutWitness::default() };
    let mk = |n: u8| TxIn { previous_output: OutPoint::new(Txid::from_byte_array([n; 32]), 0), ..TxIn::default() };
    let tx = Transaction { version: 2, lock_time: LockTime::ZERO, input: vec![mk(1), mk(2)], output: vec![out.clone()] };
    let spent = vec![out.clone(), out.clone()];
    let genesis = BlockHash::from_byte_array([0u8; 32]);
    for ty in [SchnorrSighashType::AllPlusAnyoneCanPay, SchnorrSighashType::NonePlusAnyoneCanPay, SchnorrSighashType::SinglePlusAnyoneCanPay] {
        let all = SighashCache::new(&tx).taproot_key_spend_signature_hash(0, &Prevouts::All(&spent), ty, genesis).unwrap();
        let one = SighashCache::new(&tx).taproot_key_spend_signature_hash(0, &Prevouts::One(0, &spent[0]), ty, genesis)
            .unwrap_or_else(|e| panic!("{:?} with Prevouts::One: {:?}", ty, e));
        assert_eq!(all, one);
    }
    // a type that needs all prevouts still reports an error for One
    assert!(SighashCache::new(&tx).taproot_key_spend_signature_hash(0, &Prevouts::One(0, &spent[0]), SchnorrSighashType::All, genesis).is_err());
}

use elements::pset::serialize::{Serialize, Deserialize};
use elements::pset::TapTree;
use elements::taproot::TaprootBuilder;
use elements::Script;

#[test]
fn f14_taptree_reencoding_is_a_fixpoint() {
    let s = |b: u8| Script::from(vec![0x51, b]);
    // leaves at depths 1, 2, 2 in DFS order
    let b = TaprootBuilder::new().add_leaf(1, s(1)).unwrap().add_leaf(2, s(2)).unwrap().add_leaf(2, s(3)).unwrap();
    let tree = TapTree::from_inner(b).ok().unwrap();
    let x = tree.serialize();
    let y = TapTree::deserialize(&x).unwrap().serialize();
    let z = TapTree::deserialize(&y).unwrap().serialize();
    assert_eq!(y, z, "enc(dec(y)) must equal y for y = enc(dec(x))");
    assert_eq!(x, y, "a tree built in DFS order serializes in DFS order");
}

use elements::pset::PartiallySignedTransaction as Pset;
use elements::pset::{Input, Output};
use elements::{confidential, AssetId, Script, Transaction, TxOut, TxIn, LockTime, Sequence, OutPoint, Txid, TxOutWitness, AssetIssuance};
use elements::locktime::{Height, Time};
use elements::secp256k1_zkp::{Secp256k1, SecretKey, PublicKey};

fn base() -> Pset {
    let mut p = Pset::new_v2();
    p.add_input(Input::from_prevout(OutPoint::new(Txid::from_byte_array([0u8; 32]), 1)));
    let asset = AssetId::from_byte_array([7u8; 32]);
    p.add_output(Output::new_explicit(Script::from(vec![0x51]), 10, asset, None));
    p
}

#[test]
fn f8_height_preferred_when_both_possible() {
    let mut p = base();
    p.inputs_mut()[0].required_height_locktime = Some(Height::from_consensus(100).unwrap());
    p.inputs_mut()[0].required_time_locktime = Some(Time::from_consensus(1_600_000_000).unwrap());
    assert_eq!(p.locktime().unwrap(), LockTime::from_consensus(100), "BIP370: height preferred when both kinds are possible");
}

#[test]
fn f12_unique_id_ignores_final_script_sig() {
    let p = base();
    let mut q = base();
    q.inputs_mut()[0].final_script_sig = Some(Script::from(vec![0x51, 0x52]));
    assert_eq!(p.unique_id().unwrap(), q.unique_id().unwrap(), "final_script_sig changed the unique id");
}

#[test]
fn f17_coinbase_input_round_trip() {
    let txin = TxIn { previous_output: OutPoint::new(Txid::from_byte_array([0u8; 32]), 0xffff_ffff), ..TxIn::default() };
    let asset = AssetId::from_byte_array([7u8; 32]);
    let out = TxOut { asset: confidential::Asset::Explicit(asset), value: confidential::Value::Explicit(5),
        nonce: confidential::Nonce::Null, script_pubkey: Script::from(vec![0x51]), witness: TxOutWitness::default() };
    let tx = Transaction { version: 2, lock_time: LockTime::ZERO, input: vec![txin], output: vec![out] };
    let back = Pset::from_tx(tx.clone()).extract_tx().unwrap();
    assert_eq!(back.input[0].is_pegin, tx.input[0].is_pegin, "coinbase input became a pegin");
    assert_eq!(back, tx);
}

#[test]
fn f15_explicit_output_with_nonce_round_trip() {
    let secp = Secp256k1::new();
    let pk = PublicKey::from_secret_key(&secp, &SecretKey::from_slice(&[3u8; 32]).unwrap());
    let asset = AssetId::from_byte_array([7u8; 32]);
    let out = TxOut { asset: confidential::Asset::Explicit(asset), value: confidential::Value::Explicit(5),
        nonce: confidential::Nonce::Confidential(pk), script_pubkey: Script::from(vec![0x51]), witness: TxOutWitness::default() };
    let txin = TxIn { previous_output: OutPoint::new(Txid::from_byte_array([1u8; 32]), 0), ..TxIn::default() };
    let tx = Transaction { version: 2, lock_time: LockTime::ZERO, input: vec![txin], output: vec![out] };
    let back = Pset::from_tx(tx.clone()).extract_tx().unwrap();
    assert_eq!(back.output[0].nonce, tx.output[0].nonce, "nonce of an explicit output lost");
}

#[test]
fn f7_issuance_ids_agree() {
    let mut txin = TxIn { previous_output: OutPoint::new(Txid::from_byte_array([1u8; 32]), 3), ..TxIn::default() };
    txin.asset_issuance = AssetIssuance { amount: confidential::Value::Explicit(1000), ..AssetIssuance::default() };
    assert!(txin.has_issuance());
    let ids = txin.issuance_ids();
    let pin = Input::from_txin(txin);
    assert_eq!(pin.issuance_ids(), ids, "pset input derives different asset ids than the tx input");
}

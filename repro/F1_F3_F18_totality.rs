use elements::{confidential, AssetId, Script, Transaction, TxOut, TxIn, LockTime, OutPoint, Txid, TxOutWitness, TxOutSecrets};
use elements::secp256k1_zkp::Secp256k1;

#[test]
fn f1_new_bech32_empty_data() {
    let r = std::panic::catch_unwind(|| elements::blech32::decode::SegwitHrpstring::new_bech32("a1").is_err());
    assert_eq!(r.ok(), Some(true), "new_bech32(\"a1\") must be an error, not a panic");
}

#[test]
fn f3_blind_with_nothing_marked() {
    let secp = Secp256k1::new();
    let asset = AssetId::from_byte_array([7u8; 32]);
    let out = TxOut { asset: confidential::Asset::Explicit(asset), value: confidential::Value::Explicit(5),
        nonce: confidential::Nonce::Null, script_pubkey: Script::from(vec![0x51]), witness: TxOutWitness::default() };
    let txin = TxIn { previous_output: OutPoint::new(Txid::from_byte_array([1u8; 32]), 0), ..TxIn::default() };
    let tx = Transaction { version: 2, lock_time: LockTime::ZERO, input: vec![txin], output: vec![out] };
    let secrets = TxOutSecrets::new(asset, confidential::AssetBlindingFactor::zero(), 5, confidential::ValueBlindingFactor::zero());
    let r = std::panic::catch_unwind(move || {
        let mut tx = tx;
        let mut rng = elements::secp256k1_zkp::rand::thread_rng();
        tx.blind(&mut rng, &secp, &[secrets], false).is_err()
    });
    assert_eq!(r.ok(), Some(true), "blind() with no output marked must be an error, not a panic");
}

#[cfg(feature = "serde")]
#[test]
fn f18_finalize_hollow_builder() {
    use elements::taproot::TaprootBuilder;
    let b: TaprootBuilder = serde_json::from_str(r#"{"branch":[null]}"#).unwrap();
    let secp = Secp256k1::new();
    let key = elements::bitcoin::XOnlyPublicKey::from_slice(&[
        0x79,0xbe,0x66,0x7e,0xf9,0xdc,0xbb,0xac,0x55,0xa0,0x62,0x95,0xce,0x87,0x0b,0x07,0x02,0x9b,0xfc,0xdb,0x2d,0xce,0x28,0xd9,0x59,0xf2,0x81,0x5b,0x16,0xf8,0x17,0x98]).unwrap();
    let r = std::panic::catch_unwind(move || b.finalize(&secp, key).is_err());
    assert_eq!(r.ok(), Some(true), "finalize on [None] must be an error, not a panic");
}

"""Fact extraction: runs the elfacts rustc driver over /repo's current working tree
and loads the resulting JSON. Facts are cached under a key that hashes every input
of the extraction (sources, manifests, driver binary), so a run after any edit to
/repo re-extracts and twenty per-property commands in a row extract once."""
import fcntl
import hashlib
import json
import os
import subprocess
import sys
import time

VERIF = os.path.dirname(os.path.dirname(os.path.abspath(__file__)))
REPO = os.environ.get("VERIF_REPO", "/repo")
CACHE = os.path.join(VERIF, ".cache")
DRIVER = os.path.join(VERIF, "driver", "target", "release", "elfacts")

CONFIGS = {
    # name -> cargo feature arguments
    "full": ["--features", "serde,base64"],
    "nodefault": ["--no-default-features"],
    "default": [],
}


class CannotDecide(Exception):
    """The checker cannot decide (fail closed, exit code 2)."""


def _sysroot():
    return subprocess.check_output(["rustc", "+nightly", "--print", "sysroot"], text=True).strip()


def _tree_hash(cfg):
    h = hashlib.sha256()
    h.update(cfg.encode())
    paths = []
    for root, dirs, files in os.walk(os.path.join(REPO, "src")):
        dirs.sort()
        for f in sorted(files):
            paths.append(os.path.join(root, f))
    for f in ("Cargo.toml", "Cargo.lock", "build.rs"):
        p = os.path.join(REPO, f)
        if os.path.exists(p):
            paths.append(p)
    paths.append(DRIVER)
    for p in paths:
        h.update(p.encode())
        with open(p, "rb") as fh:
            h.update(hashlib.sha256(fh.read()).digest())
    return h.hexdigest()[:24]


def build_driver():
    env = dict(os.environ, CARGO_NET_OFFLINE="true")
    r = subprocess.run(["cargo", "build", "--release", "--offline"], cwd=os.path.join(VERIF, "driver"),
                       env=env, stdout=subprocess.PIPE, stderr=subprocess.STDOUT, text=True)
    if r.returncode != 0 or not os.path.exists(DRIVER):
        raise CannotDecide("driver build failed:\n" + r.stdout[-3000:])


def extract(cfg="full", verbose=False):
    """Returns the path of a facts file for /repo's current tree under config cfg."""
    os.makedirs(CACHE, exist_ok=True)
    if not os.path.exists(DRIVER):
        build_driver()
    lock = open(os.path.join(CACHE, "lock-" + cfg), "w")
    fcntl.flock(lock, fcntl.LOCK_EX)
    try:
        key = _tree_hash(cfg)
        out = os.path.join(CACHE, "facts-%s-%s.json" % (cfg, key))
        if os.path.exists(out):
            return out
        # drop older facts of this config
        for f in os.listdir(CACHE):
            if f.startswith("facts-%s-" % cfg):
                os.unlink(os.path.join(CACHE, f))
        target = os.path.join(CACHE, "target-" + cfg)
        fp = os.path.join(target, "debug", ".fingerprint")
        if os.path.isdir(fp):
            for d in os.listdir(fp):
                if d.startswith("elements-"):
                    subprocess.run(["rm", "-rf", os.path.join(fp, d)])
        run_id = "%s-%d" % (key, os.getpid())
        tmp = out + ".tmp"
        if os.path.exists(tmp):
            os.unlink(tmp)
        env = dict(os.environ)
        env.update({
            "LD_LIBRARY_PATH": _sysroot() + "/lib",
            "RUSTFLAGS": "-Zmir-opt-level=0 -Awarnings",
            "RUSTC_WORKSPACE_WRAPPER": DRIVER,
            "CARGO_TARGET_DIR": target,
            "CARGO_NET_OFFLINE": "true",
            "ELFACTS_OUT": tmp,
            "ELFACTS_RUN_ID": run_id,
            "ELFACTS_CRATE": "elements",
        })
        env.pop("RUSTC_WRAPPER", None)
        cmd = ["cargo", "+nightly", "check", "--offline", "--lib", "-p", "elements"] + CONFIGS[cfg]
        t0 = time.time()
        r = subprocess.run(cmd, cwd=REPO, env=env, stdout=subprocess.PIPE, stderr=subprocess.STDOUT, text=True)
        if verbose:
            sys.stderr.write("[facts] %s extracted in %.1fs\n" % (cfg, time.time() - t0))
        if r.returncode != 0:
            raise CannotDecide("cargo check of /repo failed (config %s):\n%s" % (cfg, r.stdout[-4000:]))
        if not os.path.exists(tmp):
            raise CannotDecide("driver produced no facts file (stale cargo cache?)\n" + r.stdout[-2000:])
        with open(tmp) as fh:
            head = fh.read(4096)
        if run_id not in head:
            raise CannotDecide("facts file does not carry this run's id")
        os.rename(tmp, out)
        return out
    finally:
        fcntl.flock(lock, fcntl.LOCK_UN)
        lock.close()


def load(cfg="full", verbose=False):
    path = extract(cfg, verbose)
    with open(path) as fh:
        return json.load(fh)

"""Shared higher-level analyses built on mir.py."""
import re

from .mir import Prov, Guards, callee_name, callee_matches, show, walk_term, field_accesses, discr_variants, op_place, is_new_helper, subst_args


def rpo_index(body):
    return {b: i for i, b in enumerate(body.rpo())}


def events(body, pred, prov=None, guards=None, _depth=0, inline=None):
    """Calls matching pred, in reverse post-order, with receiver/argument provenance and
    the switch edges that dominate them."""
    prov = prov or Prov(body)
    guards = guards or Guards(body)
    idx = rpo_index(body)
    out = []
    prog = getattr(body.fn, "prog", None)
    for bi, t in body.calls(lambda t: True):
        if bi not in idx:
            continue
        name = callee_name(t)
        forced = inline is not None and prog is not None and _depth < 3 and name in prog.fns and re.search(inline, name) is not None
        if forced and pred(t):
            out.append({"bb": bi, "t": t, "name": name, "self_ty": t.get("self_ty"), "args": [prov.operand(a) for a in t["args"]],
                        "conds": guards.conds(bi), "order": idx[bi]})
        if forced or (prog is not None and _depth < 3 and is_new_helper(prog, name)):
            # a helper that did not exist when the rules were written: its events happen here, in its order, with the
            # caller's arguments substituted and under the caller's guards plus its own
            cb = prog.fns[name].body
            amap = {i + 1: prov.operand(a) for i, a in enumerate(t["args"])}
            for k, e in enumerate(events(cb, pred, _depth=_depth + 1, inline=inline)):
                e2 = dict(e)
                e2["args"] = [subst_args(a, amap) for a in e["args"]]
                e2["conds"] = list(guards.conds(bi)) + [((sb if isinstance(sb, tuple) else (cb, sb)), subst_args(d, amap), vals, excl) for (sb, d, vals, excl) in e["conds"]]
                e2["bb"] = bi
                e2["order"] = idx[bi] + (k + 1) / 1000.0
                e2["inlined_from"] = name
                e2["callee_body"] = e.get("callee_body", cb)
                out.append(e2)
            continue
        if not pred(t):
            continue
        out.append({
            "bb": bi,
            "t": t,
            "name": name,
            "self_ty": t.get("self_ty"),
            "args": [prov.operand(a) for a in t["args"]],
            "conds": guards.conds(bi),
            "order": idx[bi],
        })
    out.sort(key=lambda e: e["order"])
    return out


def is_encode_call(t):
    return callee_matches(t, r"encode::Encodable>::consensus_encode$", r"^encode::Encodable::consensus_encode$")


def is_decode_call(t):
    return callee_matches(t, r"encode::Decodable>::consensus_decode$", r"^encode::Decodable::consensus_decode$")


def _home(body, sb):
    """conditions of events inlined from a helper carry (helper body, block) instead of a block of the caller"""
    return sb if isinstance(sb, tuple) else (body, sb)


def is_try_switch(body, sb):
    """the switch at sb tests the result of `?` (Try::branch)"""
    body, sb = _home(body, sb)
    pl = op_place(body.term(sb)["d"])
    if pl is None:
        return False
    for (bi, si, kind, p) in body.defs().get(pl["l"], []):
        if kind == "assign" and p["rv"]["k"] == "discr":
            src = p["rv"]["pl"]["l"]
            for (bj, sj, k2, p2) in body.defs().get(src, []):
                if k2 == "call" and re.search(r"Try>::branch$|Try::branch$", callee_name(p2)):
                    return True
    return False


def cond_desc(body, conds, keep_try=False):
    """human/semantic description of dominating switch edges: list of (discr_show, label)"""
    out = []
    for (sb, d, vals, excl) in conds:
        if not keep_try and is_try_switch(body, sb):
            continue
        hb, hs = _home(body, sb)
        dv = discr_variants(hb, hs)
        if dv:
            names, _ = dv
            if vals is not None:
                lab = "|".join(names.get(v, str(v)) for v in vals)
            else:
                rest = [n for v, n in names.items() if v not in (excl or [])]
                lab = "|".join(rest) if rest else "otherwise"
        else:
            dty = hb.term(hs).get("dty")
            if dty == "bool":
                if vals is not None:
                    lab = "false" if vals == [0] else "true" if vals == [1] else str(vals)
                else:
                    lab = "true" if excl == [0] else "false" if excl == [1] else "not%s" % excl
            else:
                lab = ("=" + ",".join(map(str, vals))) if vals is not None else ("not in " + ",".join(map(str, excl or [])))
        if d and d[0] == "un" and d[1] == "Not" and lab in ("true", "false"):
            d = d[2]
            lab = "false" if lab == "true" else "true"
        out.append((show(d), lab))
    return out


def leads_only_to_error(body, start):
    """every way of finishing the function from block `start` returns an Err (or a propagated residual)"""
    reach = {b for b in body.reach_from(start) if not body.blocks[b]["cleanup"]}
    kinds = set()
    for (bi, si, kind, pay) in body.defs().get(0, []):
        if bi not in reach:
            continue
        if kind == "assign":
            rv = pay["rv"]
            if rv["k"] == "agg" and rv.get("variant") == "Err":
                kinds.add("err")
            else:
                kinds.add("other")
        else:
            kinds.add("err" if re.search(r"FromResidual.*::from_residual$", callee_name(pay)) else "other")
    return kinds == {"err"}


def drop_error_guards(body, conds):
    """remove guards whose untaken side can only end in an error return (bounds/validity checks written as
    `if bad { return Err(..) }` — they gate nothing but the error, like the `?` after `.ok_or(..)`)"""
    out = []
    for (sb, d, vals, excl) in conds:
        body_, sb_ = _home(body, sb)
        t = body_.term(sb_)
        taken = set()
        tm = {int(v): tgt for v, tgt in t["ts"]}
        if vals is not None:
            taken = {tm.get(v, t["o"]) for v in vals}
        else:
            taken = {t["o"]}
        others = [x for x in set(list(tm.values()) + [t["o"]]) if x not in taken and body_.blocks[x]["t"]["k"] != "unreachable"]
        if others and all(leads_only_to_error(body_, x) for x in others):
            continue
        out.append((sb, d, vals, excl))
    return out


def straight_to_switch(body, bb, limit=12):
    """follow the single-successor chain from block bb to the next switch block"""
    cur = bb
    for _ in range(limit):
        t = body.term(cur)
        if t["k"] == "switch":
            return cur
        ss = body.succ(cur)
        if len(ss) != 1:
            return None
        cur = ss[0]
    return None


def try_edges_after(body, call_bb):
    """for a call whose Result is consumed by `?` (possibly through map_err/ok_or):
    returns (continue_bb, break_bb) of the Try switch, or None"""
    sb = straight_to_switch(body, body.succ(call_bb)[0]) if body.succ(call_bb) else None
    if sb is None or not is_try_switch(body, sb):
        return None
    dv = discr_variants(body, sb)
    if not dv:
        return None
    names, _ = dv
    t = body.term(sb)
    cont = brk = None
    tm = {int(v): b for v, b in t["ts"]}
    for v, n in names.items():
        tgt = tm.get(v, t["o"])
        if n == "Continue":
            cont = tgt
        elif n == "Break":
            brk = tgt
    return cont, brk


def bool_edges_after(body, call_bb):
    """for a call returning bool tested right away: returns (true_bb, false_bb) or None"""
    if not body.succ(call_bb):
        return None
    sb = straight_to_switch(body, body.succ(call_bb)[0])
    if sb is None:
        return None
    t = body.term(sb)
    if t.get("dty") != "bool":
        return None
    d = Prov(body).operand(t["d"])
    neg = False
    while d and d[0] == "un" and d[1] == "Not":
        d = d[2]
        neg = not neg
    call_t = Prov(body)._call(body.term(call_bb), True)
    if d != call_t:
        return None
    tm = {int(v): b for v, b in t["ts"]}
    false_bb = tm.get(0, t["o"])
    true_bb = tm.get(1, t["o"]) if 1 in tm else t["o"]
    if neg:
        true_bb, false_bb = false_bb, true_bb
    return true_bb, false_bb


def err_returns(body, prov=None, guards=None):
    """[(bb, show(error value), conds)] for `_0 = Err(x)` aggregate assignments"""
    prov = prov or Prov(body)
    guards = guards or Guards(body)
    out = []
    for (bi, kind, rv) in ret_assignments(body):
        if kind == "err" and rv.get("k") == "agg":
            out.append((bi, show(prov.operand(rv["ops"][0])), cond_desc(body, guards.conds(bi))))
    return out


def loop_header_of(body, ev_bb):
    """innermost loop header (target of a back edge) that dominates block ev_bb and from which ev_bb is in the loop"""
    best = None
    for (src, hdr) in body.back_edges():
        if body.dominates(hdr, ev_bb) and ev_bb in body.reach_from(hdr) and src in body.reach_from(ev_bb):
            if best is None or body.dominates(best, hdr):
                best = hdr
    return best


def unconditional(body, bb):
    """block lies on every path from entry to a normal return"""
    rets = [i for i in body.reachable() if body.term(i)["k"] == "return"]
    if not rets:
        return False
    return all(body.postdominates(bb, 0) for _ in [0]) if rets else False


def ret_assignments(body):
    """[(bb, kind, payload)] for assignments to the return place: kind in ok/err/some/none/call/other"""
    out = []
    for (bi, si, kind, p) in body.defs().get(0, []):
        if body.blocks[bi]["cleanup"] or bi not in body.reachable():
            continue
        if kind == "assign":
            if p["pl"]["p"]:
                continue
            rv = p["rv"]
            if rv["k"] == "agg" and rv["ak"] == "adt":
                v = rv["variant"]
                out.append((bi, {"Ok": "ok", "Err": "err", "Some": "some", "None": "none"}.get(v, "agg:" + v), rv))
            else:
                out.append((bi, "other", rv))
        elif kind == "call":
            if p["dest"]["p"]:
                continue
            n = callee_name(p)
            if re.search(r"FromResidual<.*>>::from_residual$|FromResidual::from_residual$", n):
                out.append((bi, "err", p))
            else:
                out.append((bi, "call", p))
    return out


def fields_read_transitively(prog, root_path, owners=None, follow=None):
    """(owner, field) read in any body reachable from root on the instance graph"""
    keys = prog.inst_reach(root_path, follow)
    defs = prog.inst_defs(keys)
    reads = set()
    for d in defs:
        f = prog.fns.get(d)
        if f is None:
            continue
        r, w, m = field_accesses(f.body)
        reads |= r
    if owners is not None:
        reads = {(o, f) for (o, f) in reads if o in owners}
    return reads, defs


def term_has(t, pred):
    return any(pred(x) for x in walk_term(t))


def effects(body, prov=None):
    """Write effects with targets resolved through references:
    [{kind: assign|calldest|mutarg, target: term, value: term|None, callee: name|None, bb}]
    A target is only reported when it is not a plain local (i.e. it reaches memory the
    caller can see: fields/derefs of arguments or of other objects)."""
    prov = prov or Prov(body)
    out = []
    for bi in sorted(body.reachable()):
        blk = body.blocks[bi]
        if blk["cleanup"]:
            continue
        for s in blk["s"]:
            if s["k"] != "assign":
                continue
            pl = s["pl"]
            if not pl["p"]:
                continue
            tgt = prov.lplace(pl)
            out.append({"kind": "assign", "target": tgt, "value": prov._rvalue(s["rv"], True), "callee": None, "bb": bi, "sp": s.get("sp")})
        t = blk["t"]
        if t["k"] == "call":
            if t.get("dest") and t["dest"]["p"]:
                out.append({"kind": "calldest", "target": prov.lplace(t["dest"]), "value": prov._call(t, True),
                            "callee": callee_name(t), "bb": bi, "sp": t.get("sp")})
            for a in t["args"]:
                pl = op_place(a)
                if pl is None:
                    continue
                ty = body.local_ty(pl["l"]) if not pl["p"] else ""
                if ty.startswith("&mut "):
                    out.append({"kind": "mutarg", "target": prov.operand(a), "value": None, "callee": callee_name(t),
                                "args": [prov.operand(x) for x in t["args"]], "bb": bi, "sp": t.get("sp")})
    return out


def target_field(t):
    """(owner-without-variant, owner, field) of the outermost field of a target term"""
    if t and t[0] == "fld":
        owner = t[2]
        return owner, t[3]
    return None


def predicate_walk(body, start, valuation, classify, max_steps=4000):
    """Predicate-abstraction walk of the decision DAG from block `start`.
    valuation(kind, bb, term) -> True/False/None for a bool switch ('switch'), or for an
    assert ('assert': True = passes); None = unknown (both successors explored).
    classify(bb, path_blocks) -> outcome label or None to continue.
    Returns the set of outcome labels over all explored paths."""
    prov = Prov(body)
    outcomes = set()
    stack = [(start, (start,))]
    steps = 0
    seen = set()
    while stack:
        bb, path = stack.pop()
        steps += 1
        if steps > max_steps:
            outcomes.add("<budget>")
            break
        lab = classify(bb, path)
        if lab is not None:
            outcomes.add(lab)
            continue
        t = body.term(bb)
        k = t["k"]
        nxt = []
        if k == "switch":
            d = prov.operand(t["d"])
            v = valuation("switch", bb, d) if t.get("dty") == "bool" else valuation("switchval", bb, d)
            tm = {int(x): y for x, y in t["ts"]}
            if t.get("dty") == "bool" and v is not None:
                if v:
                    nxt = [tm.get(1, t["o"]) if 1 in tm else t["o"]]
                else:
                    nxt = [tm.get(0, t["o"])]
            elif t.get("dty") != "bool" and v is not None:
                nxt = [tm.get(v, t["o"])]
            else:
                nxt = body.succ(bb)
        elif k == "assert":
            v = valuation("assert", bb, t)
            if v is False:
                outcomes.add("panic")
                continue
            nxt = body.succ(bb)
        elif k == "return":
            outcomes.add("return")
            continue
        elif k in ("unreachable",):
            continue
        else:
            nxt = body.succ(bb)
            if not nxt:
                outcomes.add("diverge:" + callee_name(t) if k == "call" else "end")
                continue
        for n in nxt:
            key = (n, path[-1] if path else None)
            if n in path and (n, bb) in seen:
                continue
            seen.add((n, bb))
            stack.append((n, path + (n,)))
    return outcomes


def const_eval(t):
    """integer value of a constant expression term (literals combined by arithmetic), else None"""
    if not isinstance(t, tuple) or not t:
        return None
    k = t[0]
    if k == "const":
        return t[2]
    if k == "cast":
        return const_eval(t[1])
    if k == "fld" and t[3] == "0" and t[1][0] == "bin" and t[1][1].endswith("WithOverflow"):
        return const_eval(("bin", t[1][1].replace("WithOverflow", ""), t[1][2], t[1][3]))
    if k == "bin":
        a, b = const_eval(t[2]), const_eval(t[3])
        if a is None or b is None:
            return None
        op = t[1].replace("WithOverflow", "")
        try:
            return {"Add": a + b, "Sub": a - b, "Mul": a * b, "Shl": a << b, "Shr": a >> b, "BitOr": a | b, "BitAnd": a & b,
                    "BitXor": a ^ b, "Div": a // b if b else None, "Rem": a % b if b else None}.get(op)
        except Exception:
            return None
    if k == "un" and t[1] == "Not":
        return None
    return None


def bool_fn_table(body, max_atoms=8):
    """Exact truth table of a small boolean function (&&/||/! over calls on its arguments):
    returns (atoms, {valuation tuple: result}) where atoms are the shown call terms whose result the
    function branches on or returns; result is True/False or None when it cannot be evaluated."""
    prov = Prov(body)
    atoms = []

    def note(t):
        if t[0] == "call" and not re.search(r"ops::Not>::not$", t[1]):
            s = show(t, -9)
            if s not in atoms:
                atoms.append(s)
        elif t[0] == "un" and t[1] == "Not":
            note(t[2])
        elif t[0] == "call":
            for a in t[2]:
                note(a)
        elif t[0] == "bin" and t[1] in ("Eq", "Ne", "Lt", "Le", "Gt", "Ge"):
            s = show(t, -9)
            if s not in atoms:
                atoms.append(s)
        elif t[0] == "bin":
            note(t[2])
            note(t[3])
        elif t[0] in ("fld", "arg", "discr"):
            s = show(t, -9)
            if s not in atoms:
                atoms.append(s)

    sw_terms = {}
    for bi in sorted(body.reachable()):
        t = body.term(bi)
        if t["k"] == "switch" and t.get("dty") != "bool":
            # multi-way switch on an integer: one atom "<term> == v" per listed value
            d = prov.operand(t["d"])
            for v, _ in t["ts"]:
                s = "%s == %s" % (show(d, -9), v)
                if s not in atoms:
                    atoms.append(s)
                sw_terms.setdefault(show(d, -9), []).append(int(v))
            continue
        if t["k"] == "switch":
            note(prov.operand(t["d"]))
        if t["k"] == "call" and t.get("dest") and not t["dest"]["p"] and (t["dest"]["l"] == 0 or body.local_ty(t["dest"]["l"]) == "bool"):
            note(prov._call(t, True))
        for s in body.stmts(bi):
            if s["k"] == "assign" and s["pl"]["l"] == 0 and not s["pl"]["p"]:
                note(prov._rvalue(s["rv"], True))
    atoms = [a for a in atoms if a not in ("0", "1")]
    if len(atoms) > max_atoms:
        return atoms, None

    def ev(t, val):
        if t[0] == "const":
            return bool(t[2])
        if t[0] == "un" and t[1] == "Not":
            x = ev(t[2], val)
            return None if x is None else (not x)
        if t[0] == "call" and re.search(r"ops::Not>::not$", t[1]):
            x = ev(t[2][0], val)
            return None if x is None else (not x)
        if t[0] == "bin" and t[1] in ("Eq", "Ne", "Lt", "Le", "Gt", "Ge") and show(t, -9) in val:
            return val[show(t, -9)]
        if t[0] == "bin" and t[1] in ("BitAnd", "BitOr", "Eq", "Ne", "BitXor"):
            a, b = ev(t[2], val), ev(t[3], val)
            if a is None or b is None:
                return None
            return {"BitAnd": a and b, "BitOr": a or b, "Eq": a == b, "Ne": a != b, "BitXor": a != b}[t[1]]
        s = show(t, -9)
        return val.get(s)

    table = {}
    import itertools
    for bits in itertools.product([False, True], repeat=len(atoms)):
        val = dict(zip(atoms, bits))
        cur, res, steps = 0, None, 0
        env = {}     # boolean temporaries with a value on this path (join points of && / || are assigned on several paths)

        def raw(rv):
            def opv(o):
                if o["k"] in ("copy", "move") and not o["pl"]["p"] and o["pl"]["l"] in env:
                    return env[o["pl"]["l"]]
                return ev(prov.operand(o), val)
            if rv["k"] == "use":
                return opv(rv["a"])
            if rv["k"] == "un" and rv["op"] == "Not":
                x = opv(rv["a"])
                return None if x is None else (not x)
            if rv["k"] == "bin" and rv["op"] in ("BitAnd", "BitOr", "BitXor") :
                a, b = opv(rv["a"]), opv(rv["b"])
                if a is None or b is None:
                    return None
                return {"BitAnd": a and b, "BitOr": a or b, "BitXor": a != b}[rv["op"]]
            return ev(prov._rvalue(rv, True), val)

        while steps < 500:
            steps += 1
            for s in body.stmts(cur):
                if s["k"] == "assign" and not s["pl"]["p"]:
                    x = raw(s["rv"])
                    if s["pl"]["l"] == 0:
                        res = x
                    elif isinstance(x, bool):
                        env[s["pl"]["l"]] = x
                    else:
                        env.pop(s["pl"]["l"], None)
            t = body.term(cur)
            k = t["k"]
            if k == "return":
                break
            if k == "call":
                if t.get("dest") and not t["dest"]["p"] and t["dest"]["l"] != 0:
                    x = ev(prov._call(t, True), val)
                    if isinstance(x, bool):
                        env[t["dest"]["l"]] = x
                    else:
                        env.pop(t["dest"]["l"], None)
                if t.get("dest") and t["dest"]["l"] == 0 and not t["dest"]["p"]:
                    res = ev(prov._call(t, True), val)
                if t.get("t") is None:
                    res = None
                    break
                cur = t["t"]
            elif k == "switch" and t.get("dty") != "bool":
                ds = show(prov.operand(t["d"]), -9)
                hit = [int(v) for v, _ in t["ts"] if val.get("%s == %s" % (ds, v))]
                if len(hit) > 1:
                    res = "inconsistent"
                    break
                tm = {int(a): b for a, b in t["ts"]}
                cur = tm[hit[0]] if hit else t["o"]
            elif k == "switch":
                dop = t["d"]
                if dop["k"] in ("copy", "move") and not dop["pl"]["p"] and dop["pl"]["l"] in env:
                    x = env[dop["pl"]["l"]]
                else:
                    x = ev(prov.operand(dop), val)
                if x is None:
                    res = None
                    break
                tm = {int(a): b for a, b in t["ts"]}
                cur = tm.get(1 if x else 0, t["o"])
            else:
                ss = body.succ(cur)
                if len(ss) != 1:
                    res = None
                    break
                cur = ss[0]
        table[bits] = res
    return atoms, table

"""Structured (while/if) listing of a reducible MIR body over its *state variables*.

State variables are the locals that are assigned on more than one path (loop counters,
accumulators, arrays written by index); every other local is a single-assignment temporary and
is expanded into the term that defines it. The listing is what the rules compare with a
specification: statements are

    ("set",  target-term, value-term)
    ("while", cond-term, sense, [body])        loop runs while cond == sense
    ("if",    cond-term, {label: [stmts]})
    ("ret",   value-term)

Terms use ("var", canonical-name) for state variables; canonical names are v0, v1 ... in order of
first assignment, so renaming a variable in the source does not change the listing.
Anything outside the recognised fragment raises Unstructured (callers fail closed)."""
import re

from .mir import Prov, callee_name, is_transparent


class Unstructured(Exception):
    pass


class StateProv(Prov):
    def __init__(self, body, state):
        super().__init__(body)
        self.state = state

    def _local(self, l, strip):
        if l in self.state:
            return ("var", self.state[l])
        return super()._local(l, strip)


def state_locals(body):
    """locals with more than one whole or indexed assignment outside cleanup (excluding unit temporaries)"""
    out = []
    for l, ds in sorted(body.defs().items()):
        if l == 0:
            continue
        live = [d for d in ds if not body.blocks[d[0]]["cleanup"] and d[0] in body.reachable()]
        if 1 <= l <= body.argc:
            whole = [d for d in live if not (d[3]["pl"] if d[2] == "assign" else d[3].get("dest") or {"p": [1]})["p"]]
            if whole:
                out.append(l)
            continue
        if len(live) < 2:
            continue
        ty = body.local_ty(l) if hasattr(body, "local_ty") else None
        if ty == "()":
            continue
        if ty == "bool" and not body.local_name(l):
            continue  # drop flag
        vals = []
        for (bi, si, kind, pay) in live:
            if kind == "assign" and pay["rv"]["k"] == "use" and pay["rv"]["a"].get("ty") == "()":
                vals.append("unit")
        if len(vals) == len(live):
            continue
        out.append(l)
    return out


def listing(body, extra_state=()):
    reach = body.reachable()
    first_def = {}
    idx = {b: i for i, b in enumerate(body.rpo())}
    sl = list(state_locals(body)) + [l for l in extra_state]
    # A *named* single-assignment local whose defining expression reads a state variable captures that variable's value
    # at its definition point; expanding it at a later use (after the state variable changed) would be unsound, so such
    # locals become state variables themselves (shown as an assignment where they are defined). Compiler temporaries are
    # consumed within the statement that creates them and stay expanded.
    def _mentions(obj, l):
        if isinstance(obj, dict):
            if obj.get("l") == l and "p" in obj:
                return True
            return any(_mentions(v, l) for v in obj.values())
        if isinstance(obj, list):
            return any(_mentions(v, l) for v in obj)
        return False

    def use_sites(l):
        out = set()
        for bi in reach:
            blk = body.blocks[bi]
            if blk["cleanup"]:
                continue
            for i, st in enumerate(blk["s"]):
                if st["k"] == "assign" and (_mentions(st["rv"], l) or (st["pl"]["l"] == l and st["pl"]["p"]) or _mentions(st["pl"]["p"], l)):
                    out.add((bi, i))
            t = blk["t"]
            if _mentions({k: v for k, v in t.items() if k != "dest"}, l):
                out.add((bi, len(blk["s"])))
        return out

    def def_sites(l):
        out = set()
        for (bi, si, kind, pay) in body.defs().get(l, []):
            if bi in reach and not body.blocks[bi]["cleanup"]:
                out.add((bi, si if kind == "assign" else len(body.blocks[bi]["s"])))
        return out

    def after_blocks(bi, avoid):
        out = set()
        for x in body.succ(bi):
            if x not in avoid:
                out |= body.reach_from(x, avoid=avoid)
        return out

    changed = True
    while changed:
        changed = False
        names0 = {l: "s%d" % l for l in sl}
        probe = StateProv(body, names0)
        inv = {v: k for k, v in names0.items()}
        for l, ds in body.defs().items():
            if l in sl or l == 0 or not body.local_name(l) or 1 <= l <= body.argc:
                continue
            live = [d for d in ds if d[0] in reach and not body.blocks[d[0]]["cleanup"]]
            if len(live) != 1:
                continue
            (bd, si, kind, pay) = live[0]
            if (pay["pl"] if kind == "assign" else pay.get("dest") or {"p": [1]})["p"]:
                continue
            sd = si if kind == "assign" else len(body.blocks[bd]["s"])
            try:
                t = probe._rvalue(pay["rv"], True) if kind == "assign" else probe._call(pay, True)
            except Exception:
                continue
            from .mir import walk_term
            read = {inv[x[1]] for x in walk_term(t) if isinstance(x, tuple) and x and x[0] == "var" and x[1] in inv}
            if not read:
                continue
            # Expanding l at a use is unsound only if a state variable it reads can be reassigned after l's definition and
            # before that use, on a path that does not re-execute the definition (statement granularity within a block:
            # a statement reads its operands before it writes its target).
            stale = False
            us = use_sites(l)
            from_def = body.reach_from(bd)
            for sv in read:
                for (db, di) in def_sites(sv):
                    if db not in from_def or (db == bd and di <= sd and bd not in after_blocks(bd, ())):
                        continue
                    later = after_blocks(db, (bd,))
                    for (ub, ui) in us:
                        if (ub == db and ui > di and not (db == bd and di <= sd)) or (ub != db and ub in later) or (ub == db and ui <= di and db in later):
                            stale = True
            if stale:
                sl.append(l)
                changed = True
    for l in sl:
        bs = [d[0] for d in body.defs().get(l, []) if d[0] in idx and not body.blocks[d[0]]["cleanup"]]
        first_def[l] = min((idx[b] for b in bs), default=10 ** 6)
    order = sorted(set(sl), key=lambda l: (first_def[l], l))
    state = {l: "v%d" % i for i, l in enumerate(order)}
    names = {state[l]: body.local_name(l) for l in order}
    p = StateProv(body, state)
    back = body.back_edges()
    headers = {}
    for s, h in back:
        headers.setdefault(h, []).append(s)

    def block_stmts(bi):
        out = []
        blk = body.blocks[bi]
        for s in blk["s"]:
            if s["k"] != "assign":
                continue
            pl = s["pl"]
            if pl["l"] in state and (not pl["p"] or all(isinstance(e, dict) and ("idx" in e or "cidx" in e) for e in pl["p"])):
                out.append(("set", p.lplace(pl), p._rvalue(s["rv"], True)))
            elif pl["l"] == 0 and not pl["p"]:
                out.append(("ret", p._rvalue(s["rv"], True)))
            elif pl["p"] and pl["p"][0] == "*" and (body.local_ty(pl["l"]).startswith("&mut ") or 1 <= pl["l"] <= body.argc):
                out.append(("store", p.lplace(pl), p._rvalue(s["rv"], True)))
        t = blk["t"]
        if t["k"] == "call":
            for a in t["args"]:
                pl = a.get("pl") if a["k"] in ("copy", "move") else None
                if pl is not None and not pl["p"] and body.local_ty(pl["l"]).startswith("&mut "):
                    if not is_transparent(callee_name(t)) and not re.search(r"Iterator>::next$|Iterator::next$", callee_name(t)):
                        out.append(("do", callee_name(t), tuple(p.operand(x) for x in t["args"])))
                    break
        if t["k"] == "call" and t.get("dest") is not None:
            d = t["dest"]
            if d["l"] in state and not d["p"]:
                out.append(("set", p.lplace(d), p._call(t, True)))
            elif d["l"] == 0 and not d["p"]:
                out.append(("ret", p._call(t, True)))
        return out

    def nsucc(bi):
        return [s for s in body.succ(bi) if s in reach and not body.blocks[s]["cleanup"] and body.blocks[s]["t"]["k"] != "unreachable"]

    def walk(bi, stop, loop_hdr, depth=0):
        """statements from bi up to (not including) stop"""
        if depth > 200:
            raise Unstructured("depth")
        out = []
        cur = bi
        pending_hdr = None
        first = True
        while cur is not None and cur != stop:
            if cur == loop_hdr and not first:
                return out        # back at the header of the enclosing loop: end of this iteration (`continue`)
            first = False
            if cur in headers and cur != loop_hdr:
                pending_hdr = cur
            out += block_stmts(cur)
            t = body.blocks[cur]["t"]
            k = t["k"]
            if k == "return":
                return out
            if k == "switch":
                succs = nsucc(cur)
                cond = p.operand(t["d"])
                if pending_hdr is not None:
                    h = pending_hdr
                    srcs = headers[h]
                    inside = [s for s in succs if any(src in body.reach_from(s, avoid=(h,)) or src == s for src in srcs)]
                    outside = [s for s in succs if s not in inside]
                    if len(inside) != 1 or len(outside) != 1:
                        raise Unstructured("loop at bb%d is not a while loop" % h)
                    sense = [v for v, tgt in t["ts"] if tgt == inside[0]]
                    sense = ("=" + sense[0]) if sense else "otherwise"
                    bodyl = walk(inside[0], h, h, depth + 1)
                    out.append(("while", cond, sense, bodyl))
                    pending_hdr = None
                    cur = outside[0]
                    continue
                join = body.ipdom().get(cur)
                arms = {}
                for v, tgt in t["ts"]:
                    if tgt in succs:
                        arms["=" + v] = walk(tgt, join, loop_hdr, depth + 1)
                if t["o"] in succs:
                    arms["otherwise"] = walk(t["o"], join, loop_hdr, depth + 1)
                if any(arms.values()):
                    out.append(("if", cond, arms))
                cur = join
                continue
            succs = nsucc(cur)
            if len(succs) != 1:
                if not succs:
                    return out
                raise Unstructured("bb%d has %d successors" % (cur, len(succs)))
            nxt = succs[0]
            if nxt == loop_hdr:
                return out
            cur = nxt
        return out

    return walk(0, None, None), names


def flat(stmts, ctx=()):
    """[(ctx, stmt)] in listing order; ctx = tuple of ("while"|"if", cond-term, sense-or-arm)"""
    out = []
    for s in stmts:
        if s[0] == "while":
            out.append((ctx, ("loop", s[1], s[2])))
            out += flat(s[3], ctx + (("while", s[1], s[2]),))
        elif s[0] == "if":
            for arm, body in s[2].items():
                out += flat(body, ctx + (("if", s[1], arm),))
        else:
            out.append((ctx, s))
    return out


def fmt(stmts, show, ind=0):
    """human-readable rendering (for reports)"""
    lines = []
    for s in stmts:
        pad = " " * ind
        if s[0] == "set":
            lines.append("%s%s := %s" % (pad, show(s[1]), show(s[2])))
        elif s[0] == "store":
            lines.append("%s*%s = %s" % (pad, show(s[1]), show(s[2])))
        elif s[0] == "ret":
            lines.append("%sreturn %s" % (pad, show(s[1])))
        elif s[0] == "do":
            lines.append("%s%s(%s)" % (pad, s[1], ", ".join(show(a) for a in s[2])))
        elif s[0] == "while":
            lines.append("%swhile %s [%s]" % (pad, show(s[1]), s[2]))
            lines += fmt(s[3], show, ind + 2)
        elif s[0] == "if":
            lines.append("%sif %s" % (pad, show(s[1])))
            for k, v in s[2].items():
                lines.append("%s [%s]" % (pad, k))
                lines += fmt(v, show, ind + 3)
    return lines

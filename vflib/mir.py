"""Program model over the elfacts JSON: functions, bodies, CFG, dominators,
provenance terms, guards, field read/write sets, instance call graph."""
import re
from collections import defaultdict

from .facts import CannotDecide

# ----------------------------------------------------------------------------- places / operands


def pl_local(pl):
    return pl["l"]


def pl_fields(pl):
    """[(owner, variant, field)] for every field projection of a place."""
    out = []
    for e in pl["p"]:
        if isinstance(e, dict) and "f" in e:
            out.append((e["o"], e["v"], e["f"]))
    return out


def op_place(op):
    return op.get("pl") if op["k"] in ("copy", "move") else None


def const_int(op):
    """integer value of a scalar constant operand or None"""
    if op["k"] == "const" and "v" in op:
        return int(op["v"])
    return None


# ----------------------------------------------------------------------------- body


class Body:
    def __init__(self, fn, mir, promoted_of=None):
        self.fn = fn
        self.mir = mir
        self.blocks = mir["blocks"]
        self.locals = mir["locals"]
        self.argc = mir["argc"]
        self.n = len(self.blocks)
        # locals assigned exactly once, with a scalar literal: `_x = const false; switchInt(move _x)`
        cnt, val = {}, {}
        for b in self.blocks:
            for st in b["s"]:
                if st["k"] == "assign" and not st["pl"]["p"]:
                    l = st["pl"]["l"]
                    cnt[l] = cnt.get(l, 0) + 1
                    rv = st["rv"]
                    if rv["k"] == "use" and rv["a"].get("k") == "const" and "v" in rv["a"] and "def" not in rv["a"]:
                        val[l] = int(rv["a"]["v"])
            t = b["t"]
            if t["k"] == "call" and t.get("dest") and not t["dest"]["p"]:
                cnt[t["dest"]["l"]] = cnt.get(t["dest"]["l"], 0) + 2
        self._const_locals = {l: v for l, v in val.items() if cnt.get(l) == 1 and l > mir["argc"]}
        self._succ = [self._succs(b) for b in self.blocks]
        self._pred = [[] for _ in range(self.n)]
        for i, ss in enumerate(self._succ):
            for s in ss:
                if i not in self._pred[s]:
                    self._pred[s].append(i)
        self._idom = None
        self._ipdom = None
        self._defs = None
        self._prov_memo = {}

    # --- cfg
    def _succs(self, b):
        t = b["t"]
        k = t["k"]
        if k == "goto":
            return [t["t"]]
        if k == "switch":
            d = t["d"]
            lit = None
            if d.get("k") == "const" and "v" in d:
                lit = int(d["v"])
            elif d.get("k") in ("copy", "move") and not d["pl"]["p"] and d["pl"]["l"] in self._const_locals:
                lit = self._const_locals[d["pl"]["l"]]
            if lit is not None:
                # switch on a literal: only the matching edge is feasible
                v = lit
                for val, bb in t["ts"]:
                    if int(val) == v:
                        return [bb]
                return [t["o"]]
            out = []
            for _, bb in t["ts"]:
                if bb not in out:
                    out.append(bb)
            if t["o"] not in out:
                out.append(t["o"])
            return out
        if k in ("call", "assert", "drop"):
            return [t["t"]] if t.get("t") is not None else []
        return []

    def succ(self, b):
        return self._succ[b]

    def pred(self, b):
        return self._pred[b]

    def term(self, b):
        return self.blocks[b]["t"]

    def stmts(self, b):
        return self.blocks[b]["s"]

    def reachable(self):
        seen = set()
        st = [0]
        while st:
            x = st.pop()
            if x in seen:
                continue
            seen.add(x)
            st.extend(self._succ[x])
        return seen

    def rpo(self):
        seen = set()
        order = []

        def dfs(root):
            stack = [(root, iter(self._succ[root]))]
            seen.add(root)
            while stack:
                node, it = stack[-1]
                adv = False
                for s in it:
                    if s not in seen:
                        seen.add(s)
                        stack.append((s, iter(self._succ[s])))
                        adv = True
                        break
                if not adv:
                    order.append(node)
                    stack.pop()

        dfs(0)
        order.reverse()
        return order

    # --- dominators (Cooper/Harvey/Kennedy)
    def _compute_dom(self, succ, pred, entry_nodes):
        # virtual root index = n
        n = self.n
        root = n
        succ2 = {root: list(entry_nodes)}
        pred2 = defaultdict(list)
        for e in entry_nodes:
            pred2[e].append(root)
        for i in range(n):
            succ2[i] = succ[i]
            for s in succ[i]:
                pred2[s].append(i)
        # rpo from root
        seen = {root}
        order = []
        stack = [(root, iter(succ2[root]))]
        while stack:
            node, it = stack[-1]
            adv = False
            for s in it:
                if s not in seen:
                    seen.add(s)
                    stack.append((s, iter(succ2[s])))
                    adv = True
                    break
            if not adv:
                order.append(node)
                stack.pop()
        order.reverse()
        num = {b: i for i, b in enumerate(order)}
        idom = {root: root}
        changed = True
        while changed:
            changed = False
            for b in order[1:]:
                new = None
                for p in pred2[b]:
                    if p in idom:
                        if new is None:
                            new = p
                        else:
                            a, c = p, new
                            while a != c:
                                while num[a] > num[c]:
                                    a = idom[a]
                                while num[c] > num[a]:
                                    c = idom[c]
                            new = a
                if new is not None and idom.get(b) != new:
                    idom[b] = new
                    changed = True
        return idom, root

    def idom(self):
        if self._idom is None:
            self._idom, self._root = self._compute_dom(self._succ, self._pred, [0])
        return self._idom

    def dominates(self, a, b):
        """block a dominates block b (reflexive)"""
        idom = self.idom()
        if b not in idom:
            return False
        x = b
        while True:
            if x == a:
                return True
            if x == self._root or idom[x] == x:
                return False
            x = idom[x]

    def exits(self):
        return [i for i in range(self.n) if not self._succ[i]]

    def ipdom(self):
        if self._ipdom is None:
            reach = self.reachable()
            ex = [i for i in reach if self.term(i)["k"] == "return"]
            succ = [[p for p in self._pred[i]] for i in range(self.n)]
            pred = [[s for s in self._succ[i]] for i in range(self.n)]
            self._ipdom, self._proot = self._compute_dom(succ, pred, ex)
        return self._ipdom

    def postdominates(self, a, b):
        ip = self.ipdom()
        if b not in ip:
            return False
        x = b
        while True:
            if x == a:
                return True
            if x == self._proot or ip[x] == x:
                return False
            x = ip[x]

    def reach_from(self, start, avoid=(), via_edges=None):
        """blocks reachable from start (inclusive) without entering blocks in avoid"""
        avoid = set(avoid)
        seen = set()
        st = [start] if start not in avoid else []
        while st:
            x = st.pop()
            if x in seen:
                continue
            seen.add(x)
            for s in self._succ[x]:
                if s not in avoid and s not in seen:
                    st.append(s)
        return seen

    def back_edges(self):
        be = []
        for b in self.reachable():
            for s in self._succ[b]:
                if self.dominates(s, b):
                    be.append((b, s))
        return be

    # --- definitions
    def defs(self):
        """local -> [(bb, idx, kind, payload)] ; idx == -1 for terminator (call dest)"""
        if self._defs is None:
            d = defaultdict(list)
            for bi, b in enumerate(self.blocks):
                for si, s in enumerate(b["s"]):
                    if s["k"] == "assign":
                        d[s["pl"]["l"]].append((bi, si, "assign", s))
                    elif s["k"] == "setdiscr":
                        d[s["pl"]["l"]].append((bi, si, "setdiscr", s))
                t = b["t"]
                if t["k"] == "call" and "dest" in t:
                    d[t["dest"]["l"]].append((bi, -1, "call", t))
            self._defs = d
        return self._defs

    # --- iteration helpers
    def calls(self, pred=None):
        """[(bb, term)] of call terminators in reachable, non-cleanup blocks"""
        out = []
        for bi in sorted(self.reachable()):
            b = self.blocks[bi]
            if b["cleanup"]:
                continue
            t = b["t"]
            if t["k"] == "call" and (pred is None or pred(t)):
                out.append((bi, t))
        return out

    def local_name(self, l):
        return self.locals[l]["name"]

    def local_ty(self, l):
        return self.locals[l]["ty"]

    def local_by_name(self, name):
        return [i for i, l in enumerate(self.locals) if l["name"] == name]


def callee_name(t):
    """best name of the function a call terminator invokes"""
    return t.get("resolved") or t.get("callee") or "<indirect>"


def callee_matches(t, *pats):
    names = [t.get("resolved") or "", t.get("callee") or "", t.get("callee_full") or "", t.get("resolved_full") or ""]
    for p in pats:
        for n in names:
            if re.search(p, n):
                return True
    return False


# ----------------------------------------------------------------------------- provenance

TRANSPARENT = [
    r"^<.* as std::ops::Try>::branch$", r"^std::ops::Try::branch$",
    r"^std::result::Result::<T, E>::unwrap$", r"^std::result::Result::<T, E>::expect$",
    r"^std::option::Option::<T>::unwrap$", r"^std::option::Option::<T>::expect$",
    r"^<.* as std::ops::Deref>::deref$", r"^<.* as std::ops::DerefMut>::deref_mut$",
    r"^std::ops::Deref::deref$", r"^std::ops::DerefMut::deref_mut$",
    r"^<.* as std::convert::AsRef<.*>>::as_ref$", r"^std::convert::AsRef::as_ref$",
    r"^<.* as std::borrow::Borrow<.*>>::borrow$", r"^std::borrow::Borrow::borrow$",
    r"::into_iter$",
    r"^<.* as std::clone::Clone>::clone$", r"^std::clone::Clone::clone$",
    r"^<.* as std::convert::Into<.*>>::into$", r"^<.* as std::convert::From<.*>>::from$",
    r"^std::convert::Into::into$", r"^std::convert::From::from$",
    r"^std::option::Option::<T>::as_ref$", r"^std::option::Option::<T>::as_mut$",
    r"^std::option::Option::<&T>::cloned$", r"^std::option::Option::<&T>::copied$",
    r"^std::vec::Vec::<T, A>::as_slice$", r"^std::vec::Vec::<T, A>::as_mut_slice$",
    r"^(std|core|alloc)::slice::<impl \[T\]>::to_vec$", r"^std::borrow::ToOwned::to_owned$",
    r"^<.* as std::borrow::ToOwned>::to_owned$",
    r"^std::boxed::Box::<T>::new$", r"^std::convert::identity$",
    r"^<.* as std::iter::IntoIterator>::into_iter$", r"^std::iter::IntoIterator::into_iter$",
    r"^(std|core)::slice::<impl \[T\]>::iter$", r"^(std|core)::slice::<impl \[T\]>::iter_mut$",
    r"^std::collections::BTreeMap::<K, V, A>::iter$", r"^std::collections::BTreeMap::<K, V, A>::iter_mut$",
    r"^std::array::<impl .*>::iter$",
    r"^std::option::Option::<T>::take$",
    r"^std::result::Result::<T, E>::map_err$", r"^std::option::Option::<T>::ok_or$",
    r"^std::option::Option::<T>::ok_or_else$",
    # element-wise copies of an iterator: the elements are the same values
    r"^std::iter::Iterator::copied$", r"^std::iter::Iterator::cloned$",
    r"^<.* as std::iter::Iterator>::copied$", r"^<.* as std::iter::Iterator>::cloned$",
]
_TRANSPARENT_RE = [re.compile(p) for p in TRANSPARENT]


def is_transparent(name):
    return any(r.search(name) for r in _TRANSPARENT_RE)


_KNOWN_FNS = None


def known_fns():
    """function paths that existed when the rule modules were written (tables/known_fns.txt). A crate-local function that
    is NOT in this list was introduced by a later change (typically an extracted helper); the rules know nothing about
    it, so calls to it are expanded in place: the caller's terms and event sequences read as if the helper were inlined."""
    global _KNOWN_FNS
    if _KNOWN_FNS is None:
        import os
        path = os.path.join(os.path.dirname(os.path.dirname(os.path.abspath(__file__))), "tables", "known_fns.txt")
        try:
            _KNOWN_FNS = set(open(path).read().split("\n"))
        except OSError:
            _KNOWN_FNS = set()
    return _KNOWN_FNS


def _is_pure_helper(f):
    """no call in the helper receives a `&mut` (its result is then a function of its arguments that the return term shows
    completely); a helper that feeds an engine or a buffer keeps its call term, arguments included"""
    if not hasattr(f, "_pure"):
        b = f.body
        pure = True
        for bi in b.reachable():
            t = b.blocks[bi]["t"]
            if b.blocks[bi]["cleanup"] or t["k"] != "call":
                continue
            for a in t["args"]:
                pl = a.get("pl") if a["k"] in ("copy", "move") else None
                if pl is not None and not pl["p"] and b.local_ty(pl["l"]).startswith("&mut "):
                    pure = False
        f._pure = pure
    return f._pure


def is_new_helper(prog, name):
    return bool(name) and name in prog.fns and name not in known_fns() and "{closure#" not in name


class Prov:
    """Flow-insensitive backward def-use slicing to symbolic terms."""

    def __init__(self, body, depth=40, site_tag=None):
        self.b = body
        self.depth = depth
        self.memo = {}
        # site_tag: regex; calls to matching callees get their block index appended to the term
        # (distinguishes successive reads from one stream, which are otherwise identical terms)
        self.site_tag = re.compile(site_tag) if site_tag else None

    # terms are tuples
    def operand(self, op, strip=True):
        k = op["k"]
        if k in ("copy", "move"):
            return self.place(op["pl"], strip)
        if k == "const":
            if "fn" in op:
                return ("fnitem", op["fn"])
            if "promoted" in op:
                pb = self.b.fn.promoted_body(int(op["promoted"]))
                if pb is not None:
                    return Prov(pb, self.depth).local(0, strip)
                return ("unk", "promoted")
            if "v" in op:
                if "def" in op:
                    return ("const", op["ty"], int(op["v"]), op["def"])
                return ("const", op["ty"], int(op["v"]))
            if "static" in op:
                return ("cdef", op["static"], None)
            if "def" in op:
                return ("cdef", op["def"], op.get("disp"))
            return ("constd", op["ty"], op.get("disp"))
        return ("unk", k)

    def place(self, pl, strip=True):
        base = self.local(pl["l"], strip)
        projs = pl["p"]
        # struct local whose field is (re)assigned separately: `tx.input = ...`
        if projs and isinstance(projs[0], dict) and "f" in projs[0]:
            alts = self._field_assigns(pl["l"], projs[0]["f"], strip)
            if alts:
                first = self._project(base, projs[:1], strip)
                cands = []
                if not (first[0] == "fld" and first[1][0] in ("partial", "undef")):
                    cands.append(first)
                for a in alts:
                    if a not in cands:
                        cands.append(a)
                t = cands[0] if len(cands) == 1 else ("phi", tuple(cands))
                return self._project(t, projs[1:], strip)
        return self._project(base, projs, strip)

    def lplace(self, pl, strip=True):
        """a place as an assignment target (no value expansion of reassigned fields)"""
        return self._project(self.local(pl["l"], strip), pl["p"], strip)

    def _field_assigns(self, l, fname, strip):
        key = ("fa", l, fname, strip)
        if key in self.memo:
            return self.memo[key] or []
        self.memo[key] = None
        out = []
        for (bi, si, kind, payload) in self.b.defs().get(l, []):
            if self.b.blocks[bi]["cleanup"]:
                continue
            pl = payload["pl"] if kind == "assign" else payload.get("dest")
            if not pl or len(pl["p"]) != 1 or not isinstance(pl["p"][0], dict) or pl["p"][0].get("f") != fname:
                continue
            out.append(self._rvalue(payload["rv"], strip) if kind == "assign" else self._call(payload, strip))
        self.memo[key] = out
        return out

    def _project(self, base, projs, strip):
        t = base
        pending_variant = None
        for e in projs:
            if e == "*":
                continue
            if isinstance(e, str):
                continue
            if "dc" in e:
                pending_variant = e["dc"]
                continue
            if "f" in e:
                owner = e["o"]
                if pending_variant is not None:
                    owner = owner + "::" + pending_variant
                    pending_variant = None
                t = self._field(t, owner, e["f"], strip)
            elif "idx" in e:
                t = ("idx", t, self.local(e["idx"], strip))
            elif "cidx" in e:
                t = ("cidx", t, e["cidx"][0], e["cidx"][2])
            elif "sub" in e:
                t = ("sub", t, e["sub"][0], e["sub"][1], e["sub"][2])
        if pending_variant is not None:
            t = ("variant", t, pending_variant)
        return t

    def _field(self, t, owner, f, strip):
        if strip and owner.split("::<")[0] in ("std::boxed::Box", "std::ptr::Unique", "std::ptr::NonNull"):
            return t
        if t == ("arg", 1) and owner.startswith("(closure)"):
            cap = self.b.fn.captured(int(f)) if f.isdigit() else None
            if cap is not None:
                return ("upvar", cap)
        if strip and t[0] == "enext" and owner == "std::option::Option::Some" and f == "0":
            return ("epair", t[1])
        if strip and t[0] == "epair" and owner == "(tuple)":
            return ("index", t[1]) if f == "0" else ("elem", t[1])
        if strip and t[0] == "next" and owner == "std::option::Option::Some" and f == "0":
            if t[1][0] == "zip":
                return ("zpair", t[1][1], t[1][2])
            return ("elem", t[1])
        if strip and t[0] == "zpair" and owner == "(tuple)":
            return ("elem", t[1]) if f == "0" else ("elem", t[2])
        # field of a known aggregate -> component
        if t[0] == "agg":
            kind, names, ops = t[1], t[2], t[3]
            if f in names:
                return ops[names.index(f)]
            if f.isdigit() and int(f) < len(ops) and not names:
                return ops[int(f)]
        if strip and owner.endswith("std::ops::ControlFlow::Continue") and f == "0":
            return t
        if strip and owner.endswith("std::ops::ControlFlow::Break") and f == "0":
            return ("err", t)
        if strip and t[0] == "call":
            name = t[1]
            # `x?` : Continue(v) of Try::branch(x) -> x ;  Break(r) -> ('err', x)
            if re.search(r"Try>::branch$|Try::branch$", name):
                if owner.endswith("ControlFlow::Continue"):
                    return t[2][0]
                if owner.endswith("ControlFlow::Break"):
                    return ("err", t[2][0])
        if strip and owner in ("std::option::Option::Some", "std::result::Result::Ok") and f == "0":
            return ("some", t) if owner.endswith("Some") else ("ok", t)
        if strip and owner == "std::result::Result::Err" and f == "0":
            return ("err", t)
        return ("fld", t, owner, f)

    def local(self, l, strip=True):
        key = (l, strip)
        if key in self.memo:
            v = self.memo[key]
            if v is None:
                return ("cyc", l)
            return v
        self.memo[key] = None
        v = self._local(l, strip)
        self.memo[key] = v
        return v

    def _local(self, l, strip):
        b = self.b
        if 1 <= l <= b.argc:
            # arguments may also be reassigned, but that is rare; keep param identity
            ds = [d for d in b.defs().get(l, []) if d[2] in ("assign", "call") and not d[3]["pl" if d[2] == "assign" else "dest"]["p"]]
            if not ds:
                return ("arg", l)
        ds = b.defs().get(l, [])
        whole = []
        for (bi, si, kind, payload) in ds:
            if b.blocks[bi]["cleanup"]:
                continue
            if kind == "assign":
                if payload["pl"]["p"]:
                    continue  # partial assignment (field init); ignored for identity
                whole.append(self._rvalue(payload["rv"], strip))
            elif kind == "call":
                if payload["dest"]["p"]:
                    continue
                whole.append(self._call(payload, strip))
        # aggregate initialised field by field (struct built through partial assignments)
        if not whole:
            parts = [(p["pl"], p) for (_, _, kind, p) in ds if kind == "assign" and p["pl"]["p"]]
            if parts:
                return ("partial", l)
            return ("undef", l)
        if len(whole) == 1:
            return whole[0]
        uniq = []
        for w in whole:
            if w not in uniq:
                uniq.append(w)
        if len(uniq) == 1:
            return uniq[0]
        return ("phi", tuple(uniq))

    def _call(self, t, strip):
        name = callee_name(t)
        args = tuple(self.operand(a, strip) for a in t["args"])
        if strip and is_transparent(name) and args:
            return args[0]
        prog = getattr(self.b.fn, "prog", None)
        if strip and prog is not None and getattr(self, "_inl", 0) < 3 and is_new_helper(prog, name) and _is_pure_helper(prog.fns[name]):
            cf = prog.fns[name]
            sub = Prov(cf.body, self.depth)
            sub._inl = getattr(self, "_inl", 0) + 1
            try:
                rt = sub.local(0, strip)
                return subst_args(rt, {i + 1: a for i, a in enumerate(args)})
            except RecursionError:
                pass
        if (strip and prog is not None and getattr(self, "_inl", 0) < 3 and name in prog.fns and re.search(r"\{closure#\d+\}$", name)
                and len(args) == 2 and args[1][0] == "agg" and args[1][1] == "tuple" and _is_pure_helper(prog.fns[name])):
            # a local closure called directly (`let f = |x| ..; f(a)`): its value is its body's on the actual arguments
            cf = prog.fns[name]
            sub = Prov(cf.body, self.depth)
            sub._inl = getattr(self, "_inl", 0) + 1
            try:
                rt = sub.local(0, strip)
                amap = {1: args[0]}
                for i, a in enumerate(args[1][3]):
                    amap[i + 2] = a
                return subst_args(rt, amap)
            except RecursionError:
                pass
        if strip and args:
            if re.search(r"Iterator>::enumerate$|^std::iter::Iterator::enumerate$", name):
                return ("enum", args[0])
            if re.search(r"Iterator>::zip$|^std::iter::Iterator::zip$", name) and len(args) == 2:
                return ("zip", args[0], args[1])
            if re.search(r"Iterator>::next$|^std::iter::Iterator::next$", name):
                if args[0][0] == "enum":
                    return ("enext", args[0][1])
                return ("next", args[0])
        if not args:
            # constructor-like call: distinct call sites are distinct objects
            d = t.get("dest")
            tag = None
            if d is not None and not d["p"]:
                tag = "%s#%d" % (self.b.local_name(d["l"]) or "", d["l"])
            return ("call", name, args, t.get("self_ty"), tag)
        if self.site_tag is not None and self.site_tag.search(name):
            return ("call", name, args, t.get("self_ty"), None, self._site_of(t))
        return ("call", name, args, t.get("self_ty"))

    def _site_of(self, t):
        for bi in range(self.b.n):
            if self.b.blocks[bi]["t"] is t:
                return bi
        return None

    def _rvalue(self, rv, strip):
        k = rv["k"]
        if k == "use":
            return self.operand(rv["a"], strip)
        if k in ("ref", "rawptr"):
            return self.place(rv["pl"], strip)
        if k == "cast":
            inner = self.operand(rv["a"], strip)
            ck = rv["ck"]
            if "Unsize" in ck or "PointerCoercion" in ck or "PtrToPtr" in ck or "Transmute" in ck:
                return inner
            return ("cast", inner, rv["ty"], rv.get("from"))
        if k == "bin":
            return ("bin", rv["op"], self.operand(rv["a"], strip), self.operand(rv["b"], strip))
        if k == "un":
            if rv["op"] == "PtrMetadata":
                return ("len", self.operand(rv["a"], strip))
            return ("un", rv["op"], self.operand(rv["a"], strip))
        if k == "discr":
            return ("discr", self.place(rv["pl"], strip), rv.get("adt"))
        if k == "agg":
            ops = tuple(self.operand(o, strip) for o in rv["ops"])
            if rv["ak"] == "adt":
                return ("agg", rv["adt"] + "::" + rv["variant"], tuple(rv["fields"]), ops)
            if rv["ak"] == "closure":
                return ("agg", "closure:" + rv["def"], (), ops)
            return ("agg", rv["ak"], (), ops)
        if k == "repeat":
            return ("repeat", self.operand(rv["a"], strip), rv["n"])
        return ("unk", k)


def walk_term(t):
    """pre-order iteration over all sub-terms"""
    st = [t]
    while st:
        x = st.pop()
        yield x
        if isinstance(x, tuple):
            for c in x[1:]:
                if isinstance(c, tuple):
                    if c and isinstance(c[0], str):
                        st.append(c)
                    else:
                        for cc in c:
                            if isinstance(cc, tuple):
                                st.append(cc)


def subst_args(t, argmap):
    """replace ('arg', i) leaves of a term by argmap[i]"""
    if not isinstance(t, tuple) or not t:
        return t
    if t[0] == "arg" and len(t) == 2 and t[1] in argmap:
        return argmap[t[1]]
    if isinstance(t[0], str):
        return tuple([t[0]] + [subst_args(x, argmap) if isinstance(x, tuple) else x for x in t[1:]])
    return tuple(subst_args(x, argmap) if isinstance(x, tuple) else x for x in t)


def resolve_fields(prog, t, _memo=None):
    """rewrite fld(call(local fn returning a struct literal), owner, f) to the literal's component"""
    if _memo is None:
        _memo = {}
    if not isinstance(t, tuple) or not t or not isinstance(t[0], str):
        if isinstance(t, tuple):
            return tuple(resolve_fields(prog, x, _memo) if isinstance(x, tuple) else x for x in t)
        return t
    if t[0] == "fld":
        base = resolve_fields(prog, t[1], _memo)
        if base[0] == "call" and base[1] in prog.fns:
            if base[1] not in _memo:
                _memo[base[1]] = Prov(prog.fns[base[1]].body).local(0)
            ht = _memo[base[1]]
            if ht[0] == "agg" and t[3] in ht[2]:
                comp = ht[3][ht[2].index(t[3])]
                comp = subst_args(comp, {i + 1: a for i, a in enumerate(base[2])})
                return resolve_fields(prog, comp, _memo)
        return ("fld", base, t[2], t[3])
    return tuple([t[0]] + [resolve_fields(prog, x, _memo) if isinstance(x, tuple) else x for x in t[1:]])


def term_fields(t):
    """set of (owner, field) mentioned in a term"""
    return {(x[2], x[3]) for x in walk_term(t) if x and x[0] == "fld"}


def show(t, depth=0):
    if not isinstance(t, tuple) or not t:
        return repr(t)
    k = t[0]
    if depth > 8:
        return "…"
    if k == "arg":
        return "arg%d" % t[1]
    if k == "upvar":
        return "^" + show(t[1], depth + 1)
    if k == "fld":
        return "%s.%s" % (show(t[1], depth + 1), t[3])
    if k == "const":
        return str(t[2])
    if k == "cdef":
        return t[1]
    if k == "constd":
        return str(t[2])
    if k == "call":
        if len(t) > 4 and t[4]:
            return "%s()@%s" % (short(t[1]), t[4])
        return "%s(%s)" % (short(t[1]), ", ".join(show(a, depth + 1) for a in t[2]))
    if k in ("elem", "index", "enum", "next", "enext", "epair"):
        return "%s(%s)" % (k, show(t[1], depth + 1))
    if k in ("zip", "zpair"):
        return "%s(%s, %s)" % (k, show(t[1], depth + 1), show(t[2], depth + 1))
    if k == "bin":
        return "(%s %s %s)" % (show(t[2], depth + 1), t[1], show(t[3], depth + 1))
    if k == "un":
        return "%s(%s)" % (t[1], show(t[2], depth + 1))
    if k == "cast":
        return "(%s as %s)" % (show(t[1], depth + 1), t[2])
    if k == "agg":
        return "%s{%s}" % (short(t[1]), ", ".join(show(a, depth + 1) for a in t[3]))
    if k == "phi":
        return "phi(%s)" % " | ".join(show(a, depth + 1) for a in t[1])
    if k in ("some", "ok", "err", "len", "discr"):
        return "%s(%s)" % (k, show(t[1], depth + 1))
    if k == "idx":
        return "%s[%s]" % (show(t[1], depth + 1), show(t[2], depth + 1))
    if k == "cidx":
        return "%s[%s%d]" % (show(t[1], depth + 1), "-" if t[3] else "", t[2])
    if k == "sub":
        return "%s[%d..%s%d]" % (show(t[1], depth + 1), t[2], "-" if t[4] else "", t[3])
    if k == "variant":
        return "(%s as %s)" % (show(t[1], depth + 1), t[2])
    return "%s%s" % (k, tuple(t[1:]) if len(t) > 1 else "")


def short(path):
    # drop generic noise for display
    return re.sub(r"::<[^<>]*>", "", path)


# ----------------------------------------------------------------------------- guards


class Guards:
    """Which switch edges dominate a block."""

    def __init__(self, body):
        self.b = body
        self.prov = Prov(body)
        self._edges = None

    def switch_edges(self):
        """[(switch_bb, target_bb, values(list of int) or None for otherwise, excluded(list))]"""
        if self._edges is None:
            out = []
            b = self.b
            for bi in b.reachable():
                t = b.term(bi)
                if t["k"] != "switch":
                    continue
                by_target = defaultdict(list)
                for v, tb in t["ts"]:
                    by_target[tb].append(int(v))
                allvals = [int(v) for v, _ in t["ts"]]
                for tb, vals in by_target.items():
                    if tb == t["o"]:
                        out.append((bi, tb, None, [v for v in allvals if v not in vals]))
                    else:
                        out.append((bi, tb, vals, None))
                if t["o"] not in by_target:
                    out.append((bi, t["o"], None, allvals))
            self._edges = out
        return self._edges

    def edge_dominates(self, sb, tb, blk):
        """edge sb->tb dominates blk: every path from entry to blk uses that edge"""
        b = self.b
        if not b.dominates(tb, blk):
            return False
        # all preds of tb other than sb must be dominated by tb (loop back edges)
        for p in b.pred(tb):
            if p != sb and not b.dominates(tb, p):
                return False
        return True

    def conds(self, blk):
        """[(switch_bb, discr_term, values or None, excluded or None)] for dominating edges"""
        out = []
        for (sb, tb, vals, excl) in self.switch_edges():
            if self.edge_dominates(sb, tb, blk):
                d = self.prov.operand(self.b.term(sb)["d"])
                out.append((sb, d, vals, excl))
        return out


def discr_variants(body, switch_bb):
    """if the switch operand is a discriminant read, map value -> variant name"""
    t = body.term(switch_bb)
    pl = op_place(t["d"])
    if pl is None or pl["p"]:
        return None
    for (bi, si, kind, payload) in body.defs().get(pl["l"], []):
        if kind == "assign" and payload["rv"]["k"] == "discr":
            return {int(v): n for v, n in payload["rv"]["vars"]}, payload["rv"]
    return None


# ----------------------------------------------------------------------------- field access sets


def _places_in_operand(op):
    if op["k"] in ("copy", "move"):
        yield op["pl"]


def _places_in_rvalue(rv):
    k = rv["k"]
    if k in ("use", "cast", "un", "repeat"):
        yield from _places_in_operand(rv["a"])
    elif k in ("ref", "rawptr", "discr"):
        yield rv["pl"]
    elif k == "bin":
        yield from _places_in_operand(rv["a"])
        yield from _places_in_operand(rv["b"])
    elif k == "agg":
        for o in rv["ops"]:
            yield from _places_in_operand(o)


def field_accesses(body):
    """returns (reads, writes, mutrefs): sets of (owner, field); a read of a.b.c counts a.b and a.b.c"""
    reads, writes, mutrefs = set(), set(), set()

    def add_all(pl, into):
        for (o, v, f) in pl_fields(pl):
            into.add((o, f))

    for bi in body.reachable():
        blk = body.blocks[bi]
        if blk["cleanup"]:
            continue
        for s in blk["s"]:
            if s["k"] == "assign":
                fl = pl_fields(s["pl"])
                if fl:
                    o, v, f = fl[-1]
                    writes.add((o, f))
                    for (o2, v2, f2) in fl[:-1]:
                        reads.add((o2, f2))
                rv = s["rv"]
                if rv["k"] == "ref" and rv.get("mut"):
                    add_all(rv["pl"], mutrefs)
                    add_all(rv["pl"], reads)
                else:
                    for p in _places_in_rvalue(rv):
                        add_all(p, reads)
        t = blk["t"]
        if t["k"] == "call":
            for a in t["args"]:
                for p in _places_in_operand(a):
                    add_all(p, reads)
            fl = pl_fields(t["dest"]) if "dest" in t else []
            if fl:
                o, v, f = fl[-1]
                writes.add((o, f))
        elif t["k"] == "switch":
            for p in _places_in_operand(t["d"]):
                add_all(p, reads)
        elif t["k"] == "assert":
            for p in _places_in_operand(t["cond"]):
                add_all(p, reads)
    return reads, writes, mutrefs


# ----------------------------------------------------------------------------- program


class Fn:
    def __init__(self, prog, j):
        self.prog = prog
        self.j = j
        self.path = j["path"]
        self._body = None
        self._prom = {}

    @property
    def body(self):
        if self._body is None:
            self._body = Body(self, self.j["mir"])
        return self._body

    def promoted_body(self, i):
        if i not in self._prom:
            ps = self.j.get("promoted", [])
            self._prom[i] = Body(self, ps[i]) if i < len(ps) else None
        return self._prom[i]

    def captured(self, idx):
        """for a closure: provenance (in the parent function) of the idx-th captured variable"""
        if not hasattr(self, "_caps"):
            self._caps = None
            parent = self.j.get("parent")
            # the immediate parent may itself be a closure
            cands = [self.path.rsplit("::{closure#", 1)[0], parent]
            for pp in cands:
                pf = self.prog.fns.get(pp) if pp else None
                if pf is None:
                    continue
                pb = pf.body
                for bi in range(pb.n):
                    for st in pb.stmts(bi):
                        if st["k"] == "assign" and st["rv"]["k"] == "agg" and st["rv"].get("ak") == "closure" and st["rv"].get("def") == self.path:
                            pr = Prov(pb)
                            self._caps = [pr.operand(o) for o in st["rv"]["ops"]]
                if self._caps is not None:
                    break
        if self._caps is None or idx >= len(self._caps):
            return None
        return self._caps[idx]

    def where(self, sp=None):
        sp = sp or self.j["sp"]
        return "%s:%s" % (sp["file"], sp["line"])

    def __repr__(self):
        return "Fn(%s)" % self.path


class Program:
    def __init__(self, facts):
        self.facts = facts
        self.fns = {}
        self.dups = defaultdict(list)
        for j in facts["fns"]:
            f = Fn(self, j)
            if j["path"] in self.fns:
                self.dups[j["path"]].append(f)
            else:
                self.fns[j["path"]] = f
        self.types = {t["path"]: t for t in facts["types"]}
        self.consts = {}
        for c in facts["consts"]:
            self.consts.setdefault(c["path"], c)
        self.impls = facts["impls"]
        self.instances = {i["key"]: i for i in facts["instances"]}
        self.roots = dict((a, b) for a, b in facts["roots"])
        self.features = facts.get("features", [])
        self.asked = set()

    def fn(self, path):
        f = self.fns.get(path)
        if f is None:
            raise CannotDecide("anchor function not found: %s" % path)
        self.asked.add(path)      # anchors named by a rule (as opposed to functions met while scanning); see tools/coverage_map.py
        return f

    def has_fn(self, path):
        return path in self.fns

    def find(self, regex):
        r = re.compile(regex)
        return [f for p, f in self.fns.items() if r.search(p)]

    def closures_of(self, path):
        return [f for p, f in self.fns.items() if p.startswith(path + "::{closure#")]

    def ty(self, path):
        t = self.types.get(path)
        if t is None:
            raise CannotDecide("anchor type not found: %s" % path)
        return t

    def struct_fields(self, path):
        t = self.ty(path)
        return [f["name"] for f in t["variants"][0]["fields"]]

    def const(self, path):
        c = self.consts.get(path)
        if c is None:
            raise CannotDecide("anchor constant not found: %s" % path)
        return c

    def static_init(self, path):
        """provenance term of a static's initializer"""
        c = self.const(path)
        if not c.get("init"):
            return None
        holder = type("StaticInit", (), {"promoted_body": lambda self_, i: None, "prog": self, "path": path})()
        return Prov(Body(holder, c["init"])).local(0)

    # instance graph
    def inst_reach(self, root_path, follow=None):
        """instance keys reachable from the root function (through local calls and callbacks)"""
        k = self.roots.get(root_path)
        if k is None:
            raise CannotDecide("no instance root for %s" % root_path)
        seen = set()
        st = [k]
        while st:
            x = st.pop()
            if x in seen or x not in self.instances:
                continue
            seen.add(x)
            for c in self.instances[x]["calls"]:
                if follow is not None and not follow(self.instances[x], c):
                    continue
                if c["k"] == "local":
                    st.append(c["to"])
                for e in c.get("extra", []):
                    st.append(e)
        return seen

    def inst_defs(self, keys):
        return {self.instances[k]["def"] for k in keys}

"""Guard predicates that the consensus codec, the ids and the size formulas branch on.
Their exact truth tables are part of the wire-format specification (shared by C01, C02, C12)."""
import itertools

from ..analysis import bool_fn_table
from ..mir import Prov, show


def _check(c, rule, prog, fnp, want_atoms, combine, what):
    if not prog.has_fn(fnp) and "{closure#" in fnp:
        # the closure of the predicate it belongs to is gone: the predicate no longer has the specified structure (its own
        # instance says how); reported as a violation of this clause, not as "cannot decide"
        parent = prog.fn(fnp.split("::{closure#")[0])
        c.inst(rule, what, False, "%s does not exist any more: the predicate was restructured" % fnp, parent.where(), fnp)
        return [], None
    f = prog.fn(fnp)
    atoms, table = bool_fn_table(f.body)
    ok = table is not None and sorted(atoms) == sorted(want_atoms)
    detail = "atoms %s (expected %s)" % (atoms, want_atoms)
    if ok:
        bad = []
        for bits, res in table.items():
            val = dict(zip(atoms, bits))
            exp = combine([val[a] for a in want_atoms])
            if res != exp:
                bad.append((val, res, exp))
        ok = not bad
        if bad:
            detail = "truth table differs, e.g. %s gives %s, specified %s" % bad[0]
    c.inst(rule, what, ok, "%s: %s" % (fnp, detail), f.where(), fnp)
    return atoms, table


def run_predicates(c, prog, rule):
    _check(c, rule, prog, "transaction::AssetIssuance::is_null",
           ["confidential::Value::is_null(arg1.amount)", "confidential::Value::is_null(arg1.inflation_keys)"], all,
           "AssetIssuance::is_null = amount.is_null() && inflation_keys.is_null()")
    _check(c, rule, prog, "transaction::TxIn::has_issuance", ["transaction::AssetIssuance::is_null(arg1.asset_issuance)"], lambda v: not v[0],
           "TxIn::has_issuance = !asset_issuance.is_null()")
    _check(c, rule, prog, "transaction::TxInWitness::is_empty",
           ["std::option::Option::is_none(arg1.amount_rangeproof)", "std::option::Option::is_none(arg1.inflation_keys_rangeproof)",
            "std::vec::Vec::is_empty(arg1.script_witness)", "std::vec::Vec::is_empty(arg1.pegin_witness)"], all,
           "TxInWitness::is_empty = all four fields empty")
    _check(c, rule, prog, "transaction::TxOutWitness::is_empty",
           ["std::option::Option::is_none(arg1.surjection_proof)", "std::option::Option::is_none(arg1.rangeproof)"], all,
           "TxOutWitness::is_empty = both proofs absent")
    _check(c, rule, prog, "transaction::Transaction::has_witness",
           ["<std::slice::Iter<'a, T> as std::iter::Iterator>::any(arg1.input, closure:transaction::Transaction::has_witness::{closure#0}{})",
            "<std::slice::Iter<'a, T> as std::iter::Iterator>::any(arg1.output, closure:transaction::Transaction::has_witness::{closure#1}{})"], any,
           "Transaction::has_witness = any input witness non-empty || any output witness non-empty")
    for i, owner in ((0, "transaction::TxInWitness"), (1, "transaction::TxOutWitness")):
        _check(c, rule, prog, "transaction::Transaction::has_witness::{closure#%d}" % i, ["%s::is_empty(arg2.witness)" % owner], lambda v: not v[0],
               "has_witness closure %d = !witness.is_empty()" % i)
    # null-ness of the three confidential types = the Null variant
    for ty in ("Value", "Asset", "Nonce"):
        f = prog.fn("confidential::%s::is_null" % ty)
        atoms, table = bool_fn_table(f.body)
        # matches!(self, X::Null): branches on the discriminant
        b = f.body
        from ..analysis import ret_assignments, cond_desc
        from ..mir import Guards
        g = Guards(b)
        rows = {}
        p = Prov(b)
        for (bi, si, kind, pay) in b.defs().get(0, []):
            if kind == "assign":
                cd = cond_desc(b, g.conds(bi))
                lab = [l for d, l in cd if d == "discr(arg1)"]
                rows[lab[0] if lab else "?"] = show(p._rvalue(pay["rv"], True))
        t = show(p.local(0))
        ok = (rows.get("Null") == "1" and all(v == "0" for k, v in rows.items() if k != "Null") and len(rows) >= 2) or t in (
            "(discr(arg1) Eq 0)",)
        c.inst(rule, "confidential::%s::is_null = matches!(self, Null)" % ty, ok, "rows %s / returns %s" % (rows, t), f.where(), f.path)


def split_table(prog, fnpath):
    """{discriminant: (base variant name, anyone-can-pay flag)} of a split_anyonecanpay_flag function, evaluated on every
    variant of its argument type whatever the shape of the match (one arm per variant, base match + matches!, ...)."""
    from ..structured import listing
    from ..mir import show
    f = prog.fn(fnpath)
    L, names = listing(f.body)
    ty = f.j["inputs"][0] if f.j.get("inputs") else None
    tinfo = prog.types.get(ty) or {}
    out = {}

    def val(t, vars_):
        if t[0] == "var":
            return vars_.get(t[1])
        if t[0] == "const":
            return t[2]
        if t[0] == "agg":
            return t[1].split("::")[-1]
        return "?" + show(t, -6)

    def walk(stmts, d, vars_):
        for s in stmts:
            if s[0] == "set" and s[1][0] == "var":
                vars_[s[1][1]] = val(s[2], vars_)
            elif s[0] == "if":
                cs = show(s[1], -6)
                if cs == "discr(arg1)":
                    v = d
                elif s[1][0] == "var":
                    v = vars_.get(s[1][1])
                else:
                    return ("?", cs)
                arm = "=%s" % v if "=%s" % v in s[2] else "otherwise"
                if arm not in s[2]:
                    return ("?", "no arm for %s" % v)
                r = walk(s[2][arm], d, vars_)
                if r is not None:
                    return r
            elif s[0] == "ret":
                t = s[1]
                if t[0] == "agg" and len(t[3]) == 2:
                    return (val(t[3][0], vars_), val(t[3][1], vars_))
                return ("?", show(t, -6))
        return None

    for v in tinfo.get("variants", []):
        out[int(v["discr"])] = (v["name"], walk(L, int(v["discr"]), {}))
    return f, out


def confidential_views(c, prog, rule):
    """variant tables of the accessors of confidential::{Value, Asset, Nonce} (variants Null=0, Explicit=1, Confidential=2):
    is_null / is_explicit / is_confidential are true on exactly their variant, explicit() and commitment() return the payload of
    exactly their variant; the blinding-factor wrappers are views of the wrapped tweak. Evaluated per discriminant value, so an
    `if let`, a `match` with three arms or `matches!` give the same table."""
    from .c15 import Fn, decide
    from ..mir import show, Prov
    want = {"is_null": {0: "1", 1: "0", 2: "0"}, "is_explicit": {0: "0", 1: "1", 2: "0"}, "is_confidential": {0: "0", 1: "0", 2: "1"},
            "explicit": {0: "std::option::Option::None{}", 1: "std::option::Option::Some{arg1.0}", 2: "std::option::Option::None{}"},
            "commitment": {0: "std::option::Option::None{}", 1: "std::option::Option::None{}", 2: "std::option::Option::Some{arg1.0}"}}
    for ty in ("Value", "Asset", "Nonce"):
        for m, tab in want.items():
            fnp = "confidential::%s::%s" % (ty, m)
            F = Fn(prog, fnp)
            got = {}
            for d in (0, 1, 2):
                r = decide(F.L, {"d": d}, {"discr(arg1)": "d"})
                got[d] = r[1] if r[0] == "ret" else str(r)
            norm = {d: {"true": "1", "false": "0", "True": "1", "False": "0"}.get(v, v) for d, v in got.items()}
            c.inst(rule, "%s::%s" % (ty, m), norm == tab, "table over (Null, Explicit, Confidential): %s" % got, F.f.where(), fnp)
    views = {"confidential::AssetBlindingFactor::into_inner": "arg1.0", "confidential::ValueBlindingFactor::into_inner": "arg1.0",
             "confidential::AssetBlindingFactor::zero": "confidential::AssetBlindingFactor::AssetBlindingFactor{secp256k1_zkp::ZERO_TWEAK}",
             "confidential::ValueBlindingFactor::zero": "confidential::ValueBlindingFactor::ValueBlindingFactor{secp256k1_zkp::ZERO_TWEAK}",
             "confidential::AssetBlindingFactor::new": "confidential::AssetBlindingFactor::AssetBlindingFactor{secp256k1_zkp::Tweak::new(arg1)}",
             "confidential::ValueBlindingFactor::new": "confidential::ValueBlindingFactor::ValueBlindingFactor{secp256k1_zkp::Tweak::new(arg1)}"}
    views.update({
        "<confidential::Value as std::convert::From<secp256k1_zkp::PedersenCommitment>>::from": "confidential::Value::Confidential{arg1}",
        "<confidential::Asset as std::convert::From<secp256k1_zkp::Generator>>::from": "confidential::Asset::Confidential{arg1}",
        "<confidential::Nonce as std::convert::From<secp256k1_zkp::PublicKey>>::from": "confidential::Nonce::Confidential{arg1}",
    })
    for fnp, w in views.items():
        f = prog.fn(fnp)
        t = show(Prov(f.body).local(0), -30)
        c.inst(rule, fnp.split("::", 1)[1], t == w, "returns %s" % t[:160], f.where(), fnp)

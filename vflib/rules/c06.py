"""C06 — addresses: network constant tables disjoint and equal to the reference, accepted
program-length set (exhaustive decision table), display/parse layout agreement, checksum
variant agreement, dispatch without fall-through."""
import re

from ..analysis import events, cond_desc, err_returns, ret_assignments, predicate_walk, const_eval, effects
from ..mir import Prov, Guards, show, callee_name, walk_term

REF = {
    "LIQUID": dict(p2pkh_prefix=57, p2sh_prefix=39, blinded_prefix=12, bech_hrp="ex", blech_hrp="lq"),
    "ELEMENTS": dict(p2pkh_prefix=235, p2sh_prefix=75, blinded_prefix=4, bech_hrp="ert", blech_hrp="el"),
    "LIQUID_TESTNET": dict(p2pkh_prefix=36, p2sh_prefix=19, blinded_prefix=23, bech_hrp="tex", blech_hrp="tlq"),
}


def parse_params(val):
    out = {}
    for k in ("p2pkh_prefix", "p2sh_prefix", "blinded_prefix"):
        m = re.search(k + r": (\d+)_u8", val)
        out[k] = int(m.group(1)) if m else None
    for k in ("bech_hrp", "blech_hrp"):
        m = re.search(k + r': bech32::Hrp \{\{? ?buf: \*b"((?:[^"\\]|\\.)*)", size: (\d+)_usize', val)
        if m:
            raw = m.group(1)
            n = int(m.group(2))
            # decode the leading printable part
            s = re.split(r"\\x00", raw)[0]
            out[k] = s[:n]
            out[k + "_size_ok"] = len(s) == n
        else:
            out[k] = None
    return out


def network_constants(prog):
    nets = {}
    for name in REF:
        cst = prog.const("address::AddressParams::" + name)
        nets[name] = parse_params(cst["val"] or "")
    return nets


def length_table(prog):
    """accepted data lengths of CheckedHrpstring::validate_witness_program_length, exhaustive over
    len in 0..=200 and version in {0, other}: {(is_v0, len): outcome}"""
    f = prog.fn("blech32::decode::CheckedHrpstring::<'s>::validate_witness_program_length")
    b = f.body
    prov = Prov(b)
    LEN = "<blech32::decode::ByteIter<'_> as std::iter::ExactSizeIterator>::len(blech32::decode::CheckedHrpstring::byte_iter(arg1))"
    outcome = {}
    for (bi, kind, rv) in ret_assignments(b):
        if kind == "ok":
            outcome[bi] = "ok"
        elif kind == "err" and rv.get("k") == "agg":
            outcome[bi] = "err:" + show(prov.operand(rv["ops"][0])).split("::")[-1].rstrip("{}")
    table = {}
    unknown = set()
    for v0 in (True, False):
        for n in range(0, 201):
            def val(kind, bb, t, n=n, v0=v0):
                if kind == "switch":
                    if t[0] == "bin" and show(t[2]) == LEN:
                        k = const_eval(t[3])
                        if k is not None and t[1] in ("Lt", "Le", "Gt", "Ge", "Eq", "Ne"):
                            return {"Lt": n < k, "Le": n <= k, "Gt": n > k, "Ge": n >= k, "Eq": n == k, "Ne": n != k}[t[1]]
                    s = show(t)
                    if s in ("<bech32::Fe32 as std::cmp::PartialEq>::eq(arg2, bech32::Fe32::Q)", "<bech32::Fe32 as std::cmp::PartialEq>::eq(bech32::Fe32::Q, arg2)"):
                        return v0
                    if s in ("<bech32::Fe32 as std::cmp::PartialEq>::ne(arg2, bech32::Fe32::Q)",):
                        return not v0
                    unknown.add(s[:160])
                    return None
                return True

            table[(v0, n)] = frozenset(predicate_walk(b, 0, val, lambda bb, path: outcome.get(bb)))
    return f, table, unknown


def run(c, prog, ctx):
    c.explanation = (
        "Static decision of the structural clauses of C06: (R1) the compiler-evaluated AddressParams constants of the three "
        "networks equal the reference values and are pairwise disjoint (nine version bytes, six HRPs, lower case); (R2) the set "
        "of data lengths the blech32 decoder accepts, obtained as an exhaustive decision table over len 0..200 x {v0, v1+}, is "
        "{53, 65} for version 0 and 35..=73 otherwise (33-byte blinding key + 2..=40 program); (R3) Display and the parsers "
        "agree on the layout (key before program / prefix bytes, key, hash) and on the prefix constants they compare; (R4) "
        "writer and reader choose the checksum variant by the same test (version 0 <=> Blech32/Bech32); (R5) prefix dispatch "
        "returns the segwit result directly (no fall-through to base58), FromStr tries exactly the three built-in networks, "
        "versions above 16 are rejected. Character-level agreement with independent encoders is not decided.")
    c.assume("bech32 0.11 (unblinded bech32/bech32m) and base58ck are trusted dependencies")
    # ---- R1
    nets = network_constants(prog)
    for name, ref in REF.items():
        got = {k: nets[name].get(k) for k in ref}
        c.inst("R1.network-constants", name, got == ref, "evaluated %s, reference %s" % (got, ref), None, "address::AddressParams::" + name)
        c.sample({"rule": "R1", "network": name, "constants": got})
    bytes_all = [(n, k, nets[n][k]) for n in nets for k in ("p2pkh_prefix", "p2sh_prefix", "blinded_prefix")]
    vals = [x[2] for x in bytes_all]
    c.inst("R1.version-bytes-disjoint", "nine base58 version bytes pairwise distinct", len(set(vals)) == 9, "values %s" % bytes_all, None, "address::AddressParams")
    hrps = [(n, k, nets[n][k]) for n in nets for k in ("bech_hrp", "blech_hrp")]
    hv = [x[2] for x in hrps]
    c.inst("R1.hrps-disjoint", "six HRPs pairwise distinct and lower case", len(set(hv)) == 6 and all(h and h == h.lower() for h in hv), "values %s" % hrps, None, "address::AddressParams")

    # ---- R2
    f, table, unknown = length_table(prog)
    c.inst("R2.length-atoms", "every condition of the length check is a recognised comparison", not unknown, "unrecognised: %s" % sorted(unknown), f.where(), f.path)
    acc0 = sorted(n for (v0, n), o in table.items() if v0 and o == {"ok"})
    acc1 = sorted(n for (v0, n), o in table.items() if not v0 and o == {"ok"})
    c.inst("R2.accepted-lengths-v0", "version 0: {53, 65} (key + 20 / 32)", acc0 == [53, 65], "accepted %s" % acc0, f.where(), f.path)
    c.inst("R2.accepted-lengths-v1plus", "version 1..16: 35..=73 (key + 2..=40)", acc1 == list(range(35, 74)),
           "accepted lengths %s..%s (%d values); a blinded address is a 33-byte key followed by a 2..=40 byte program" % (acc1[:1], acc1[-1:], len(acc1)), f.where(), f.path)
    amb = {k: sorted(v) for k, v in table.items() if len(v) != 1}
    c.inst("R2.length-table-deterministic", "one outcome per (version class, length)", not amb, "ambiguous cells %s" % dict(list(amb.items())[:4]), f.where(), f.path)
    c.sample({"rule": "R2", "v0": acc0, "v1plus": [acc1[0], acc1[-1]] if acc1 else []})
    c.stats["length_table_cells"] = len(table)

    # ---- R2b padding table (canonicity of the data part): k padding bits must all be zero
    fpad = prog.fn("blech32::decode::CheckedHrpstring::<'s>::validate_padding")
    bp = fpad.body
    gp = Guards(bp)
    pp_ = Prov(bp)
    masks = {}
    for bi in sorted(bp.reachable()):
        for st in bp.stmts(bi):
            if st["k"] != "assign" or st["pl"]["p"] or st["rv"]["k"] not in ("bin", "use"):
                continue
            v = pp_._rvalue(st["rv"], True)
            cd = cond_desc(bp, gp.conds(bi))
            pin = [l for d, l in cd if d.endswith(" Rem 8)") and re.match(r"^=\d+$", l)]
            if not pin:
                continue
            k = int(pin[0][1:])
            if v[0] == "bin" and v[1] == "Gt" and v[2][0] == "bin" and v[2][1] == "BitAnd" and v[3] == ("const", "u8", 0) and v[2][3][0] == "const":
                masks[k] = v[2][3][2]
            elif v[0] == "const" and v[2] == 0 and k == 0:
                masks[0] = 0
    want_m = {0: 0, 1: 1, 2: 3, 3: 7, 4: 15}
    c.inst("R2.padding-masks", "k padding bits are tested with mask 2^k - 1 (k = 0..4), more than 4 is TooMuch", masks == want_m,
           "masks per padding length %s, expected %s: a narrower mask accepts non-zero padding, so two strings decode to one address" % (masks, want_m), fpad.where(), fpad.path)
    ep = err_returns(bp)
    c.inst("R2.padding-errors", "padding > 4 bits => TooMuch; non-zero padding => NonZero",
           any("TooMuch" in e[1] and any(" Gt 4)" in d and l == "true" for d, l in e[2]) for e in ep) and any("NonZero" in e[1] for e in ep),
           "errors %s" % [(e[1], e[2][-1:]) for e in ep], fpad.where(), fpad.path)
    fvs = prog.fn("blech32::decode::CheckedHrpstring::<'s>::validate_segwit")
    order = [callee_name(t).split("::")[-1] for bi, t in fvs.body.calls(lambda t: "validate_" in callee_name(t))]
    c.inst("R2.padding-checked", "validate_segwit runs validate_padding()? and validate_witness_program_length()?", order == ["validate_padding", "validate_witness_program_length"],
           "calls %s" % order, fvs.where(), fvs.path)

    # ---- R3 layout
    fb = prog.fn("address::Address::from_bech32")
    b = fb.body
    p = Prov(b)
    t = show(p.local(0), -9)
    okl = "core::slice::split_first_chunk" in t or "split_first_chunk" in t
    sf = [show(p._call(tt, True), -9) for bi, tt in b.calls(lambda tt: "split_first_chunk" in callee_name(tt))]
    gen = [tt.get("callee_full", "") for bi, tt in b.calls(lambda tt: "split_first_chunk" in callee_name(tt))]
    c.inst("R3.blinded-layout-reader", "from_bech32: first 33 bytes are the blinding key, the rest the program",
           len(gen) == 1 and "::<33>" in gen[0] and "secp256k1_zkp::PublicKey::from_slice" in t, "split %s" % gen, fb.where(), fb.path)
    fd = prog.fn("<address::Address as std::fmt::Display>::fmt")
    bd = fd.body
    pd = Prov(bd)
    chains = [show(pd._call(tt, True), -9) for bi, tt in bd.calls(lambda tt: callee_name(tt).endswith("Iterator::chain") or callee_name(tt).endswith("::chain"))]
    okc = len(chains) == 1 and chains[0].index("PublicKey::serialize") < chains[0].index("program") if chains and "PublicKey::serialize" in chains[0] and "program" in chains[0] else False
    c.inst("R3.blinded-layout-writer", "Display: blinding key bytes chained before the program", okc, "chain %s" % [x[:200] for x in chains], fd.where(), fd.path)
    # base58: writer stores [blinded_prefix, kind prefix, key(33), hash(20)] / [kind prefix, hash]
    stores = []
    g = Guards(bd)
    for e in effects(bd, pd):
        tt = e["target"]
        if e["kind"] == "assign" and tt[0] in ("cidx", "idx"):
            stores.append((int(tt[2]) if tt[0] == "cidx" else show(tt[2]), show(e["value"]), [l for d, l in cond_desc(bd, g.conds(e["bb"])) if d == "discr(arg1.payload)"]))
    s55 = sorted({(int(i) if str(i).isdigit() else i, v) for i, v, _ in stores})
    want = {(0, "arg1.params.blinded_prefix"), (1, "arg1.params.p2pkh_prefix"), (1, "arg1.params.p2sh_prefix"), (0, "arg1.params.p2pkh_prefix"), (0, "arg1.params.p2sh_prefix")}
    c.inst("R3.base58-layout-writer", "byte 0 = blinded prefix (then kind prefix at 1) or kind prefix at 0", set(s55) == want, "stores %s" % s55, fd.where(), fd.path)
    cps = []
    for bi, tt in bd.calls(lambda tt: callee_name(tt).endswith("copy_from_slice")):
        dst = show(pd.operand(tt["args"][0]), -9)
        srcv = show(pd.operand(tt["args"][1]), -9)
        m = re.search(r"'(\d+)'\), std::ops::(\w+)::\w+\{([^}]*)\}\)$", dst)
        kind = "key" if "PublicKey::serialize" in srcv else "hash"
        cps.append((m.group(1), m.group(2), m.group(3), kind) if m else (dst[-50:], "", "", kind))
    want_cp = sorted([("55", "Range", "2, 35", "key"), ("55", "Range", "2, 35", "key"), ("55", "RangeFrom", "35", "hash"), ("55", "RangeFrom", "35", "hash"),
                      ("21", "RangeFrom", "1", "hash"), ("21", "RangeFrom", "1", "hash")])
    c.inst("R3.base58-offsets-writer", "blinded (55 bytes): key at [2..35], hash at [35..]; plain (21 bytes): hash at [1..]", sorted(cps) == want_cp,
           "copy_from_slice targets %s" % sorted(cps), fd.where(), fd.path)
    f58 = prog.fn("address::Address::from_base58")
    b5 = f58.body
    p5 = Prov(b5)
    g5 = Guards(b5)
    cmpd = set()
    for (sb, tb, vals, excl) in g5.switch_edges():
        d = show(p5.operand(b5.term(sb)["d"]))
        m = re.search(r"arg2\.(\w+_prefix)", d)
        if m and " Eq " in d:
            cmpd.add(m.group(1))
    c.inst("R3.base58-prefixes-reader", "reader compares blinded_prefix, p2pkh_prefix, p2sh_prefix", cmpd == {"blinded_prefix", "p2pkh_prefix", "p2sh_prefix"}, "compared %s" % sorted(cmpd), f58.where(), f58.path)
    gens = sorted(tt.get("callee_full", "").split("::")[-2:][0] + "::" + tt.get("callee_full", "").split("::")[-1] for bi, tt in b5.calls(lambda tt: "split_array" in callee_name(tt) or "try_from" in callee_name(tt)))
    rt = show(p5.local(0), -9)
    sa = [tt.get("callee_full", "") for bi, tt in b5.calls(lambda tt: "split_array" in callee_name(tt))]
    tf = [tt.get("callee_full", "") for bi, tt in b5.calls(lambda tt: "TryFrom" in callee_name(tt) or "try_from" in callee_name(tt))]
    c.inst("R3.base58-layout-reader", "blinded: 53 bytes split 33/20; plain: 20 bytes", any("<33, 20>" in x for x in sa) and any("[u8; 53]" in x for x in tf) and any("[u8; 20]" in x for x in tf),
           "split_array %s try_from %s" % (sa, tf), f58.where(), f58.path)

    # ---- R4 checksum variant
    variants = {}
    for bi, tt in bd.calls(lambda tt: "with_checksum" in callee_name(tt)):
        full = tt.get("callee_full", "")
        m = re.search(r"with_checksum::<([\w:]+)>", full)
        cd = cond_desc(bd, g.conds(bi))
        v0 = [l for d, l in cd if "Fe32::to_u8(arg1.payload.version) Eq 0" in d or ("to_u8" in d and " Eq 0" in d)]
        bl = [l for d, l in cd if "is_blinded" in d or "discr(arg1.blinding_pubkey)" in d]
        variants[m.group(1) if m else full] = (v0[0] if v0 else None)
    want_v = {"blech32::Blech32": "true", "blech32::Blech32m": "false", "bech32::Bech32": "true", "bech32::Bech32m": "false"}
    c.inst("R4.writer-variant", "Display: version == 0 <=> Blech32/Bech32, else the m variants", variants == want_v, "variants %s" % variants, fd.where(), fd.path)
    fn_new = prog.fn("blech32::decode::SegwitHrpstring::<'s>::new")
    bn = fn_new.body
    gn = Guards(bn)
    rv = {}
    for bi, tt in bn.calls(lambda tt: callee_name(tt).endswith("validate_and_remove_checksum")):
        m = re.search(r"validate_and_remove_checksum::<([\w:]+)>", tt.get("callee_full", ""))
        cd = cond_desc(bn, gn.conds(bi))
        lab = [l for d, l in cd if d.startswith("bech32::Fe32::from_char(") and d.endswith(".data[0]).0")]
        rv[m.group(1) if m else "?"] = lab[0] if lab else None
    c.inst("R4.reader-variant", "SegwitHrpstring::new: version 0 => Blech32, otherwise Blech32m", rv == {"blech32::Blech32": "=0", "blech32::Blech32m": "not in 0"}, "variants %s" % rv, fn_new.where(), fn_new.path)
    errs = err_returns(bn)
    c.inst("R5.version-range", "witness version > 16 rejected", any("InvalidWitnessVersion" in e[1] and any(" Gt 16)" in d and l == "true" for d, l in e[2]) for e in errs),
           "errors %s" % [(e[1][:40], e[2][-1:]) for e in errs], fn_new.where(), fn_new.path)
    # the Ok result only through validate_segwit(validate_and_remove_checksum(..))
    rn = show(Prov(bn).local(0), -9)
    c.inst("R4.reader-checksum-unavoidable", "Ok only via validate_segwit(validate_and_remove_checksum(unchecked))",
           "blech32::decode::CheckedHrpstring::validate_segwit(blech32::decode::UncheckedHrpstring::validate_and_remove_checksum(" in rn and "std::result::Result::Ok{" not in rn,
           "returns %s" % rn[:300], fn_new.where(), fn_new.path)

    # ---- R5 dispatch
    for fnp, nnets in (("<address::Address as std::str::FromStr>::from_str", 3), ("address::Address::parse_with_params", 1)):
        ff = prog.fn(fnp)
        bb_ = ff.body
        pp = Prov(bb_)
        gg = Guards(bb_)
        # every from_bech32 call result is returned directly
        direct = []
        for bi, tt in bb_.calls(lambda tt: callee_name(tt) == "address::Address::from_bech32"):
            dest = tt["dest"]
            direct.append(dest["l"] == 0 and not dest["p"])
        c.inst("R5.no-fallthrough", fnp.split("::")[-1], bool(direct) and all(direct), "from_bech32 results returned directly: %s" % direct, ff.where(), fnp)
        mp = [show(pp.operand(tt["args"][1])) for bi, tt in bb_.calls(lambda tt: callee_name(tt) == "address::match_prefix")]
        c.inst("R5.prefix-tests", fnp.split("::")[-1], sorted(set(x.split(".")[-1] for x in mp)) == ["bech_hrp", "blech_hrp"], "match_prefix targets %s" % mp, ff.where(), fnp)
    ffs = prog.fn("<address::Address as std::str::FromStr>::from_str")
    pf = Prov(ffs.body)
    arrs = set()
    for bi in sorted(ffs.body.reachable()):
        for st in ffs.body.stmts(bi):
            if st["k"] == "assign" and st["rv"]["k"] == "agg" and st["rv"].get("ak") == "array":
                arrs.add(show(pf._rvalue(st["rv"], True), -9))
    # ---- R5 prefix match is whole-string, case-insensitive equality
    from .c15 import Fn as _Fn, sh as _sh, decide as _decide
    MP = _Fn(prog, "address::match_prefix")
    badlen = []
    for a in range(0, 7):
        for b_ in range(0, 7):
            r = _decide(MP.L, {"a": a, "b": b_}, {"bech32::Hrp::len(arg2)": "a", "core::str::len(arg1)": "b"})
            if a != b_ and r != ("ret", "0"):
                badlen.append((a, b_, r))
            if a == b_ and not (r[0] == "ret" and r[1].startswith("std::iter::Iterator::all(zip(")):
                badlen.append((a, b_, r))
    allret = [_sh(s_[1]) for cx, s_ in MP.flat if s_[0] == "ret" and "Iterator::all" in _sh(s_[1])]
    # (a comparison written without the per-character closure is a different shape: reported below as a mismatch of the
    # comparison, with whatever the function returns now, instead of stopping with "cannot decide")
    if prog.has_fn("address::match_prefix::{closure#0}"):
        MC = _Fn(prog, "address::match_prefix::{closure#0}")
        cl = [_sh(s_[1]) for cx, s_ in MC.flat if s_[0] == "ret"]
    else:
        cl = ["<no per-character closure>"]
        allret = allret or [_sh(s_[1]) for cx, s_ in MP.flat if s_[0] == "ret"]
    c.inst("R5.prefix-match-exact", "a string's HRP matches a network only if it has the same length and equals it character by character ignoring case",
           not badlen and allret == ["std::iter::Iterator::all(zip(bech32::Hrp::lowercase_char_iter(arg2), core::str::chars(arg1)), closure:address::match_prefix::{closure#0}{})"]
           and cl == ["(arg2.0 Eq std::char::methods::to_ascii_lowercase(arg2.1))"],
           "length table deviations %s; comparison %s with %s" % (badlen[:3], allret, cl), MP.f.where(), MP.f.path)
    c.inst("R5.three-networks", "FromStr iterates exactly LIQUID, ELEMENTS, LIQUID_TESTNET",
           arrs == {"array{address::AddressParams::LIQUID, address::AddressParams::ELEMENTS, address::AddressParams::LIQUID_TESTNET}"}
           or any(set(re.findall(r"address::AddressParams::(\w+)", a)) == {"LIQUID", "ELEMENTS", "LIQUID_TESTNET"} and a.count("address::AddressParams::") == 3 for a in arrs),
           "network arrays %s" % sorted(arrs), ffs.where(), ffs.path)
    _decoder_slicing(c, prog)


def _decoder_slicing(c, prog):
    """R6: which characters of the string each stage of the blech32 reader looks at: HRP = before the separator, data = after it;
    the checksum is the last CHECKSUM_LENGTH characters; the witness version is the first data character and is removed before
    the padding and length rules run; bytes are converted from exactly the remaining data."""
    D = "blech32::decode::"
    IDX = "core::slice::index::<impl std::ops::Index<I> for [T]>::index"
    f = prog.fn(D + "UncheckedHrpstring::<'s>::new")
    t = show(Prov(f.body).local(0), -40)
    SP = "core::str::split_at(arg1, %scheck_characters(arg1))" % D
    want = ("std::result::Result::Ok{%sUncheckedHrpstring::UncheckedHrpstring{bech32::Hrp::parse(%s.0), %s(core::str::as_bytes(%s.1), std::ops::RangeFrom::RangeFrom{1})}}" % (D, SP, IDX, SP))
    c.inst("R6.decoder-slicing", "UncheckedHrpstring::new: hrp = s[..sep], data = s[sep+1..]", want in t, "returns %s" % t[-420:], f.where(), f.path)
    f = prog.fn(D + "UncheckedHrpstring::<'s>::remove_checksum")
    t = show(Prov(f.body).local(0), -40)
    want = ("%sCheckedHrpstring::CheckedHrpstring{%sUncheckedHrpstring::hrp(arg1), %s(arg1.data, std::ops::RangeTo::RangeTo{(core::slice::len(arg1.data) SubWithOverflow bech32::Checksum::CHECKSUM_LENGTH).0})}" % (D, D, IDX))
    c.inst("R6.decoder-slicing", "remove_checksum: data without its last CHECKSUM_LENGTH characters, hrp kept", t.replace("arg1.hrp", D + "UncheckedHrpstring::hrp(arg1)") == want, "returns %s" % t, f.where(), f.path)
    for ty in ("UncheckedHrpstring", "CheckedHrpstring", "SegwitHrpstring"):
        f = prog.fn(D + ty + "::<'s>::hrp")
        c.inst("R6.decoder-slicing", ty + "::hrp", show(Prov(f.body).local(0), -9) == "arg1.hrp", "", f.where(), f.path)
    f = prog.fn(D + "SegwitHrpstring::<'s>::witness_version")
    c.inst("R6.decoder-slicing", "SegwitHrpstring::witness_version", show(Prov(f.body).local(0), -9) == "arg1.witness_version", "", f.where(), f.path)
    for ty in ("CheckedHrpstring", "SegwitHrpstring"):
        f = prog.fn(D + ty + "::<'s>::byte_iter")
        t = show(Prov(f.body).local(0), -40)
        c.inst("R6.decoder-slicing", ty + "::byte_iter converts exactly self.data",
               t == "%sByteIter::ByteIter{bech32::Fe32IterExt::fes_to_bytes(%sAsciiToFe32Iter::AsciiToFe32Iter{arg1.data})}" % (D, D), "returns %s" % t, f.where(), f.path)
    # validate_segwit: version = first data character, removed once, before both validations; the result carries the stripped data
    f = prog.fn(D + "CheckedHrpstring::<'s>::validate_segwit")
    b = f.body
    asg = [e for e in effects(b) if e["kind"] == "assign" and show(e["target"], -9) == "arg1.data"]
    strip_ok = len(asg) == 1 and re.match(r"^%s\(.*, std::ops::RangeFrom::RangeFrom\{1\}\)$" % re.escape(IDX), show(asg[0]["value"], -40)) is not None
    calls = {callee_name(t).split("::")[-1]: bi for bi, t in b.calls(lambda t: callee_name(t).split("::")[-1] in ("validate_padding", "validate_witness_program_length"))}
    order_ok = strip_ok and len(calls) == 2 and all(b.dominates(asg[0]["bb"], bi) for bi in calls.values())
    rt = show(Prov(b).local(0), -40)
    ok_ctor = re.search(r"Ok\{%sSegwitHrpstring::SegwitHrpstring\{(%sCheckedHrpstring::hrp\(arg1\)|arg1\.hrp), bech32::Fe32::from_char\((.*?)\[0\]\), " % (re.escape(D), re.escape(D)), rt) is not None
    g = Guards(b)
    okbs = [bi for (bi, si, kind, pay) in b.defs().get(0, []) if kind == "assign" and "SegwitHrpstring" in show(Prov(b)._rvalue(pay["rv"], True), -9)] if hasattr(b, "defs") else []
    guarded = False
    for bi in okbs:
        cd = cond_desc(b, g.conds(bi), keep_try=True) if "keep_try" in cond_desc.__code__.co_varnames else cond_desc(b, g.conds(bi))
        ds = " ".join(d for d, l in cd)
        guarded = "validate_padding" in ds and "validate_witness_program_length" in ds
    c.inst("R6.decoder-slicing", "validate_segwit: version = data[0], stripped once before the padding and length rules, both rules guard Ok",
           order_ok and ok_ctor and guarded, "strip %s; calls %s; constructor found %s; Ok guarded by both %s" % (strip_ok, sorted(calls), ok_ctor, guarded), f.where(), f.path)
    c.floor("R6.decoder-slicing", 9)

"""Encapsulation facts the properties lean on (thorough tier): a field that carries an invariant must not be
publicly assignable. Decided from the type facts (field visibility as rustc resolved it) — the zero-cost
equivalent of a compile-fail witness `let _ = T { field: .. }` / `x.field = ..` from outside the crate."""

TABLE = {
    "C01": [("locktime::Height", "0", "a block height is below the 500,000,000 threshold by construction, so the u32 form decodes to the same variant"),
            ("locktime::Time", "0", "a time is at or above the threshold by construction")],
    "C07": [("pset::PartiallySignedTransaction", "inputs", "input list and global input_count change together (add_input/remove_input)"),
            ("pset::PartiallySignedTransaction", "outputs", "output list and global output_count change together"),
            ("pset::map::global::TxData", "input_count", "count is owned by the PSET, written only by its own methods"),
            ("pset::map::global::TxData", "output_count", "count is owned by the PSET")],
    "C08": [("pset::PartiallySignedTransaction", "inputs", "views are computed from the lists the PSET owns"),
            ("pset::PartiallySignedTransaction", "outputs", "views are computed from the lists the PSET owns")],
    "C13": [("sighash::SighashCache", "tx", "the cached midstates belong to exactly this transaction"),
            ("sighash::SighashCache", "common_cache", "filled only by the cache's own builders"),
            ("sighash::SighashCache", "segwit_cache", "filled only by the cache's own builders"),
            ("sighash::SighashCache", "taproot_cache", "filled only by the cache's own builders")],
    "C15": [("taproot::TaprootMerkleBranch", "0", "path length limit is enforced by the checked constructors only"),
            ("taproot::LeafVersion", "0", "leaf versions are even and not 0x50 only through from_u8"),
            ("taproot::TaprootBuilder", "branch", "pending nodes change only through insert"),
            ("taproot::NodeInfo", "hash", "node hash and leaf paths are built together by combine"),
            ("taproot::NodeInfo", "leaves", "node hash and leaf paths are built together by combine")],
    "C16": [("script::Script", "0", "script bytes are only reachable through the script API")],
    "C20": [("pset::map::input::PsbtSighashType", "inner", "text and serde forms cover exactly the u32 the constructors accept"),
            ("confidential::AssetBlindingFactor", "0", "the tweak is range-checked on construction"),
            ("confidential::ValueBlindingFactor", "0", "the tweak is range-checked on construction")],
}


def run(c, prog, pid):
    for ty, fld, why in TABLE.get(pid, []):
        t = prog.types.get(ty)
        if t is None:
            cands = [v for k, v in prog.types.items() if k == ty or k.startswith(ty + "<")]
            t = cands[0] if cands else None
        vis = None
        if t is not None:
            for v in t.get("variants", []):
                for f in v["fields"]:
                    if f["name"] == fld:
                        vis = f["pub"]
        c.inst("T.encapsulation", "%s.%s" % (ty, fld), vis is False, "%s; field is %s" % (why, {True: "pub", False: "not public", None: "NOT FOUND"}[vis]), (t or {}).get("sp") and "%s:%s" % (t["sp"]["file"], t["sp"]["line"]), ty)

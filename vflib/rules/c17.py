"""C17 — checksum error detection (data part): algebraic distance obligations computed from
the compiler-evaluated generator constants, plus must-pass-through of the residue check.

Level `proof`: a finite set of obligations discharged by exact computation on constants taken
from /repo's current source (no library code is executed)."""
import re

from ..analysis import events, cond_desc, err_returns, ret_assignments, const_eval
from ..mir import Prov, Guards, show, callee_name, walk_term
from .c06 import network_constants, length_table

LEVEL = "proof"

# reference constants (Elements: src/blech32.cpp)
REF_GEN = [0x7d52fba40bd886, 0x5e8dbf1a03950c, 0x1c3a3c74072a18, 0x385d72fa0e5139, 0x7093e5a608865b]
REF_RESIDUE = {"Blech32": 1, "Blech32m": 0x455972a3350f7a1}
# bech32 crate (BIP173 / BIP350), dependency constants used for the unblinded form (side check only)
BECH32_GEN = [0x3b6a57b2, 0x26508e6d, 0x1ea119fa, 0x3d4233dd, 0x2a1462b3]
BECH32_RES = {"Bech32": 1, "Bech32m": 0x2bc830a3}


def parse_u64_array(val):
    return [int(x) for x in re.findall(r"(\d+)_u64", val or "")]


def gf32_mul2(x):
    """multiply a GF(32) element (polynomial basis, modulus x^5 + x^3 + 1) by alpha = 2"""
    x <<= 1
    if x & 32:
        x ^= 0b101001
    return x & 31


def scale_poly(packed, ncoef):
    """multiply every 5-bit coefficient of a packed polynomial by alpha"""
    out = 0
    for i in range(ncoef):
        cfi = (packed >> (5 * i)) & 31
        out |= gf32_mul2(cfi) << (5 * i)
    return out


def step(chk, gen, ncoef):
    """one polymod step with input symbol 0 (the linear part of the bech32 polymod)"""
    top = chk >> (5 * (ncoef - 1))
    chk = (chk & ((1 << (5 * (ncoef - 1))) - 1)) << 5
    for i in range(5):
        if (top >> i) & 1:
            chk ^= gen[i]
    return chk


def single_error_syndromes(gen, ncoef, n):
    """syndrome of error value e at distance j from the end, for e in 1..31, j in 0..n-1"""
    syn = {}
    dup = None
    cur = list(range(1, 32))
    for j in range(n):
        for e, s in zip(range(1, 32), cur):
            if s == 0 or s in syn:
                dup = dup or (e, j, syn.get(s))
            syn[s] = (e, j)
        cur = [step(s, gen, ncoef) for s in cur]
    return syn, dup


def period(gen, ncoef, limit=5000):
    s = step(1, gen, ncoef)
    j = 1
    while s != 1 and j < limit:
        s = step(s, gen, ncoef)
        j += 1
    return j


def run(c, prog, ctx):
    c.level = "proof"
    obligations = []

    def ob(rule, key, ok, detail, where=None, fn=None):
        obligations.append(ok)
        c.inst(rule, key, ok, detail, where, fn)

    consts = {}
    for variant in ("Blech32", "Blech32m"):
        base = "<blech32::%s as bech32::Checksum>::" % variant
        gen = parse_u64_array(prog.const(base + "GENERATOR_SH")["val"])
        res = parse_u64_array(prog.const(base + "TARGET_RESIDUE")["val"])
        cl = int(re.match(r"(\d+)", prog.const(base + "CHECKSUM_LENGTH")["val"]).group(1))
        code = int(re.match(r"(\d+)", prog.const(base + "CODE_LENGTH")["val"]).group(1))
        consts[variant] = dict(gen=gen, res=res[0] if res else None, cl=cl, code=code)
        # O1 constants
        ob("O1.generator", variant, gen == REF_GEN, "GENERATOR_SH = %s, Elements reference %s" % ([hex(x) for x in gen], [hex(x) for x in REF_GEN]), None, base + "GENERATOR_SH")
        ob("O1.residue", variant, consts[variant]["res"] == REF_RESIDUE[variant], "TARGET_RESIDUE = %s, reference %s" % (hex(consts[variant]["res"] or 0), hex(REF_RESIDUE[variant])), None, base + "TARGET_RESIDUE")
        ob("O1.checksum-length", variant, cl == 12 and code == 1024, "CHECKSUM_LENGTH %d CODE_LENGTH %d" % (cl, code), None, base + "CHECKSUM_LENGTH")
        # internal consistency: word i = word 0 scaled by alpha^i
        ok = len(gen) == 5
        w = gen[0] if gen else 0
        for i in range(1, 5):
            w = scale_poly(w, 12)
            ok = ok and len(gen) == 5 and gen[i] == w
        ob("O1.generator-consistent", variant, ok, "GENERATOR_SH[i] must equal GENERATOR_SH[0] multiplied by alpha^i in GF(32) (modulus x^5+x^3+1)", None, base + "GENERATOR_SH")
    c.sample({"obligation": "O1", "constants": {k: {"gen": [hex(x) for x in v["gen"]], "residue": hex(v["res"] or 0), "checksum_len": v["cl"]} for k, v in consts.items()}})

    # longest polymod input, derived from the source: HRP expansion + version + data symbols + checksum
    nets = network_constants(prog)
    max_hrp = max(len(nets[n][k] or "") for n in nets for k in ("bech_hrp", "blech_hrp"))
    f_len, table, unknown = length_table(prog)
    acc = [n for (v0, n), o in table.items() if o == {"ok"}]
    max_bytes = max(acc) if acc else 0
    data_syms = 1 + -(-8 * max_bytes // 5)
    N = (2 * max_hrp + 1) + data_syms + 12
    ob("O2.length-bound", "longest checked string = %d symbols" % N, 0 < N < 1023 and not unknown,
       "max HRP %d chars, max data %d bytes (from validate_witness_program_length), N = %d; must stay below the code's natural length 1023" % (max_hrp, max_bytes, N), f_len.where(), f_len.path)
    c.stats["max_symbols"] = N

    for variant in ("Blech32", "Blech32m"):
        gen = consts[variant]["gen"]
        if len(gen) != 5:
            continue
        per = period(gen, 12)
        syn, dup = single_error_syndromes(gen, 12, N)
        ob("O2.single-error-syndromes", variant, dup is None and len(syn) == 31 * N,
           "%d single-error syndromes over %d positions: %s (period of x modulo g: %d)" % (len(syn), N, "all distinct and non-zero" if dup is None else "collision %s" % (dup,), per), None,
           "<blech32::%s as bech32::Checksum>::GENERATOR_SH" % variant)
        c.stats["syndromes_" + variant] = len(syn)
    # O3 cross-variant: no error pattern of weight <= 2 has syndrome residue1 ^ residue2
    g0 = consts["Blech32"]["gen"]
    if len(g0) == 5 and consts["Blech32m"]["gen"] == g0:
        syn, _ = single_error_syndromes(g0, 12, N)
        T = (consts["Blech32"]["res"] or 0) ^ (consts["Blech32m"]["res"] or 0)
        w1 = T in syn
        w2 = None
        for s, pos in syn.items():
            o = T ^ s
            if o in syn and syn[o] != pos:
                w2 = (pos, syn[o])
                break
        ob("O3.cross-variant", "no weight<=2 pattern maps a blech32 codeword to a blech32m codeword", T != 0 and not w1 and w2 is None,
           "residue difference %s: weight-1 pattern %s, weight-2 pattern %s" % (hex(T), w1, w2), None, "<blech32::Blech32m as bech32::Checksum>::TARGET_RESIDUE")
    else:
        ob("O3.cross-variant", "both variants share the generator", False, "generators differ", None, "<blech32::Blech32m as bech32::Checksum>::GENERATOR_SH")

    # O4 structure: the residue check is on every path to Ok and covers hrp + every data character
    fv = prog.fn("blech32::decode::UncheckedHrpstring::<'s>::validate_checksum")
    b = fv.body
    g = Guards(b)
    p = Prov(b)
    oks = [bi for (bi, k, _) in ret_assignments(b) if k == "ok"]
    errs = err_returns(b)
    bad = [e for e in errs if "InvalidChecksum{" in e[1] or e[1].endswith("InvalidChecksum{}")]
    ne = [e for e in bad if any("TARGET_RESIDUE" in d and "residue" in d for d, l in e[2])]
    ob("O4.residue-compare", "residue != TARGET_RESIDUE => InvalidChecksum", len(ne) == 1,
       "error returns %s" % [(e[1], e[2][-1:]) for e in errs], fv.where(), fv.path)
    calls = [callee_name(t) for bi, t in b.calls()]
    hrp_in = [bi for bi, t in b.calls(lambda t: callee_name(t).endswith("::input_hrp"))]
    fe_in = [bi for bi, t in b.calls(lambda t: callee_name(t).endswith("::input_fe"))]
    resid = [bi for bi, t in b.calls(lambda t: callee_name(t).endswith("::residue"))]
    # Ok returns: the NoChecksum shortcut (CHECKSUM_LENGTH == 0) and the one after the comparison
    main_ok = [bi for bi in oks if resid and b.dominates(resid[0], bi)]
    short_ok = [bi for bi in oks if bi not in main_ok]
    sc = all(any("CHECKSUM_LENGTH" in d and " Eq 0" in d and l == "true" for d, l in cond_desc(b, g.conds(bi))) for bi in short_ok)
    ob("O4.checksum-unavoidable", "Ok only after input_hrp, input_fe over all data and the residue comparison (or CHECKSUM_LENGTH == 0)",
       len(main_ok) == 1 and len(hrp_in) == 1 and len(fe_in) == 1 and sc and b.dominates(hrp_in[0], main_ok[0]),
       "ok blocks %s (after residue: %s), input_hrp %s input_fe %s" % (oks, main_ok, hrp_in, fe_in), fv.where(), fv.path)
    # every data character: the loop iterates self.data (whole slice)
    it = [show(p.operand(t["args"][0]), -9) for bi, t in b.calls(lambda t: callee_name(t).endswith("Iterator::map") or callee_name(t).endswith("::map"))]
    ob("O4.all-characters", "the engine is fed every element of self.data", any(x == "arg1.data" for x in it), "mapped iterators %s" % it, fv.where(), fv.path)
    # a character becomes a field element through the bech32 crate's Fe32::from_char, in the checksum engine's feed and in the
    # byte conversion alike (a local table that maps two characters to one symbol makes their exchange invisible to the checksum)
    conv = {}
    for fnp in ("blech32::decode::UncheckedHrpstring::<'s>::validate_checksum::{closure#0}",
                "<blech32::decode::AsciiToFe32Iter<I> as std::iter::Iterator>::next::{closure#0}"):
        if prog.has_fn(fnp):
            conv[fnp.rsplit("::", 2)[-2] + "::" + fnp.rsplit("::", 1)[-1]] = show(Prov(prog.fn(fnp).body).local(0), -9)
    local_fe = [pth for pth in prog.fns if pth.startswith("blech32::") and any("Fe32::from_u8" in callee_name(t) or "Fe32::try_from" in callee_name(t) or "TryFrom<" in callee_name(t) and "Fe32" in callee_name(t)
                                                                               for bi, t in prog.fns[pth].body.calls())]
    ob("O4.char-to-symbol", "characters are converted with bech32::Fe32::from_char only (no local character table)",
       len(conv) == 2 and all(v in ("bech32::Fe32::from_char(arg2)", "bech32::Fe32::from_char(std::convert::From::from(arg2))") for v in conv.values()) and not local_fe,
       "conversions %s; local functions constructing field elements from integers: %s" % (conv, local_fe), fv.where(), fv.path)
    lc = [e for e in errs if "InvalidChecksumLength" in e[1]]
    ob("O4.length-guard", "data shorter than CHECKSUM_LENGTH rejected", len(lc) == 1 and any("CHECKSUM_LENGTH" in d and " Lt " in d and l == "true" for d, l in lc[0][2]),
       "errors %s" % [(e[1], e[2][-1:]) for e in lc], fv.where(), fv.path)
    # validate_and_remove_checksum = validate_checksum()? then remove_checksum (same Ck)
    fr = prog.fn("blech32::decode::UncheckedHrpstring::<'s>::validate_and_remove_checksum")
    rt = show(Prov(fr.body).local(0), -9)
    ev = [callee_name(t).split("::")[-1] for bi, t in fr.body.calls(lambda t: "checksum" in callee_name(t))]
    ob("O4.validate-before-remove", "validate_checksum()? precedes remove_checksum()", ev[:2] == ["validate_checksum", "remove_checksum"], "calls %s" % ev, fr.where(), fr.path)
    # the only constructor from text and the variant selection are C06.R4/R5 (re-checked here in short form)
    fn_new = prog.fn("blech32::decode::SegwitHrpstring::<'s>::new")
    rn = show(Prov(fn_new.body).local(0), -9)
    ob("O4.new-through-checksum", "SegwitHrpstring::new returns only validate_segwit(validate_and_remove_checksum(..))",
       "validate_segwit(blech32::decode::UncheckedHrpstring::validate_and_remove_checksum(" in rn and "std::result::Result::Ok{" not in rn, "returns %s" % rn[:200], fn_new.where(), fn_new.path)
    fb = prog.fn("address::Address::from_bech32")
    ctor = [callee_name(t) for bi, t in fb.body.calls(lambda t: "SegwitHrpstring" in callee_name(t) and callee_name(t).endswith("::new"))]
    ob("O4.address-parsers", "from_bech32 uses SegwitHrpstring::new of blech32 (blinded) and of the bech32 crate (unblinded)",
       sorted(ctor) == ["bech32::primitives::decode::SegwitHrpstring::<'s>::new", "blech32::decode::SegwitHrpstring::<'s>::new"], "constructors %s" % ctor, fb.where(), fb.path)

    # the string the decoders see is the caller's, untouched: any normalisation (case folding, trimming) in front of the decoder
    # turns rejected corruptions (re-cased characters are "other characters") into accepted strings
    pfb = Prov(fb.body)
    args_new = [show(pfb.operand(t["args"][0]), -9) for bi, t in fb.body.calls(lambda t: "SegwitHrpstring" in callee_name(t) and callee_name(t).endswith("::new"))]
    ups = []
    for fnp in ("address::Address::parse_with_params", "<address::Address as std::str::FromStr>::from_str"):
        fu = prog.fn(fnp)
        pu = Prov(fu.body)
        ups += [(fnp.split("::")[-1], show(pu.operand(t["args"][0]), -9)) for bi, t in fu.body.calls(lambda t: callee_name(t).endswith("Address::from_bech32"))]
    ob("O4.string-unmodified", "FromStr / parse_with_params hand their argument to from_bech32, and from_bech32 to both decoders, unchanged",
       len(args_new) == 2 and set(args_new) == {"arg1"} and len(ups) >= 3 and all(a == "arg1" for _, a in ups),
       "decoder arguments %s; from_bech32 arguments %s" % (args_new, ups), fb.where(), fb.path)

    # O6: the one decidable part of the human-readable-part clause. HRPs are compared case-insensitively and the checksum is
    # computed over the lower-cased HRP, so changing the case of HRP letters must be caught elsewhere: by the mixed-case rule
    # over the WHOLE string (HRP and data part). Per-character decision table of check_characters.
    from itertools import product as _product
    from .c15 import Fn as _Fn, sh as _sh
    CC = _Fn(prog, "blech32::decode::check_characters")
    nm = {v: k for k, v in CC.names.items() if v}
    hu, hl, rq = nm.get("has_upper"), nm.get("has_lower"), nm.get("req_bech32")
    loops = [s_ for s_ in CC.L if s_[0] == "while"]
    good = bool(hu and hl and rq and len(loops) == 1)
    det = "state variables %s" % CC.names
    if good:
        def walk(stmts, val, sets):
            for s_ in stmts:
                if s_[0] == "set" and s_[1][0] == "var":
                    if s_[1][1] == rq and s_[2][0] == "const":
                        val = dict(val, req=s_[2][2])
                    sets.setdefault(s_[1][1], _sh(s_[2]))
                elif s_[0] == "if":
                    cs = _sh(s_[1])
                    if cs == "var('%s',)" % rq:
                        v = val["req"]
                    elif "is_ascii_uppercase" in cs:
                        v = val["upper"]
                    elif "is_ascii_lowercase" in cs:
                        v = val["lower"]
                    elif "Fe32::from_char" in cs:
                        v = 0          # the character is in the alphabet (otherwise the function returns an error)
                    elif " Eq 49)" in cs:
                        v = val["sep"]
                    elif "is_none" in cs:
                        v = val["first_sep"]
                    else:
                        sets["?"] = cs
                        return val
                    arm = "=%d" % v if "=%d" % v in s_[2] else "otherwise"
                    if arm in s_[2]:
                        val = walk(s_[2][arm], val, sets)
                elif s_[0] == "ret":
                    sets["ret"] = _sh(s_[1])
            return val
        bad = []
        for req, upper, lower, sep, first in _product([0, 1], repeat=5):
            if upper and lower or (sep and (upper or lower)):
                continue
            sets = {}
            walk(loops[0][3], {"req": req, "upper": upper, "lower": lower, "sep": sep, "first_sep": first}, sets)
            got = (sets.get(hu) == "1", sets.get(hl) == "1")
            if "?" in sets or got != (bool(upper), bool(lower)):
                bad.append(((req, upper, lower, sep, first), sets))
        # final decision: both flags set => MixedCase
        tail = CC.L[CC.L.index(loops[0]) + 1:]
        fin = {}
        for a, b_ in _product([0, 1], repeat=2):
            def dec(stmts):
                for s_ in stmts:
                    if s_[0] == "ret":
                        return _sh(s_[1])
                    if s_[0] == "if":
                        cs = _sh(s_[1])
                        v = a if cs == "var('%s',)" % hu else b_ if cs == "var('%s',)" % hl else 1
                        arm = "=%d" % v if "=%d" % v in s_[2] else "otherwise"
                        r = dec(s_[2].get(arm, []))
                        if r:
                            return r
                return None
            fin[(a, b_)] = dec(tail)
        okf = all(("MixedCase" in (fin[k] or "")) == (k == (1, 1)) for k in fin)
        good = not bad and okf
        det = "per-character deviations %s; final table %s" % (bad[:2], fin)
    ob("O6.mixed-case-whole-string", "every letter of the string, HRP included, feeds the mixed-case test; upper and lower together => MixedCase", good, det, CC.f.where(), CC.f.path)

    # side check on the dependency's published constants (not from /repo; informational obligation)
    syn, dup = single_error_syndromes(BECH32_GEN, 6, 7 + 1 + 64 + 6)
    ob("O5.bech32-dependency", "bech32/bech32m (dependency constants as published in BIP173): single-error syndromes distinct up to 78 symbols", dup is None,
       "%d syndromes, collision %s" % (len(syn), dup), None, "bech32::Checksum")

    c.explanation = (
        "Finite obligations discharged by exact computation on the constants rustc evaluated from /repo: O1 the blech32/blech32m "
        "generator words, residues and lengths equal the Elements reference and the five generator words are mutually consistent; "
        "O2 for the longest string the parser can check (derived from the HRP constants and the accepted program lengths) all "
        "31*N single-error syndromes are distinct and non-zero, hence no pattern of one or two wrong data characters maps a "
        "codeword to a codeword of the same variant; O3 no pattern of weight <= 2 has the syndrome residue(blech32) xor "
        "residue(blech32m), hence changing the version character cannot move a string into the other variant; O4 the decoder "
        "feeds the HRP and every data character to the engine and reaches Ok only through the residue comparison, and addresses "
        "are only built through that decoder; O6 the mixed-case test covers every letter of the string including the HRP (so "
        "re-casing HRP letters, which neither the case-insensitive HRP match nor the lower-cased checksum input would notice, is "
        "rejected). The rest of the human-readable part clause of C17 is NOT decided: replacing HRP characters by other characters "
        "changes which network/variant is tried and rejection there is probabilistic.")
    c.assume("bech32 0.11 checksum::Engine implements the standard polymod over GENERATOR_SH (input_hrp, input_fe, residue)")
    c.assume("unblinded addresses use the bech32 crate's decoder and constants (dependency, BIP173/BIP350 guarantees)")
    c.extra_cov.update({
        "obligations": len(obligations),
        "discharged": sum(1 for o in obligations if o),
        "checker_cmd": "./vf C17 --tier quick",
        "trusted_base": ["rustc const evaluation of the Checksum impl constants", "bech32 crate polymod engine", "python integer arithmetic",
                         "elfacts MIR dump for the O4 structure obligations"],
    })

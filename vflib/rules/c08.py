"""C08 — PSET/transaction views: BIP370 lock-time decision table (exhaustive over the
discriminant lattice), unique-id kill set, tx<->PSET field-mapping identity, flag-bit
exemption agreement."""
import re

from ..analysis import effects, fields_read_transitively, cond_desc, events
from ..enum_ai import EnumAI, TOP
from ..mir import Prov, Guards, show, callee_name, walk_term, field_accesses, subst_args, resolve_fields

PSET = "pset::PartiallySignedTransaction"
INPUT = "pset::map::input::Input"
OUTPUT = "pset::map::output::Output"


# ------------------------------------------------------------------ R1 lock time
def _locktime(c, prog):
    fnp = PSET + "::locktime"
    f = prog.fn(fnp)
    b = f.body
    enum = fnp + "::Locktime"
    ty = prog.ty(enum)
    variants = [v["name"] for v in ty["variants"]]
    c.inst("R1.lattice-order", "Unconstrained < Minimum < Disallowed (variant order of the derived Ord)",
           variants == ["Unconstrained", "Minimum", "Disallowed"] and prog.has_fn("<%s<T> as std::cmp::Ord>::cmp" % enum),
           "variants %s" % variants, f.where(), fnp)
    # the tuple matched at the end: (Locktime<Time>, Locktime<Height>)
    tup = [i for i, l in enumerate(b.locals) if l["ty"].startswith("(" + enum + "<")]
    order = None
    for i in tup:
        m = re.findall(r"Locktime<locktime::(\w+)>", b.locals[i]["ty"])
        if len(m) == 2:
            order = m
    c.inst("R1.final-match", "final decision matches on the pair (time, height)", order in (["Time", "Height"], ["Height", "Time"]),
           "tuple locals %s" % [b.locals[i]["ty"] for i in tup], f.where(), fnp)
    if not order:
        return
    ai = EnumAI(b, enum, variants)
    prov = Prov(b)
    marks = {}
    for bi, t in b.calls():
        n = callee_name(t)
        full = t.get("callee_full", "")
        if n.endswith("Option::<T>::unwrap_or") and "fallback_locktime" in show(prov.operand(t["args"][0])):
            marks[bi] = "fallback"
        elif re.search(r"Into<.*>>::into$|Into::into$|From<.*>>::from$", n) or n.endswith("::into"):
            if "locktime::Time" in full and "LockTime" in full:
                marks[bi] = "time"
            elif "locktime::Height" in full and "LockTime" in full:
                marks[bi] = "height"
    for (bi, si, kind, p) in b.defs().get(0, []):
        if kind == "assign" and p["rv"]["k"] == "agg" and p["rv"].get("variant") == "Err":
            if "LocktimeConflict" in show(prov.operand(p["rv"]["ops"][0])):
                marks[bi] = "conflict"

    def observe(bb, st):
        if bb in marks:
            st[("mark", ())] = marks[bb]

    ends = ai.run(observe=observe)
    table = {}
    for (kind, bb, st) in ends:
        pair = None
        for i in tup:
            a, h = st.get((i, ("0",))), st.get((i, ("1",)))
            if a is not None and h is not None:
                pair = (a, h) if order == ["Time", "Height"] else (h, a)
        lab = st.get(("mark", ()))
        if kind.startswith("diverge"):
            lab = "unreachable!"
        elif kind == "budget":
            lab = "<budget>"
        table.setdefault(pair, set()).add(lab)
    U, M, D = "Unconstrained", "Minimum", "Disallowed"
    want = {(U, U): {"fallback"}, (M, M): {"height"}, (M, D): {"time"}, (D, M): {"height"}, (D, D): {"conflict"}}
    names = {U: "U", M: "M", D: "D"}
    for pair, lab in want.items():
        got = table.get(pair)
        c.inst("R1.locktime-table", "(time=%s,height=%s)" % (names[pair[0]], names[pair[1]]), got == lab,
               "cell (time %s, height %s): outcome %s, BIP370 prescribes %s" % (pair[0], pair[1], sorted(map(str, got or [])), sorted(lab)),
               f.where(), fnp)
    extra = {p: l for p, l in table.items() if p not in want}
    c.inst("R1.locktime-reachable-cells", "cells reachable from (U,U) are exactly {UU, MM, MD, DM, DD}", not extra,
           "additional reachable cells %s" % {str(k): sorted(map(str, v)) for k, v in extra.items()}, f.where(), fnp)
    c.stats["locktime_abstract_states"] = ai.explored
    c.sample({"rule": "R1", "table": {"%s,%s" % (names.get(p[0], p[0]), names.get(p[1], p[1])) if p else "?": sorted(map(str, l)) for p, l in table.items()}})
    # fallback term
    fb = [show(prov.operand(t["args"][1])) for bi, t in b.calls() if marks.get(bi) == "fallback"]
    # "the maximum of the kind ..." is std::cmp::max over locktime::Height / locktime::Time: their order is the numeric order of
    # the wrapped u32 (derived on a single-field struct, or a hand-written cmp of self.0 with other.0 in that orientation)
    for ty in ("locktime::Height", "locktime::Time"):
        for imp in prog.impls:
            tr = (imp.get("trait") or "").split("<")[0]
            if imp["self_ty"] != ty or tr not in ("std::cmp::Ord", "std::cmp::PartialOrd"):
                continue
            mac = (imp.get("sp") or {}).get("mac") or ""
            ok, det = "derive" in mac, mac
            if not ok:
                terms = [show(Prov(prog.fns[it].body).local(0), -20) for it in imp.get("items", []) if it in prog.fns and it.endswith(("::cmp", "::partial_cmp"))]
                det = "hand-written: %s" % terms
                ok = bool(terms) and all(re.match(r"^(std::option::Option::Some\{)?(<u32 as std::cmp::(Partial)?Ord>::(partial_)?cmp|std::cmp::(Partial)?Ord::(partial_)?cmp|<%s as std::cmp::Ord>::cmp)\(arg1(\.0)?, arg2(\.0)?\)\}?$" % re.escape(ty), t) for t in terms)
            c.inst("R1.locktime-order", "%s: %s is the numeric order" % (ty, tr.split("::")[-1]), ok, det, f.where(), ty)
    c.floor("R1.locktime-order", 4)
    c.inst("R1.fallback-default", "no fallback => LockTime::ZERO", fb == ["locktime::LockTime::ZERO"], "default %s" % fb, f.where(), fnp)


# ------------------------------------------------------------------ field maps
def _leaf_map(prog, term, owner_prefixes, root_check=None):
    """fields (owner, name) of the given owners mentioned in a term, following local helper calls
    that receive the element (their transitive read set)"""
    out = set()
    term = resolve_fields(prog, term)
    for x in walk_term(term):
        if x[0] == "fld":
            o = x[2].split("::<")[0]
            base_owner = o
            for pfx in owner_prefixes:
                if base_owner == pfx or base_owner.startswith(pfx + "::"):
                    out.add((pfx, x[3]))
        if x[0] == "call" and x[1] in prog.fns:
            reads, _ = fields_read_transitively(prog, x[1], set(owner_prefixes))
            out |= reads
    return out


_PROG = [None]


def _agg_fields(term, prefix=""):
    """flatten nested struct aggregates: {'witness.amount_rangeproof': term}; a local helper that
    returns a struct literal of a transaction type (Input::asset_issuance) is expanded too"""
    out = {}
    if term[0] == "call" and _PROG[0] is not None and term[1] in _PROG[0].fns:
        ht = Prov(_PROG[0].fn(term[1]).body).local(0)
        if ht[0] == "agg" and ht[2] and ht[1].startswith("transaction::"):
            return _agg_fields(subst_args(ht, {i + 1: a for i, a in enumerate(term[2])}), prefix)
    if term[0] == "phi":
        # several construction sites: merge per field
        for alt in term[1]:
            for k, v in _agg_fields(alt, prefix).items():
                out[k] = ("phi", (out[k], v)) if k in out else v
        return out
    if term[0] == "agg" and term[2]:
        for n, o in zip(term[2], term[3]):
            sub = _agg_fields(o, prefix + n + ".") if (o[0] == "agg" and o[2] and o[1].startswith("transaction::")) or o[0] == "call" else {}
            if sub:
                out.update(sub)
            else:
                out[prefix + n] = o
    return out


TXIN_OWNERS = ["transaction::TxIn", "transaction::OutPoint", "transaction::AssetIssuance", "transaction::TxInWitness"]
TXOUT_OWNERS = ["transaction::TxOut", "transaction::TxOutWitness"]


def _tx_leaf(owner, field):
    return {"transaction::TxIn": "", "transaction::OutPoint": "previous_output.", "transaction::AssetIssuance": "asset_issuance.",
            "transaction::TxInWitness": "witness.", "transaction::TxOut": "", "transaction::TxOutWitness": "witness."}[owner] + field


def _extract_maps(prog):
    f = prog.fn(PSET + "::extract_tx")
    b = f.body
    p = Prov(b)
    ein, eout = {}, {}
    for bi, t in b.calls(lambda t: callee_name(t).endswith("Vec::<T, A>::push")):
        v = p.operand(t["args"][1])
        if v[0] != "agg":
            continue
        if v[1] == "transaction::TxIn::TxIn":
            for k, term in _agg_fields(v).items():
                ein[k] = _leaf_map(prog, term, [INPUT])
        elif v[1] == "transaction::TxOut::TxOut":
            for k, term in _agg_fields(v).items():
                eout[k] = _leaf_map(prog, term, [OUTPUT])
    return f, ein, eout


def _struct_return_map(prog, fnp, owners):
    """for a function returning a struct literal: leaf -> mentioned fields"""
    f = prog.fn(fnp)
    t = Prov(f.body).local(0)
    out = {}
    for k, term in _agg_fields(t).items():
        out[k] = _leaf_map(prog, term, owners)
    return f, out


def _builder_map(prog, fnp, tx_owners, pset_owner):
    """for from_txin/from_txout: PSET field -> set of tx leaf fields written into it (incl. via constructor helper)"""
    f = prog.fn(fnp)
    b = f.body
    out = {}
    ctrl = {}
    g = Guards(b)
    for e in effects(b):
        t = e["target"]
        if t[0] != "fld" or t[2].split("::<")[0] != pset_owner:
            continue
        for (sb, d, vals, excl) in g.conds(e["bb"]):
            for (o, fl) in _leaf_map(prog, d, tx_owners):
                ctrl.setdefault(t[3], set()).add(_tx_leaf(o, fl))
        deps = [e["value"]] if e["value"] is not None else e.get("args", [])[1:]
        leafs = set()
        for d in deps:
            for (o, fl) in _leaf_map(prog, d, tx_owners):
                leafs.add(_tx_leaf(o, fl))
        # control dependence: value under a guard on a tx field (e.g. flags OR-ed under is_pegin)
        out.setdefault(t[3], set()).update(leafs)
    # constructor helper the result starts from (from_prevout(txin.previous_output))
    ret = Prov(b).local(0)
    for x in walk_term(ret):
        if x[0] == "call" and x[1] in prog.fns and x[1] != fnp:
            hf = prog.fn(x[1])
            ht = Prov(hf.body).local(0)
            argmap = {i + 1: a for i, a in enumerate(x[2])}
            for k, term in _agg_fields(ht).items():
                for y in walk_term(term):
                    if y[0] == "fld" and y[1][0] == "arg":
                        # field y[3] of helper's argument; compose with the caller's argument term
                        at = argmap.get(y[1][1])
                        if at is not None:
                            for (o, fl) in _leaf_map(prog, at, tx_owners):
                                pass
                            outer = [_tx_leaf(o, fl) for (o, fl) in _leaf_map(prog, at, tx_owners)]
                            for base in outer:
                                out.setdefault(k, set()).add(base + "." + y[3])
    return f, out, ctrl



def _presence_table(prog, fnpath, base_re, fields, agg="transaction::TxOut::TxOut", comps=("asset", "value")):
    """For the TxOut literal built in `fnpath`: which variant the asset/value component takes for every presence
    pattern of the PSET output's (commitment, explicit) fields. Handles both the `match (comm, explicit)` form (branches
    in the listing) and the Option-combinator form (`comm.map(C).or(expl.map(E)).unwrap_or_default()`)."""
    import re as _re
    from itertools import product as _product
    from .c15 import Fn as _Fn, sh as _sh
    F = _Fn(prog, fnpath)

    def ev(t, env, vars_):
        """abstract Option/enum value: ('some', tag) | ('none',) | ('variant', name) | ('?', text)"""
        k = t[0]
        if k == "var":
            return vars_.get(t[1], ("?", "unset"))
        if k == "some":
            return ev(t[1], env, vars_)
        if k == "fld":
            fld = t[3]
            if fld in env:
                return ("some", fld) if env[fld] else ("none",)
        if k == "agg":
            name = t[1].split("::")[-1]
            if name in ("Null", "Explicit", "Confidential"):
                return ("variant", name)
            if name == "None":
                return ("none",)
        if k == "call":
            n = t[1]
            a = t[2]
            if n.endswith("Option::<T>::map") and len(a) == 2:
                x = ev(a[0], env, vars_)
                if x[0] == "none":
                    return x
                f = _sh(a[1])
                m = _re.search(r"::(Explicit|Confidential)", f)
                return ("variant", m.group(1)) if m else ("some", f[:40])
            if n.endswith("Option::<T>::or") and len(a) == 2:
                x = ev(a[0], env, vars_)
                return x if x[0] != "none" else ev(a[1], env, vars_)
            if n.endswith("unwrap_or_default") and len(a) == 1:
                x = ev(a[0], env, vars_)
                return ("variant", "Null") if x[0] == "none" else x
        return ("?", _sh(t)[:60])

    def walk(stmts, env, vars_):
        for s_ in stmts:
            if s_[0] == "set" and s_[1][0] == "var":
                vars_[s_[1][1]] = ev(s_[2], env, vars_)
            elif s_[0] == "if":
                cs = _sh(s_[1])
                m = _re.match(r"^discr\(%s\.(\w+)\)$" % base_re, cs)
                if m and m.group(1) in env:
                    v = env[m.group(1)]
                    arm = "=%d" % v if "=%d" % v in s_[2] else "otherwise"
                    r = walk(s_[2].get(arm, []), env, vars_)
                    if r is not None:
                        return r
                else:
                    for arm in s_[2].values():      # conditions on other things: explore every arm, first literal wins
                        r = walk(arm, env, dict(vars_))
                        if r is not None:
                            return r
            elif s_[0] == "while":
                r = walk(s_[3], env, vars_)
                if r is not None:
                    return r
            elif s_[0] == "ret" and "Err{" in _sh(s_[1]) and "Missing" in _sh(s_[1]):
                return "Err"
            for t in ([s_[1]] if s_[0] == "ret" else list(s_[2]) if s_[0] == "do" else [s_[2]] if s_[0] in ("set", "store") else []):
                from ..mir import walk_term
                for x in walk_term(t):
                    if isinstance(x, tuple) and x and x[0] == "agg" and x[1] == agg:
                        comp = dict(zip(x[2], x[3]))
                        return {k_: ev(comp[k_], env, vars_) for k_ in comps}
        return None

    table = {}
    for bits in _product([0, 1], repeat=len(fields)):
        env = dict(zip(fields, bits))
        table[bits] = walk(F.L, env, {})
    return F, table

def _mapping(c, prog):
    _PROG[0] = prog
    fe, ein, eout = _extract_maps(prog)
    c.inst("R3.extract-shape", "extract_tx builds TxIn and TxOut struct literals", len(ein) >= 9 and len(eout) >= 6,
           "TxIn leaves %s TxOut leaves %s" % (sorted(ein), sorted(eout)), fe.where(), fe.path)
    ff, fin, cin = _builder_map(prog, INPUT + "::from_txin", TXIN_OWNERS, INPUT)
    fo, fout, cout = _builder_map(prog, OUTPUT + "::from_txout", TXOUT_OWNERS, OUTPUT)
    # whole-struct moves (asset_issuance.amount matched by value): treat "asset_issuance" prefix leaves
    for side, E, F, C, ffn, powner in (("TxIn", ein, fin, cin, ff, "Input"), ("TxOut", eout, fout, cout, fo, "Output")):
        # (1)+(2) every tx leaf is carried by some PSET field that from_tx* fills from that same leaf
        for X, ps in sorted(E.items()):
            pf = {p for (_, p) in ps}
            carried = [p for p in pf if any(x == X or x.startswith(X + ".") or X.startswith(x + ".")
                                            for x in (F.get(p, set()) | C.get(p, set())))]
            c.inst("R3.round-trip", "%s.%s" % (side, X), bool(carried),
                   "%s.%s is rebuilt by extract_tx from PSET fields %s, none of which %s fills from %s.%s"
                   % (side, X, sorted(pf), ffn.path, side, X), fe.where(), fe.path)
            c.sample({"rule": "R3", "leaf": "%s.%s" % (side, X), "pset_fields": sorted(pf), "carried_by": sorted(carried)})
        # (3) what from_tx* writes is read back into the same leaf
        for P, xs in sorted(F.items()):
            for X in sorted(xs):
                back = [Y for Y, ps in E.items() if any(p == P for (_, p) in ps) and (Y == X or X.startswith(Y + ".") or Y.startswith(X + "."))]
                c.inst("R3.written-read-back", "%s.%s<-%s.%s" % (powner, P, side, X), bool(back),
                       "%s stores %s.%s in %s.%s, but extract_tx does not rebuild %s.%s from that field: the value is lost on tx -> PSET -> tx"
                       % (ffn.path, side, X, powner, P, side, X), ffn.where(), fe.path)
    # which source wins when both the commitment and the explicit field are present (after blinding both are): the two
    # views of a PSET output must agree, and the commitment has priority
    FLD = ("asset_comm", "asset", "amount_comm", "amount")
    Ft, tt = _presence_table(prog, OUTPUT + "::to_txout", r"arg1", FLD)
    Fe_, te = _presence_table(prog, "pset::PartiallySignedTransaction::extract_tx", r"elem\(arg1\.outputs\)", FLD)

    def want(ac, a, vc, v, strict):
        wa = "Confidential" if ac else "Explicit" if a else ("Err" if strict else "Null")
        wv = "Confidential" if vc else "Explicit" if v else ("Err" if strict else "Null")
        return wa, wv
    bad_t, bad_e, bad_s = [], [], []
    for bits in sorted(tt):
        wa, wv = want(*bits, strict=False)
        g = tt[bits]
        got = (g["asset"][1], g["value"][1]) if isinstance(g, dict) else g
        if got != (wa, wv):
            bad_t.append((bits, got))
        ea, evv = want(*bits, strict=True)
        g2 = te[bits]
        got2 = (g2["asset"][1], g2["value"][1]) if isinstance(g2, dict) else g2
        exp2 = "Err" if "Err" in (ea, evv) else (ea, evv)
        if got2 != exp2:
            bad_e.append((bits, got2))
        if isinstance(g, dict) and isinstance(g2, dict) and (g["asset"], g["value"]) != (g2["asset"], g2["value"]):
            bad_s.append((bits, got, got2))
    c.inst("R3.source-priority", "Output::to_txout: commitment wins over the explicit field, for asset and value (16 presence patterns)", not bad_t, "deviations %s" % bad_t[:3], Ft.f.where(), Ft.f.path)
    c.inst("R3.source-priority", "extract_tx: commitment wins over the explicit field; neither present is an error (16 presence patterns)", not bad_e, "deviations %s" % bad_e[:3], Fe_.f.where(), Fe_.f.path)
    # the issuance view of an input (feeds extract_tx, hence the unique id and both issuance-id computations)
    IF = ("issuance_value_comm", "issuance_value_amount", "issuance_inflation_keys_comm", "issuance_inflation_keys")
    Fi, ti = _presence_table(prog, "pset::map::input::Input::asset_issuance", r"arg1", IF, agg="transaction::AssetIssuance::AssetIssuance", comps=("amount", "inflation_keys"))
    bad_i = []
    for bits in sorted(ti):
        vc, v, kc, k_ = bits
        exp = ("Confidential" if vc else "Explicit" if v else "Null", "Confidential" if kc else "Explicit" if k_ else "Null")
        g = ti[bits]
        got = (g["amount"][1], g["inflation_keys"][1]) if isinstance(g, dict) else g
        if got != exp:
            bad_i.append((bits, got))
    c.inst("R3.source-priority", "Input::asset_issuance: commitment wins over the explicit field, for the issued amount and the inflation keys (16 presence patterns)",
           not bad_i, "deviations %s" % bad_i[:3], Fi.f.where(), Fi.f.path)
    c.inst("R3.source-priority", "both views choose the same source on every pattern where both produce an output", not bad_s, "deviations %s" % bad_s[:3], Ft.f.where(), Ft.f.path)
    # sibling agreement: Output::to_txout vs the output half of extract_tx
    ft, tmap = _struct_return_map(prog, OUTPUT + "::to_txout", [OUTPUT])
    for X in sorted(set(tmap) | set(eout)):
        a = {p for (_, p) in tmap.get(X, set())}
        bset = {p for (_, p) in eout.get(X, set())}
        c.inst("R3.sibling-agreement", "TxOut.%s" % X, a == bset,
               "Output::to_txout derives TxOut.%s from %s but extract_tx derives it from %s" % (X, sorted(a), sorted(bset)),
               ft.where(), fe.path)
    c.floor("R3.round-trip", 14, "13 TxIn leaves + 6 TxOut leaves on the pinned tree (floor below)")


# ------------------------------------------------------------------ R2 unique id
SIGNER_MUTABLE = {
    # fields the property names as not identifying: sequences, partial/final signatures, final
    # script sigs and witnesses, scripts, key derivations, explicit-value proof fields
    "sequence", "partial_sigs", "final_script_sig", "final_script_witness", "redeem_script", "witness_script",
    "bip32_derivation", "tap_key_sig", "tap_script_sigs", "tap_scripts", "tap_key_origins", "tap_internal_key",
    "tap_merkle_root", "sighash_type", "blind_value_proof", "blind_asset_proof", "in_issuance_blind_value_proof",
    "in_issuance_blind_inflation_keys_proof", "tap_tree", "ripemd160_preimages", "sha256_preimages",
    "hash160_preimages", "hash256_preimages", "proprietary", "unknown", "in_utxo_rangeproof", "witness_utxo", "non_witness_utxo",
}
TXID_WITNESS_LEAVES = ("witness.",)


def _unique_id(c, prog):
    fnp = PSET + "::unique_id"
    f = prog.fn(fnp)
    b = f.body
    _PROG[0] = prog
    fe, ein, eout = _extract_maps(prog)
    must_reset = {}
    for X, ps in ein.items():
        if X.startswith("witness."):
            continue  # outside the txid (C02)
        mut = sorted(p for (_, p) in ps if p in SIGNER_MUTABLE)
        if mut:
            must_reset[X] = mut
    resets = {}
    EX = "pset::PartiallySignedTransaction::extract_tx(arg1)"
    for e in effects(b):
        t = e["target"]
        if e["kind"] == "assign" and t[0] == "fld" and show(t[1]) == "elem(%s.input)" % EX:
            dep = any(x[0] == "arg" for x in walk_term(e["value"]))
            resets[t[3]] = (show(e["value"]), dep)
    for X, mut in sorted(must_reset.items()):
        r = resets.get(X)
        c.inst("R2.unique-id-kill-set", "TxIn.%s" % X, r is not None and not r[1],
               "extract_tx fills TxIn.%s from the signer/updater-mutable PSET field(s) %s and unique_id() does not reset it "
               "before hashing: the id changes when that field is set" % (X, mut), f.where(), fnp)
    for X, ps in sorted(eout.items()):
        if X.startswith("witness."):
            continue
        mut = sorted(p for (_, p) in ps if p in SIGNER_MUTABLE)
        c.inst("R2.unique-id-output-independent", "TxOut.%s" % X, not mut,
               "TxOut.%s depends on mutable PSET fields %s" % (X, mut), fe.where(), fnp)
    # result is txid of the adjusted tx
    t = Prov(b).local(0)
    st = show(t, -9)
    c.inst("R2.unique-id-is-txid", "unique_id = Ok(txid(extract_tx()?))", "transaction::Transaction::txid(%s)" % EX in st, "returns %s" % st[:200], f.where(), fnp)
    c.sample({"rule": "R2", "must_reset": must_reset, "resets": {k: v[0] for k, v in resets.items()}})
    c.floor("R2.unique-id-kill-set", 2, "sequence and script_sig")


# ------------------------------------------------------------------ R4 flag-bit exemption
def _flag_exemption(c, prog):
    n = 0
    for path, f in sorted(prog.fns.items()):
        if not (path.startswith("pset::") or path.startswith("<pset::")):
            continue
        b = f.body
        p = None
        for bi in sorted(b.reachable()):
            for s in b.stmts(bi):
                if s["k"] != "assign" or s["rv"]["k"] != "bin" or s["rv"]["op"] != "BitAnd":
                    continue
                p = p or Prov(b)
                ta, tb = p.operand(s["rv"]["a"]), p.operand(s["rv"]["b"])
                sa, sb = show(ta, -9), show(tb, -9)
                if "previous_output_index" not in sa + sb:
                    continue
                if not re.search(r"\(1 Shl 3[01]\)|1073741824|2147483648|3221225472|1073741823", sa + sb):
                    continue
                n += 1
                g = Guards(b)
                cd = cond_desc(b, g.conds(bi))
                guarded = any("previous_output_index" in d and "4294967295" in d and (
                    (" Eq " in d and lab == "false") or (" Ne " in d and lab == "true")) for d, lab in cd)
                c.inst("R4.flag-exemption", "%s: %s & %s" % (path, sa[-60:], sb[-60:]), guarded,
                       "flag bits of previous_output_index are read without the 0xffffffff (coinbase) exemption that TxIn "
                       "decoding and extract_tx apply; guards: %s" % cd, f.where(s.get("sp")), path)
    c.floor("R4.flag-exemption", 2, "extract_tx, Input::is_pegin (Input::issuance_ids is covered by C11.R3)")


def _nonce_class(c, prog):
    """from_txout stores the txout nonce as ecdh_pubkey when TxOut::is_partially_blinded() and as blinding_key otherwise; extract_tx
    rebuilds the nonce from ecdh_pubkey only, so the round trip needs the predicate to be true as soon as any part is blinded
    (asset commitment, value commitment or a non-empty witness). Exact truth table of the predicate."""
    from ..analysis import bool_fn_table
    f = prog.fn("transaction::TxOut::is_partially_blinded")
    atoms, table = bool_fn_table(f.body, max_atoms=8)
    roles = []
    for a in atoms:
        m = re.match(r"^confidential::(Asset|Value)::is_confidential\(arg1\.(asset|value)\)$", a)
        m2 = re.match(r"^discr\(arg1\.(asset|value)\) == (\d)$", a)
        if m:
            roles.append((m.group(2), True))
        elif m2:
            roles.append((m2.group(1), "d" + m2.group(2)))
        elif a == "transaction::TxOutWitness::is_empty(arg1.witness)":
            roles.append(("witness-empty", True))
        else:
            roles.append((a, None))
    bad = None
    if table is None or any(r[1] is None for r in roles):
        bad = "conditions not recognised: %s" % atoms
    else:
        for bits, res in table.items():
            v = {"asset": False, "value": False, "witness-empty": True}
            seen = {}
            incons = False
            for (role, kind), bit in zip(roles, bits):
                if kind is True:
                    if seen.setdefault(role, bit) != bit:
                        incons = True
                    v[role] = bit
                else:   # discriminant test: variant 2 is Confidential
                    if kind == "d2":
                        if seen.setdefault(role, bit) != bit:
                            incons = True
                        v[role] = bit
                    elif bit and seen.get(role) is True:
                        incons = True
            if incons:
                continue
            exp = v["asset"] or v["value"] or not v["witness-empty"]
            if res != exp:
                bad = "asset confidential=%s, value confidential=%s, witness empty=%s gives %s" % (v["asset"], v["value"], v["witness-empty"], res)
                break
    c.inst("R3.nonce-class", "TxOut::is_partially_blinded is true exactly when the asset or the value is a commitment or the witness is non-empty",
           bad is None, bad or "conditions %s" % atoms, f.where(), f.path)


def _accessors(c, prog):
    """R5: small accessors both views and the blinders read the PSET through: counts come from the global transaction data,
    the vectors are returned as they are, and the blinding-state predicates of an output have the Elements tables."""
    from ..analysis import bool_fn_table
    P = "pset::"
    views = {
        P + "PartiallySignedTransaction::n_inputs": "pset::map::global::Global::n_inputs(arg1.global)",
        P + "PartiallySignedTransaction::n_outputs": "pset::map::global::Global::n_outputs(arg1.global)",
        P + "map::global::Global::n_inputs": "arg1.tx_data.input_count",
        P + "map::global::Global::n_outputs": "arg1.tx_data.output_count",
        P + "PartiallySignedTransaction::inputs": "arg1.inputs",
        P + "PartiallySignedTransaction::outputs": "arg1.outputs",
        P + "map::output::Output::is_marked_for_blinding": "std::option::Option::is_some(arg1.blinding_key)",
        P + "map::input::Input::has_issuance": "Not(transaction::AssetIssuance::is_null(pset::map::input::Input::asset_issuance(arg1)))",
    }
    for fnp, want in views.items():
        f = prog.fn(fnp)
        t = show(Prov(f.body).local(0), -30)
        c.inst("R5.pset-accessors", fnp[len(P):], t == want, "returns %s" % t[:200], f.where(), fnp)
    # Input::from_prevout (what from_txin starts from): txid and index exactly as given, everything else default
    fp = prog.fn(P + "map::input::Input::from_prevout")
    tp = Prov(fp.body).local(0)
    comp = {}
    if tp[0] == "agg" and tp[1] == "pset::map::input::Input::Input":
        comp = {k: re.sub(r"@[\w]*#\d+", "", show(v, -20)) for k, v in zip(tp[2], tp[3])}
    DEF = "<pset::map::input::Input as std::default::Default>::default()"
    odd = {k: v for k, v in comp.items() if k not in ("previous_txid", "previous_output_index") and v != "%s.%s" % (DEF, k)}
    c.inst("R5.pset-accessors", "map::input::Input::from_prevout: (txid, index) as given, rest default",
           comp.get("previous_txid") == "arg1.txid" and comp.get("previous_output_index") == "arg1.vout" and not odd,
           "previous_txid %s, previous_output_index %s, non-default others %s" % (comp.get("previous_txid"), comp.get("previous_output_index"), odd), fp.where(), fp.path)
    MARK = "pset::map::output::Output::is_marked_for_blinding(arg1)"
    FIELDS = ["amount_comm", "asset_comm", "value_rangeproof", "asset_surjection_proof", "ecdh_pubkey"]
    for fnp, comb in ((P + "map::output::Output::is_partially_blinded", any), (P + "map::output::Output::is_fully_blinded", all)):
        f = prog.fn(fnp)
        atoms, table = bool_fn_table(f.body, max_atoms=8)
        want_atoms = [MARK] + ["std::option::Option::is_some(arg1.%s)" % x for x in FIELDS]
        bad = None
        if table is None or sorted(atoms) != sorted(want_atoms):
            bad = "conditions %s" % atoms
        else:
            for bits, res in table.items():
                v = dict(zip(atoms, bits))
                exp = v[MARK] and comb(v[a] for a in want_atoms[1:])
                if res != exp:
                    bad = "%s gives %s" % ({a.split("(")[-1][:-1]: b for a, b in v.items()}, res)
                    break
        c.inst("R5.pset-accessors", fnp[len(P):] + (": marked and any of" if comb is any else ": marked and all of") + " commitments, proofs, ecdh key", bad is None, bad or "64-row table", f.where(), fnp)
    c.floor("R5.pset-accessors", 10)


def run(c, prog, ctx):
    c.explanation = (
        "Static decision of the structural clauses of C08: (R1) exhaustive abstract interpretation of "
        "PartiallySignedTransaction::locktime over the discriminant lattice {Unconstrained, Minimum, Disallowed}^2 — "
        "reachable cells and the outcome of each must equal the BIP370 table (height preferred), which also proves the "
        "two unreachable!() arms dead; (R2) every non-witness TxIn field that extract_tx fills from a signer/updater-"
        "mutable PSET field is overwritten with a constant in unique_id before txid(); (R3) the field flows of "
        "from_txin/from_txout composed with extract_tx are the identity on every TxIn/TxOut leaf field and to_txout "
        "agrees with extract_tx; (R4) every reader of the flag bits of previous_output_index applies the 0xffffffff "
        "exemption. Whole-value equality of tx -> PSET -> tx is only decided per field flow.")
    c.assume("the set of PSET fields the property calls non-identifying is the table SIGNER_MUTABLE in vflib/rules/c08.py")
    _locktime(c, prog)
    _unique_id(c, prog)
    _mapping(c, prog)
    _nonce_class(c, prog)
    _accessors(c, prog)
    _flag_exemption(c, prog)

"""C19 — dynafed roots: sibling agreement of the two root computations, compaction field
flow, leaf orders, null root, header root. R1-R3 give root(compact(p)) = root(p) by substitution."""
import re

from ..analysis import cond_desc, effects
from ..mir import Prov, Guards, show, callee_name, walk_term

FMR = "fast_merkle_root::fast_merkle_root"


IDX = "std::array::<impl std::ops::Index<I> for [T; N]>::index("


def _balanced(s, i):
    """index just past the parenthesis group opened at s[i-1] == '('"""
    d = 1
    while d and i < len(s):
        d += {"(": 1, ")": -1}.get(s[i], 0)
        i += 1
    return i


def norm(s):
    """canonical form of array-to-slice coercions (`&a[..]` is `a`) and midstate byte views"""
    while IDX in s:
        i = s.index(IDX)
        j = _balanced(s, i + len(IDX))
        inner = s[i + len(IDX):j - 1]
        suffix = ", std::ops::RangeFull::RangeFull{}"
        if not inner.endswith(suffix):
            break
        s = s[:i] + inner[:-len(suffix)] + s[j:]
    return s


def _strip_wrappers(s):
    # X::to_byte_array(X::from_midstate(m))  ==  to_parts(m).0  ==  BYTES(m)
    for w in ("ElidedRoot", "ParamsRoot"):
        pre = "dynafed::%s::to_byte_array(dynafed::%s::from_midstate(" % (w, w)
        while pre in s:
            i = s.index(pre)
            j = _balanced(s, i + len(pre))
            s = s[:i] + "BYTES(" + s[i + len(pre):j - 1] + s[j:]
    pre = "hashes::sha256::Midstate::to_parts("
    while pre in s:
        i = s.index(pre)
        j = _balanced(s, i + len(pre))
        if s[j:j + 2] != ".0":
            break
        s = s[:i] + "BYTES(" + s[i + len(pre):j - 1] + ")" + s[j + 2:]
    return s


def run(c, prog, ctx):
    c.explanation = (
        "Static decision of C19 by sibling agreement and substitution: (R1) FullParams::calculate_root and Params::calculate_root "
        "are the same two-level fast-merkle expression fmr([bytes(fmr([H(signblockscript), H(witness limit)])), extra_root]) with "
        "the same leaf order and the same serialize_hash (sha256d of the consensus encoding); (R2) extra_root of full parameters "
        "is fmr([H(fedpeg_program), H(fedpegscript), H(extension_space)]), of compact parameters the stored elided root, of null "
        "parameters zero; (R3) into_compact copies script and limit unchanged and stores extra_root() as the elided root; "
        "(R4) null parameters return the all-zero root before anything else and the header root is fmr([current.root, "
        "proposed.root]). R1-R3 imply root(compact(p)) = root(p) for every p by substitution.")
    c.assume("the midstate wrapper types' from_midstate/to_byte_array are inverse views of the same 32 bytes (checked as R1.wrapper)")
    # serialize_hash helpers
    # the leaf hash helper(s): today three identical nested fns, possibly one shared fn after a clean-up; found through
    # the call terms themselves
    helpers = set()
    for fn_ in ("dynafed::FullParams::calculate_root", "dynafed::FullParams::extra_root", "dynafed::Params::calculate_root"):
        helpers |= set(re.findall(r"(dynafed::[A-Za-z_:]*serialize_hash)\(", show(Prov(prog.fn(fn_).body).local(0), -30)))
    for hp in sorted(helpers):
        f = prog.fn(hp)
        ret = show(Prov(f.body).local(0), -30)
        effs = [(e["callee"], tuple(show(a, -30) for a in e.get("args", ()))) for e in effects(f.body) if e["kind"] == "mutarg"]
        ENG = "hashes::Sha256d::engine()"
        ok = ((re.sub(r"@engine#\d+", "", ret) == "hashes::Sha256d::from_engine(%s)" % ENG
               and [(cn, tuple(re.sub(r"@engine#\d+", "", a) for a in args)) for cn, args in effs] == [("encode::Encodable::consensus_encode", ("arg1", ENG))])
              # the same function written through the one-shot helpers
              or (ret == "hashes::Sha256d::hash(encode::serialize(arg1))" and not effs))
        c.inst("R1.serialize-hash", hp, ok, "sha256d engine fed exactly once with consensus_encode(obj): returns %s, engine writes %s" % (ret, effs), f.where(), f.path)
    c.inst("R1.serialize-hash", "every leaf goes through a checked hash helper", len(helpers) >= 1, "helpers %s" % sorted(helpers), None, "dynafed::*::serialize_hash")
    # the leaves are hashes of the *canonical* serialization of scripts and byte vectors: their length prefix is the compact size
    # written by WriteExt::emit_varint, whose boundary table is C01's R6.emit-varint-* (a prefix in a longer form changes every root
    # over an item of that length while Full, Compact and direct computation still agree with each other)
    from . import c01 as _c01
    c.borrow(_c01, "C01", prog, ctx, lambda rule, k: rule in ("R6.emit-varint-bounds", "R6.emit-varint-table"), "R1.length-prefix", 2)
    HRE = r"dynafed::[A-Za-z_:]*serialize_hash"
    # wrapper views
    for w in ("dynafed::ElidedRoot", "dynafed::ParamsRoot", "block::DynafedRoot"):
        n = w.split("::")[-1]
        fm = show(Prov(prog.fn(w + "::from_midstate").body).local(0), -30)
        tb = show(Prov(prog.fn(w + "::to_byte_array").body).local(0), -30)
        fb = show(Prov(prog.fn(w + "::from_byte_array").body).local(0), -30)
        c.inst("R1.wrapper", w, fm == "%s::%s{hashes::sha256::Midstate::to_parts(arg1).0}" % (w, n) and tb == "arg1.0" and fb == "%s::%s{arg1}" % (w, n),
               "from_midstate = %s, to_byte_array = %s, from_byte_array = %s" % (fm, tb, fb), None, w)
    ff = prog.fn("dynafed::FullParams::calculate_root")
    fp = prog.fn("dynafed::Params::calculate_root")
    tf = re.sub(HRE, "H", _strip_wrappers(norm(show(Prov(ff.body).local(0), -30))))
    tp_raw = Prov(fp.body).local(0)
    alts = tp_raw[1] if tp_raw[0] == "phi" else (tp_raw,)
    tps = [re.sub(HRE, "H", _strip_wrappers(norm(show(a, -30)))) for a in alts]
    SH_F = SH_P = "H"
    want_f = ("dynafed::ParamsRoot::from_midstate(%s(array{BYTES(%s(array{hashes::Sha256d::to_byte_array(%s(arg1.signblockscript)), hashes::Sha256d::to_byte_array(%s(arg1.signblock_witness_limit))})), "
              "dynafed::ElidedRoot::to_byte_array(dynafed::FullParams::extra_root(arg1))}))" % (FMR, FMR, SH_F, SH_F))
    c.inst("R1.full-root", "FullParams: fmr([bytes(fmr([H(script), H(limit)])), extra_root])", tf == want_f, "extracted %s" % tf, ff.where(), ff.path)
    want_p = ("dynafed::ParamsRoot::from_midstate(%s(array{BYTES(%s(array{hashes::Sha256d::to_byte_array(%s(dynafed::Params::signblockscript(arg1))), hashes::Sha256d::to_byte_array(%s(dynafed::Params::signblock_witness_limit(arg1)))})), "
              "dynafed::ElidedRoot::to_byte_array(dynafed::Params::extra_root(arg1))}))" % (FMR, FMR, SH_P, SH_P))
    nonnull = [t for t in tps if "fast_merkle_root" in t]
    c.inst("R1.params-root", "Params: the same expression over the accessors", nonnull == [want_p], "extracted %s" % nonnull, fp.where(), fp.path)
    # sibling agreement after renaming accessors to fields
    a = want_f.replace(SH_F, "H").replace("arg1.signblockscript", "SCRIPT").replace("arg1.signblock_witness_limit", "LIMIT").replace("dynafed::FullParams::extra_root(arg1)", "EXTRA")
    bq = (nonnull[0] if nonnull else "").replace(SH_P, "H").replace("dynafed::Params::signblockscript(arg1)", "SCRIPT").replace("dynafed::Params::signblock_witness_limit(arg1)", "LIMIT").replace("dynafed::Params::extra_root(arg1)", "EXTRA")
    c.inst("R1.sibling-agreement", "both computations are the same expression in (script, limit, extra root)", tf.replace(SH_F, "H").replace("arg1.signblockscript", "SCRIPT").replace("arg1.signblock_witness_limit", "LIMIT").replace("dynafed::FullParams::extra_root(arg1)", "EXTRA") == bq,
           "full: %s\nparams: %s" % (a, bq), fp.where(), fp.path)
    c.sample({"rule": "R1", "expression": a})
    # R4 null root first
    b = fp.body
    g = Guards(b)
    p = Prov(b)
    rows = {}
    for (bi, si, kind, pay) in b.defs().get(0, []):
        if b.blocks[bi]["cleanup"]:
            continue
        v = show(p._rvalue(pay["rv"], True) if kind == "assign" else p._call(pay, True), -30)
        lab = [l for d, l in cond_desc(b, g.conds(bi)) if d == "dynafed::Params::is_null(arg1)"]
        if not lab:
            # `if let Params::Null = self` / `match self` instead of the predicate
            dl = [l for d, l in cond_desc(b, g.conds(bi)) if d == "discr(arg1)"]
            lab = ["true" if l == "Null" else "false" for l in dl[:1]]
        rows[lab[0] if lab else "?"] = v[:80]
    c.inst("R4.null-root", "is_null() => all-zero root, decided before any hashing", rows.get("true", "").startswith("dynafed::ParamsRoot::from_byte_array(repeat(('const', 'u8', 0), '32'))") and "false" in rows,
           "rows %s" % rows, fp.where(), fp.path)
    isn = show(Prov(prog.fn("dynafed::Params::is_null").body).local(0))
    c.inst("R4.is-null", "is_null = matches!(self, Null)", "discr(arg1)" in isn or isn in ("phi(1 | 0)", "phi(0 | 1)"), "returns %s" % isn, None, "dynafed::Params::is_null")
    # accessors
    for acc, fld in (("signblockscript", "signblockscript"), ("signblock_witness_limit", "signblock_witness_limit")):
        fa = prog.fn("dynafed::Params::" + acc)
        ba = fa.body
        ga = Guards(ba)
        pa = Prov(ba)
        rws = {}
        for (bi, si, kind, pay) in ba.defs().get(0, []):
            if kind == "assign":
                lab = [l for d, l in cond_desc(ba, ga.conds(bi)) if d == "discr(arg1)"]
                rws[lab[0] if lab else "?"] = show(pa._rvalue(pay["rv"], True))
        want = {"Null": "std::option::Option::None{}", "Compact": "std::option::Option::Some{arg1.%s}" % fld, "Full": "std::option::Option::Some{arg1.0.%s}" % fld}
        c.inst("R1.accessor", acc, rws == want, "rows %s" % rws, fa.where(), fa.path)
    # ---- R2 extra roots
    fe = prog.fn("dynafed::FullParams::extra_root")
    te = re.sub(HRE, "H", norm(show(Prov(fe.body).local(0), -30)))
    SH_E = "H"
    want_e = "dynafed::ElidedRoot::from_midstate(%s(array{hashes::Sha256d::to_byte_array(%s(arg1.fedpeg_program)), hashes::Sha256d::to_byte_array(%s(arg1.fedpegscript)), hashes::Sha256d::to_byte_array(%s(arg1.extension_space))}))" % (FMR, SH_E, SH_E, SH_E)
    c.inst("R2.full-extra-root", "fmr([H(fedpeg_program), H(fedpegscript), H(extension_space)])", te == want_e, "extracted %s" % te, fe.where(), fe.path)
    fx = prog.fn("dynafed::Params::extra_root")
    bx = fx.body
    gx = Guards(bx)
    px = Prov(bx)
    rws = {}
    for (bi, si, kind, pay) in bx.defs().get(0, []):
        if bx.blocks[bi]["cleanup"]:
            continue
        v = show(px._rvalue(pay["rv"], True) if kind == "assign" else px._call(pay, True), -30)
        lab = [l for d, l in cond_desc(bx, gx.conds(bi)) if d == "discr(arg1)"]
        rws[lab[0] if lab else "?"] = v
    want = {"Null": "dynafed::ElidedRoot::from_byte_array(repeat(('const', 'u8', 0), '32'))", "Compact": "arg1.elided_root", "Full": "dynafed::FullParams::extra_root(arg1.0)"}
    c.inst("R2.params-extra-root", "Null => zero, Compact => stored elided root, Full => delegate", rws == want, "rows %s" % rws, fx.where(), fx.path)
    # ---- R3 compaction
    fc = prog.fn("dynafed::FullParams::into_compact")
    tc = Prov(fc.body).local(0)
    fields = dict(zip(tc[2], [show(x, -30) for x in tc[3]])) if tc[0] == "agg" else {}
    c.inst("R3.full-into-compact", "Compact{script, limit unchanged; elided_root = self.extra_root()}",
           tc[0] == "agg" and tc[1] == "dynafed::Params::Compact" and fields == {"signblockscript": "arg1.signblockscript", "signblock_witness_limit": "arg1.signblock_witness_limit", "elided_root": "dynafed::FullParams::extra_root(arg1)"},
           "fields %s" % fields, fc.where(), fc.path)
    fi = prog.fn("dynafed::Params::into_compact")
    bi_ = fi.body
    gi = Guards(bi_)
    pi = Prov(bi_)
    rws = {}
    for (bi, si, kind, pay) in bi_.defs().get(0, []):
        if bi_.blocks[bi]["cleanup"]:
            continue
        v = show(pi._rvalue(pay["rv"], True) if kind == "assign" else pi._call(pay, True), -30)
        lab = [l for d, l in cond_desc(bi_, gi.conds(bi)) if d == "discr(arg1)"]
        rws[lab[0] if lab else "?"] = v
    want = {"Null": "std::option::Option::None{}", "Compact": "std::option::Option::Some{arg1}", "Full": "std::option::Option::Some{dynafed::FullParams::into_compact(arg1.0)}"}
    c.inst("R3.params-into-compact", "Null => None, Compact => itself, Full => full.into_compact()", rws == want, "rows %s" % rws, fi.where(), fi.path)
    # ---- R4 header
    fh = prog.fn("block::BlockHeader::calculate_dynafed_params_root")
    bh = fh.body
    gh = Guards(bh)
    ph = Prov(bh)
    rws = {}
    for (bi, si, kind, pay) in bh.defs().get(0, []):
        if kind == "assign":
            lab = [l for d, l in cond_desc(bh, gh.conds(bi)) if d == "discr(arg1.ext)"]
            rws[lab[0] if lab else "?"] = norm(show(ph._rvalue(pay["rv"], True), -30))
    want = {"Proof": "std::option::Option::None{}",
            "Dynafed": "std::option::Option::Some{block::DynafedRoot::from_midstate(%s(array{dynafed::ParamsRoot::to_byte_array(dynafed::Params::calculate_root(arg1.ext.current)), dynafed::ParamsRoot::to_byte_array(dynafed::Params::calculate_root(arg1.ext.proposed))}))}" % FMR}
    c.inst("R4.header-root", "Dynafed => fmr([current.root, proposed.root]); Proof => None", rws == want, "rows %s" % rws, fh.where(), fh.path)

"""C15 — taproot script trees: tag constants, sibling agreement between the tree builder's hashing
and the control-block verifier's, merkle-path bookkeeping, control-block layout and length
guards, builder order/completeness guards, Huffman construction shape, key tweak composition."""
import re

from ..facts import CannotDecide
from ..ieval import ieval, NoEval
from ..mir import Prov, show, callee_name
from ..structured import listing, fmt, flat, Unstructured

T = "taproot::"
INPUT = "<hashes::sha256t::HashEngine<T> as hashes::HashEngine>::input"
FINAL = "<hashes::sha256t::HashEngine<T> as hashes::HashEngine>::finalize"
ENG = "hashes::sha256t::Hash::engine()"


# ---------------------------------------------------------------- SHA-256 compression (for tag midstates)
_K = [0x428a2f98, 0x71374491, 0xb5c0fbcf, 0xe9b5dba5, 0x3956c25b, 0x59f111f1, 0x923f82a4, 0xab1c5ed5, 0xd807aa98, 0x12835b01, 0x243185be, 0x550c7dc3,
      0x72be5d74, 0x80deb1fe, 0x9bdc06a7, 0xc19bf174, 0xe49b69c1, 0xefbe4786, 0x0fc19dc6, 0x240ca1cc, 0x2de92c6f, 0x4a7484aa, 0x5cb0a9dc, 0x76f988da,
      0x983e5152, 0xa831c66d, 0xb00327c8, 0xbf597fc7, 0xc6e00bf3, 0xd5a79147, 0x06ca6351, 0x14292967, 0x27b70a85, 0x2e1b2138, 0x4d2c6dfc, 0x53380d13,
      0x650a7354, 0x766a0abb, 0x81c2c92e, 0x92722c85, 0xa2bfe8a1, 0xa81a664b, 0xc24b8b70, 0xc76c51a3, 0xd192e819, 0xd6990624, 0xf40e3585, 0x106aa070,
      0x19a4c116, 0x1e376c08, 0x2748774c, 0x34b0bcb5, 0x391c0cb3, 0x4ed8aa4a, 0x5b9cca4f, 0x682e6ff3, 0x748f82ee, 0x78a5636f, 0x84c87814, 0x8cc70208,
      0x90befffa, 0xa4506ceb, 0xbef9a3f7, 0xc67178f2]
_H0 = [0x6a09e667, 0xbb67ae85, 0x3c6ef372, 0xa54ff53a, 0x510e527f, 0x9b05688c, 0x1f83d9ab, 0x5be0cd19]


def _compress(state, block):
    M = 0xffffffff
    rr = lambda x, n: ((x >> n) | (x << (32 - n))) & M
    w = [int.from_bytes(block[i * 4:i * 4 + 4], "big") for i in range(16)]
    for i in range(16, 64):
        s0 = rr(w[i - 15], 7) ^ rr(w[i - 15], 18) ^ (w[i - 15] >> 3)
        s1 = rr(w[i - 2], 17) ^ rr(w[i - 2], 19) ^ (w[i - 2] >> 10)
        w.append((w[i - 16] + s0 + w[i - 7] + s1) & M)
    a, b, c, d, e, f, g, h = state
    for i in range(64):
        S1 = rr(e, 6) ^ rr(e, 11) ^ rr(e, 25)
        ch = (e & f) ^ (~e & M & g)
        t1 = (h + S1 + ch + _K[i] + w[i]) & M
        S0 = rr(a, 2) ^ rr(a, 13) ^ rr(a, 22)
        mj = (a & b) ^ (a & c) ^ (b & c)
        t2 = (S0 + mj) & M
        h, g, f, e, d, c, b, a = g, f, e, (d + t1) & M, c, b, a, (t1 + t2) & M
    return [(x + y) & M for x, y in zip(state, [a, b, c, d, e, f, g, h])]


def tag_midstate(tag):
    import hashlib
    th = hashlib.sha256(tag.encode()).digest()
    st = _compress(_H0, th + th)
    return b"".join(x.to_bytes(4, "big") for x in st)


def parse_rust_bytes(s):
    """bytes of a Rust byte-string literal body as rustc prints it"""
    out = bytearray()
    i = 0
    while i < len(s):
        ch = s[i]
        if ch == "\\":
            n = s[i + 1]
            if n == "x":
                out.append(int(s[i + 2:i + 4], 16))
                i += 4
                continue
            out.append({"n": 10, "r": 13, "t": 9, "0": 0, "\\": 92, "\"": 34, "'": 39}[n])
            i += 2
            continue
        out.append(ord(ch))
        i += 1
    return bytes(out)


def detag(s):
    s = re.sub(r"@[A-Za-z_0-9]*#\d+", "", s)
    # accessor vs field: TaprootMerkleBranch::as_inner(x) is x.0 (checked as R4.accessor)
    s = re.sub(r"taproot::TaprootMerkleBranch::as_inner\(((?:[^()]|\([^()]*\))*)\)", r"\1.0", s)
    return s


class Fn:
    def __init__(self, prog, path):
        self.f = prog.fn(path)
        try:
            self.L, self.names = listing(self.f.body)
        except Unstructured as e:
            raise CannotDecide("%s is not a while/if program: %s" % (path, e))
        self.lines = [detag(l).strip() for l in fmt(self.L, lambda t: show(t, -30))]
        self.flat = flat(self.L)

    def text(self):
        return "\n".join(detag(l) for l in fmt(self.L, lambda t: show(t, -30)))

    def stmts(self, kind=None, callee=None):
        out = []
        for ctx, s in self.flat:
            if kind and s[0] != kind:
                continue
            if callee and not (s[0] == "do" and re.search(callee, s[1])):
                continue
            out.append((ctx, s))
        return out


def ctx_labels(ctx):
    return [(k, detag(show(c, -30)), arm) for (k, c, arm) in ctx]


def sh(t):
    return detag(show(t, -30))


def decide(stmts, env, leaves):
    """outcome of the listing's guards on one valuation: ('ret', term) | ('loop', cond) | ('undecided', cond) | ('end',)"""
    for s in stmts:
        if s[0] == "ret":
            return ("ret", sh(s[1]))
        if s[0] == "if":
            try:
                v = ieval(s[1], env, leaves)
            except NoEval:
                return ("undecided", sh(s[1]))
            arm = "=%d" % v if "=%d" % v in s[2] else "otherwise"
            if arm not in s[2]:
                return ("undecided", sh(s[1]))
            r = decide(s[2][arm], env, leaves)
            if r[0] != "end":
                return r
        if s[0] == "while":
            try:
                v = ieval(s[1], env, leaves)
            except NoEval:
                return ("undecided", sh(s[1]))
            run = bool(v) if s[2] == "otherwise" else v == int(s[2][1:])
            if run:
                return ("loop", sh(s[1]))
    return ("end",)


def run(c, prog, ctx):
    c.explanation = (
        "Static decision of the structural clauses of C15. (R1) the three tagged-hash midstates rustc evaluated equal SHA-256 midstates of "
        "the Elements tags, and each hash site uses the engine of the right tag; (R2) leaf hash = H_leaf(version || compact-size script), "
        "tweak hash = H_tweak(key [|| root]); (R3) sibling agreement: NodeInfo::combine and ControlBlock::verify_taproot_commitment hash a "
        "pair with the smaller 32 bytes first under the same tag, combine appends the partner hash to every leaf path on both sides and "
        "keeps DFS order; (R4) the verifier starts from the leaf hash of (script, leaf_version), folds the path in stored order and ends "
        "in tweak_add_check(internal key, output key, stored parity, tweak); spend info and control_block() carry the same fields; "
        "(R5) control block layout: encoder field order vs decoder offsets, first byte parity|version vs &1/&0xfe, size formula, exact "
        "length decision tables (33+32m, m<=128), leaf version table over all 256 bytes, path-length limits; (R6) builder guards as exact "
        "decision tables over (depth, branch length), combine(child, node) order, overcomplete/incomplete/empty refusal; (R7) Huffman: "
        "min-heap by Reverse<u64> weight, two pops per merge, saturating weight sum; (R8) key tweak composition for public keys and key pairs. "
        "Cryptographic claims (a wrong script/path does not verify) rest on the hash and curve and are not decided.")
    c.assume("secp256k1 tweak_add_check/add_tweak/add_xonly_tweak and the hashes crate's tagged-hash engine are correct (dependencies)")
    # ------------------------------------------------------------- R1 tags
    TAGS = {"TapLeafTag": "TapLeaf/elements", "TapBranchTag": "TapBranch/elements", "TapTweakTag": "TapTweak/elements", "TapSighashTag": "TapSighash/elements"}
    for ty, tag in TAGS.items():
        k = "<taproot::%s as hashes::sha256t::Tag>::MIDSTATE" % ty
        cst = prog.consts.get(k)
        val = cst and cst.get("val") or ""
        m = re.search(r'bytes: \*b"(.*)", bytes_hashed: (\d+)_u64', val)
        got = parse_rust_bytes(m.group(1).replace("{{", "{").replace("}}", "}")) if m else None
        want = tag_midstate(tag)
        c.inst("R1.tag-midstate", ty, got == want and m.group(2) == "64", "evaluated midstate %s, midstate of SHA256(%r)x2 = %s" % (got.hex() if got else val[:80], tag, want.hex()),
               (cst or {}).get("sp") and "%s:%s" % (cst["sp"]["file"], cst["sp"]["line"]), k)
    for st, tg in (("TapLeafHash", "TapLeafTag"), ("TapNodeHash", "TapBranchTag"), ("TapTweakHash", "TapTweakTag")):
        tys = prog.ty(T + st)
        inner = None
        try:
            inner = [f["ty"] for v in tys["variants"] for f in v["fields"]]
        except Exception:
            pass
        c.inst("R1.newtype-tag", st, inner == ["hashes::sha256t::Hash<taproot::%s>" % tg], "inner type %s" % inner, None, T + st)
    ENGINE_OF = {T + "TapLeafHash::from_script": "TapLeafTag", T + "NodeInfo::combine": "TapBranchTag",
                 T + "ControlBlock::verify_taproot_commitment": "TapBranchTag", T + "TapTweakHash::from_key_and_tweak": "TapTweakTag"}
    for fn, tg in ENGINE_OF.items():
        f = prog.fn(fn)
        engs = [t.get("resolved_full") or t.get("callee_full") for bi, t in f.body.calls(lambda t: callee_name(t).endswith("::engine"))]
        c.inst("R1.engine-tag", fn, engs == ["hashes::sha256t::Hash::<taproot::%s>::engine" % tg], "engines %s" % engs, f.where(), fn)
    # ------------------------------------------------------------- R2 leaf / tweak hash
    F = Fn(prog, T + "TapLeafHash::from_script")
    want = ["<u8 as encode::Encodable>::consensus_encode(taproot::LeafVersion::as_u8(arg2), %s)" % ENG,
            "<script::Script as encode::Encodable>::consensus_encode(arg1, %s)" % ENG,
            "return taproot::TapLeafHash::TapLeafHash{%s(%s)}" % (FINAL, ENG)]
    c.inst("R2.leaf-hash", "H_leaf(version byte || consensus-encoded script)", F.lines == want, F.text(), F.f.where(), F.f.path)
    F = Fn(prog, T + "TapTweakHash::from_key_and_tweak")
    want = ["%s(%s, bitcoin::XOnlyPublicKey::serialize(arg1))" % (INPUT, ENG), "if discr(arg2)", "[=1]", "%s(%s, some(arg2))" % (INPUT, ENG), "[otherwise]",
            "return taproot::TapTweakHash::TapTweakHash{%s(%s)}" % (FINAL, ENG)]
    c.inst("R2.tweak-hash", "H_tweak(internal key [|| merkle root])", F.lines == want, F.text(), F.f.where(), F.f.path)
    F = Fn(prog, T + "LeafInfo::hash")
    LEAFNODE = "taproot::TapNodeHash::from_byte_array(taproot::TapLeafHash::to_byte_array(taproot::TapLeafHash::from_script(%s, %s)))"
    c.inst("R2.leaf-node", "LeafInfo::hash = leaf hash of (script, ver) as a node hash", F.lines == ["return " + LEAFNODE % ("arg1.script", "arg1.ver")], F.text(), F.f.where(), F.f.path)
    F = Fn(prog, T + "NodeInfo::new_leaf_with_ver")
    c.inst("R2.new-leaf", "leaf node hash = LeafInfo::hash(LeafInfo::new(script, ver))",
           any(l.startswith("return taproot::NodeInfo::NodeInfo{taproot::LeafInfo::hash(taproot::LeafInfo::new(arg1, arg2)), ") for l in F.lines), F.text(), F.f.where(), F.f.path)
    F = Fn(prog, T + "LeafInfo::new")
    c.inst("R2.new-leaf", "LeafInfo::new keeps script and version and starts with an empty path",
           F.lines == ["return taproot::LeafInfo::LeafInfo{arg1, arg2, taproot::TaprootMerkleBranch::TaprootMerkleBranch{std::vec::Vec::new()}}"], F.text(), F.f.where(), F.f.path)
    F = Fn(prog, T + "NodeInfo::new_hidden")
    c.inst("R2.new-leaf", "hidden node keeps the given hash and has no leaves", F.lines == ["return taproot::NodeInfo::NodeInfo{arg1, std::vec::Vec::new()}"], F.text(), F.f.where(), F.f.path)
    # ------------------------------------------------------------- R3 combine / verify sibling agreement
    C = Fn(prog, T + "NodeInfo::combine")
    V = Fn(prog, T + "ControlBlock::verify_taproot_commitment")

    def pair_order(F, strip):
        """The two engine inputs sit under one comparison of the two hashes; whichever arm is taken, the operand the
        comparison found smaller is fed first. lt/le (and gt/ge) are interchangeable: on equality both orders feed the
        same bytes. Returns (ok, detail)."""
        arms = {}
        cond = None
        for cx, s in F.stmts("do", re.escape(INPUT)):
            g = [(cn, arm) for (k, cn, arm) in cx if k == "if" and cn[0] == "call" and re.search(r"::(lt|le|gt|ge)$", cn[1])]
            if len(g) != 1:
                return False, "engine input outside the ordering branch: %s" % sh(s[2][1])
            cond = g[0][0]
            arms.setdefault(g[0][1], []).append(sh(s[2][1]))
        if cond is None or len(cond[2]) != 2:
            return False, "no ordering comparison"
        op = cond[1].rsplit("::", 1)[1]
        x, y = [strip(sh(a)) for a in cond[2]]
        true_arm = arms.get("otherwise") if "otherwise" in arms else arms.get("=1")
        false_arm = arms.get("=0")
        want_true = [x, y] if op in ("lt", "le") else [y, x]
        want_false = [y, x] if op in ("lt", "le") else [x, y]
        return (true_arm == want_true and false_arm == want_false and x != y), "comparison %s(%s, %s): true arm feeds %s, false arm feeds %s" % (op, x, y, true_arm, false_arm)

    good, det = pair_order(C, lambda z: z)
    c.inst("R3.branch-order", "combine: smaller hash first", good and set(re.findall(r"arg\d\.hash", det)) == {"arg1.hash", "arg2.hash"}, det, C.f.where(), C.f.path)
    CUR = "var('v0',)"
    EL = "elem(arg1.merkle_branch.0)"
    good, det = pair_order(V, lambda z: re.sub(r"^taproot::TapNodeHash::as_byte_array\((.*)\)$", r"\1", z))
    c.inst("R3.branch-order", "verify: smaller of (current, path element) first", good and CUR in det and EL in det, det, V.f.where(), V.f.path)
    cret = [sh(s[1]) for cx, s in C.stmts("ret") if not cx]
    ALL = "std::vec::Vec::with_capacity((std::vec::Vec::len(arg1.leaves) AddWithOverflow std::vec::Vec::len(arg2.leaves)).0)"
    c.inst("R3.branch-result", "combine returns NodeInfo{TapNodeHash(finalize(engine)), all_leaves}",
           cret == ["std::result::Result::Ok{taproot::NodeInfo::NodeInfo{taproot::TapNodeHash::TapNodeHash{%s(%s)}, %s}}" % (FINAL, ENG, ALL)], "returns %s" % cret, C.f.where(), C.f.path)
    vset = [sh(s[2]) for cx, s in V.stmts("set") if cx and cx[-1][0] == "while"]
    c.inst("R3.branch-result", "verify: current := TapNodeHash(finalize(engine)) once per path element",
           vset == ["taproot::TapNodeHash::TapNodeHash{%s(%s)}" % (FINAL, ENG)], "loop assignments %s" % vset, V.f.where(), V.f.path)
    # combine path bookkeeping
    loops = [s for cx, s in C.flat if s[0] == "loop" and not cx]
    lc = [sh(s[1]) for s in loops]
    c.inst("R3.leaf-loops", "combine walks the leaves of both children", sorted(lc) == ["discr(next(arg1.leaves))", "discr(next(arg2.leaves))"], "loops %s" % lc, C.f.where(), C.f.path)
    for side, other in (("arg1", "arg2"), ("arg2", "arg1")):
        body = [(cx, s) for cx, s in C.flat if cx and cx[0][0] == "while" and sh(cx[0][1]) == "discr(next(%s.leaves))" % side and s[0] == "do"]
        got = [(s[1], tuple(sh(a) for a in s[2]), len(cx)) for cx, s in body]
        want = [("taproot::TaprootMerkleBranch::push", ("elem(%s.leaves).merkle_branch" % side, "%s.hash" % other), 1),
                ("std::vec::Vec::<T, A>::push", (ALL, "elem(%s.leaves)" % side), 2)]
        # the leaf is kept only on the Ok edge of the checked push; a loop body of another shape (an unchecked Vec::push on
        # the inner vector, seed C15-9) has no such edge and is reported, not crashed on
        okctx = (len(body) == 2 and len(body[1][0]) >= 2 and len(body[1][0][1]) >= 3
                 and sh(body[1][0][1][1]) == "discr(taproot::TaprootMerkleBranch::push(elem(%s.leaves).merkle_branch, %s.hash))" % (side, other)
                 and body[1][0][1][2] == "=0")
        c.inst("R3.path-push", "%s leaves: path gets the partner hash %s.hash, then the leaf is kept" % (side, other), got == want and okctx, "loop body %s" % got, C.f.where(), C.f.path)
    P = Fn(prog, T + "TaprootMerkleBranch::push")
    tbl = {}
    for n in range(0, 200):
        tbl[n] = decide(P.L, {"n": n}, {"std::vec::Vec::len(arg1.0)": "n"})
    bad = [n for n in tbl if (tbl[n][0] != "ret") or (n >= 128) != tbl[n][1].startswith("std::result::Result::Err{taproot::TaprootBuilderError::InvalidMerkleTreeDepth")]
    pushes = [tuple(sh(a) for a in s[2]) for cx, s in P.stmts("do", r"Vec::<T, A>::push$")]
    c.inst("R3.path-limit", "path push appends at the end and refuses a 129th element", not bad and pushes == [("arg1.0", "arg2")], "wrong at lengths %s; pushes %s" % (bad[:5], pushes), P.f.where(), P.f.path)
    # ------------------------------------------------------------- R4 verifier chain and spend info
    init = [sh(s[2]) for cx, s in V.stmts("set") if not cx]
    c.inst("R4.verify-start", "verifier starts from the node hash of leaf(script, self.leaf_version)", init == [LEAFNODE % ("arg4", "arg1.leaf_version")], "initial %s" % init, V.f.where(), V.f.path)
    lp = [sh(s[1]) for cx, s in V.flat if s[0] == "loop"]
    c.inst("R4.verify-path", "verifier folds merkle_branch in stored order", lp == ["discr(next(arg1.merkle_branch.0))"], "loops %s" % lp, V.f.where(), V.f.path)
    AI = Fn(prog, T + "TaprootMerkleBranch::as_inner")
    c.inst("R4.accessor", "as_inner() is the stored vector", AI.lines == ["return arg1.0"], AI.text(), AI.f.where(), AI.f.path)
    vret = [sh(s[1]) for cx, s in V.stmts("ret")]
    want = ("bitcoin::XOnlyPublicKey::tweak_add_check(arg1.internal_key, arg2, schnorr::TweakedPublicKey::as_inner(arg3), arg1.output_key_parity, "
            "secp256k1_zkp::Scalar::from_be_bytes(taproot::TapTweakHash::to_byte_array(taproot::TapTweakHash::from_key_and_tweak(arg1.internal_key, std::option::Option::Some{var('v0',)}))))")
    c.inst("R4.verify-end", "tweak_add_check(internal key, output key, stored parity, H_tweak(internal key || root))", vret == [want], "returns %s" % vret, V.f.where(), V.f.path)
    F = Fn(prog, T + "TapTweakHash::to_scalar")
    c.inst("R4.to-scalar", "to_scalar = Scalar::from_be_bytes(hash bytes) (same conversion as the verifier)", F.lines == ["return secp256k1_zkp::Scalar::from_be_bytes(taproot::TapTweakHash::to_byte_array(arg1))"], F.text(), F.f.where(), F.f.path)
    F = Fn(prog, T + "TaprootSpendInfo::new_key_spend")
    TW = "<bitcoin::XOnlyPublicKey as schnorr::TapTweak>::tap_tweak(arg2, arg1, arg3)"
    tr = Prov(F.f.body).local(0)
    fields = dict(zip(tr[2], [sh(x) for x in tr[3]])) if tr[0] == "agg" else {}
    fields.pop("script_map", None)
    c.inst("R4.key-spend", "spend info: output key and parity from internal_key.tap_tweak(secp, merkle_root)",
           fields == {"internal_key": "arg2", "merkle_root": "arg3", "output_key_parity": TW + ".1", "output_key": TW + ".0"}, "fields %s" % fields, F.f.where(), F.f.path)
    F = Fn(prog, T + "TaprootSpendInfo::from_node_info")
    NK = "taproot::TaprootSpendInfo::new_key_spend(arg1, arg2, std::option::Option::Some{taproot::TapNodeHash::from_byte_array(taproot::TapNodeHash::to_byte_array(arg3.hash))})"
    rets = [sh(s[1]) for cx, s in F.stmts("ret")]
    ins = [(s[1].split("::")[-1], tuple(sh(a) for a in s[2])) for cx, s in F.stmts("do") if re.search(r"BTree(Set|Map)::<.*>::insert$", s[1])]
    KEY = "tuple{elem(arg3.leaves).script, elem(arg3.leaves).ver}"
    want_ins = [("insert", ("some(std::collections::BTreeMap::get_mut(%s.script_map, %s))" % (NK, KEY), "elem(arg3.leaves).merkle_branch")),
                ("insert", ("std::collections::BTreeSet::new()", "elem(arg3.leaves).merkle_branch")),
                ("insert", ("%s.script_map" % NK, KEY, "std::collections::BTreeSet::new()"))]
    c.inst("R4.spend-info", "merkle root = root node hash; every leaf's (script, version) maps to its path", rets == [NK] and ins == want_ins, "returns %s; inserts %s" % (rets, ins), F.f.where(), F.f.path)
    F = Fn(prog, T + "TaprootSpendInfo::control_block")
    got = None
    for cx, s in F.stmts("ret"):
        t = s[1]
        if t[0] == "agg" and t[1].endswith("Option::Some"):
            cb = t[3][0]
            if cb[0] == "agg":
                got = dict(zip(cb[2], [sh(x) for x in cb[3]]))
    want = {"leaf_version": "arg2.1", "output_key_parity": "arg1.output_key_parity", "internal_key": "arg1.internal_key",
            }
    mb = (got or {}).pop("merkle_branch", "")
    # which of several stored paths of a duplicated leaf is returned is not part of the property: any element of the stored set
    from_set = re.match(r"^std::iter::Iterator::\w+\(std::collections::BTreeSet::iter\(std::collections::BTreeMap::get\(arg1\.script_map, arg2\)\)", mb) is not None
    c.inst("R4.control-block", "control_block(): key, parity from the spend info; version from the request; a stored path of that (script, version)", got == want and from_set,
           "fields %s; path %s" % (got, mb), F.f.where(), F.f.path)
    # ------------------------------------------------------------- R5 control block layout
    E = Fn(prog, T + "ControlBlock::encode")
    writes = [tuple(sh(a) for a in s[2]) for cx, s in E.stmts("do")]
    want = [("arg2", "array{(secp256k1_zkp::Parity::to_u8(arg1.output_key_parity) BitOr taproot::LeafVersion::as_u8(arg1.leaf_version))}"),
            ("arg2", "bitcoin::XOnlyPublicKey::serialize(arg1.internal_key)"), ("arg1.merkle_branch", "arg2")]
    c.inst("R5.encode-order", "encode writes [parity|version][internal key][path]", writes == want, "writes %s" % writes, E.f.where(), E.f.path)
    D = Fn(prog, T + "ControlBlock::from_slice")
    got = None
    for cx, s in D.stmts("ret"):
        t = s[1]
        if t[0] == "agg" and t[1].endswith("Result::Ok") and t[3][0][0] == "agg":
            got = dict(zip(t[3][0][2], [sh(x) for x in t[3][0][3]]))
    IDX = "core::slice::index::<impl std::ops::Index<I> for [T]>::index"
    want = {"leaf_version": "taproot::LeafVersion::from_u8((arg1[0] BitAnd 254))", "output_key_parity": "secp256k1_zkp::Parity::from_u8((arg1[0] BitAnd 1))",
            "internal_key": "bitcoin::XOnlyPublicKey::from_slice(%s(arg1, std::ops::Range::Range{1, 33}))" % IDX,
            "merkle_branch": "taproot::TaprootMerkleBranch::from_slice(%s(arg1, std::ops::RangeFrom::RangeFrom{33}))" % IDX}
    c.inst("R5.decode-offsets", "from_slice reads byte0&1, byte0&0xfe, [1..33], [33..]", got == want, "fields %s" % got, D.f.where(), D.f.path)
    MB = Fn(prog, T + "TaprootMerkleBranch::from_slice")
    bad = []
    for n in list(range(0, 200)) + list(range(4000, 4300)):
        r = decide(D.L, {"n": n}, {"core::slice::len(arg1)": "n"})
        wrong_len = n < 33 or (n - 33) % 32 != 0
        if wrong_len != (r[0] == "ret" and r[1].startswith("std::result::Result::Err{taproot::TaprootError::InvalidControlBlockSize")):
            bad.append(("cb", n, r))
        if not wrong_len and not (r[0] == "undecided" and "LeafVersion::from_u8" in r[1]):
            bad.append(("cb-continue", n, r))
        m = n - 33
        if m >= 0:
            r2 = decide(MB.L, {"n": m}, {"core::slice::len(arg1)": "n"})
            exp = "Err{taproot::TaprootError::InvalidMerkleBranchSize" if m % 32 else ("Err{taproot::TaprootError::InvalidMerkleTreeDepth" if m > 4096 else "Ok{taproot::TaprootMerkleBranch::TaprootMerkleBranch{")
            if not (r2[0] == "ret" and r2[1].startswith("std::result::Result::" + exp)):
                bad.append(("branch", m, r2))
    c.inst("R5.length-table", "accepted control block lengths are exactly 33 + 32m, 0 <= m <= 128", not bad, "deviations %s" % bad[:4], D.f.where(), D.f.path)
    mbret = [sh(s[1]) for cx, s in MB.stmts("ret") if "Ok{" in sh(s[1])]
    cl = Fn(prog, T + "TaprootMerkleBranch::from_slice::{closure#0}")
    c.inst("R5.path-decode", "path decoded as consecutive 32-byte chunks in order",
           mbret == ["std::result::Result::Ok{taproot::TaprootMerkleBranch::TaprootMerkleBranch{std::iter::Iterator::collect(std::iter::Iterator::map(core::slice::chunks_exact(arg1, 32), closure:taproot::TaprootMerkleBranch::from_slice::{closure#0}{}))}}"]
           and cl.lines == ["return taproot::TapNodeHash::from_byte_array(std::array::<impl std::convert::TryFrom<&'a [T]> for &'a [T; N]>::try_from(arg2))"], "returns %s; closure %s" % (mbret, cl.lines), MB.f.where(), MB.f.path)
    ME = Fn(prog, T + "TaprootMerkleBranch::encode")
    wr = [(tuple(sh(a) for a in s[2]), [sh(x[1]) for x in cx if x[0] == "while"]) for cx, s in ME.stmts("do")]
    c.inst("R5.path-encode", "path encoded element by element in stored order", wr == [(("arg2", "elem(arg1.0)"), ["discr(next(arg1.0))"])], "writes %s" % wr, ME.f.where(), ME.f.path)
    S = Fn(prog, T + "ControlBlock::size")
    okk = len(S.L) == 1 and S.L[0][0] == "ret"
    if okk:
        try:
            okk = all(ieval(S.L[0][1], {"m": m}, {"core::slice::len(arg1.merkle_branch.0)": "m", "core::slice::len(taproot::TaprootMerkleBranch::as_inner(arg1.merkle_branch))": "m", "std::vec::Vec::len(arg1.merkle_branch.0)": "m"}) == 33 + 32 * m for m in range(0, 140))
        except NoEval:
            okk = False
    c.inst("R5.size", "size() = 33 + 32 * path length", okk, S.text(), S.f.where(), S.f.path)
    LV = Fn(prog, T + "LeafVersion::from_u8")
    bad = []
    for v in range(256):
        r = decide(LV.L, {"arg1": v}, None)
        ok_exp = (v & 1) == 0 and v != 0x50
        if r[0] != "ret" or ok_exp != (r[1] == "std::result::Result::Ok{taproot::LeafVersion::LeafVersion{arg1}}"):
            bad.append((v, r))
    c.inst("R5.leaf-version", "leaf versions accepted: even and not 0x50, over all 256 bytes", not bad, "deviations %s" % bad[:4], LV.f.where(), LV.f.path)
    # leaves added without an explicit version (add_leaf, with_huffman_tree) are tapscript leaves: Default = 0xc4, and the named
    # constants are that byte (a derived Default would be version 0, self-consistent inside the library and wrong against Elements)
    fdv = prog.fn("<taproot::LeafVersion as std::default::Default>::default")
    dv = sh(Prov(fdv.body).local(0))
    cv = [(prog.consts.get(k) or {}).get("val") for k in ("taproot::TAPROOT_LEAF_TAPSCRIPT", "taproot::LeafVersion::TAPSCRIPT")]
    c.inst("R5.leaf-version-default", "LeafVersion::default() = TAPSCRIPT = 0xc4",
           dv in ("taproot::LeafVersion::LeafVersion{196}", "taproot::LeafVersion::TAPSCRIPT", "taproot::LeafVersion::LeafVersion{taproot::TAPROOT_LEAF_TAPSCRIPT}")
           and cv == ["196_u8", "taproot::LeafVersion(196_u8)"], "default() returns %s; constants %s" % (dv, cv), fdv.where(), fdv.path)
    for nm, want in (("TAPROOT_LEAF_MASK", "254_u8"), ("TAPROOT_LEAF_TAPSCRIPT", "196_u8"), ("TAPROOT_CONTROL_BASE_SIZE", "33_usize"), ("TAPROOT_CONTROL_NODE_SIZE", "32_usize"),
                     ("TAPROOT_CONTROL_MAX_NODE_COUNT", "128_usize"), ("TAPROOT_CONTROL_MAX_SIZE", "4129_usize")):
        v = (prog.consts.get(T + nm) or {}).get("val")
        c.inst("R5.constants", nm, v == want, "evaluated %s, expected %s" % (v, want), None, T + nm)
    FI = Fn(prog, T + "TaprootMerkleBranch::from_inner")
    bad = []
    for n in range(0, 200):
        r = decide(FI.L, {"n": n}, {"std::vec::Vec::len(arg1)": "n"})
        if r[0] != "ret" or (n > 128) != r[1].startswith("std::result::Result::Err{taproot::TaprootError::InvalidMerkleTreeDepth"):
            bad.append((n, r))
    c.inst("R3.path-limit", "from_inner refuses more than 128 elements", not bad, "deviations %s" % bad[:4], FI.f.where(), FI.f.path)
    # ------------------------------------------------------------- R6 builder
    I = Fn(prog, T + "TaprootBuilder::insert")
    node = [k for k, v in I.names.items() if v == "node"]
    depth = [k for k, v in I.names.items() if v is not None and v == "depth"]
    # the depth variable: the (re)assigned argument named `depth`; failing that, the variable the combine loop compares with the pending length
    dvs = [k for k, v in I.names.items() if v == "depth"]
    if not dvs:
        for cx, s in I.flat:
            if s[0] == "loop":
                m = re.search(r"var\('(v\d+)',\)", sh(s[1]))
                if m:
                    dvs = [m.group(1)]
    if not dvs:
        raise CannotDecide("insert: depth variable not found")
    dv = dvs[0]
    bad = []
    LEN = "std::vec::Vec::len(arg1.branch)"
    for d in list(range(0, 8)) + [127, 128, 129, 130, 1000]:
        for ln in list(range(0, 10)) + [128, 129, 130, 131]:
            r = decide(I.L, {dv: d, "len": ln}, {LEN: "len"})
            if d > 128:
                exp = ("ret", "std::result::Result::Err{taproot::TaprootBuilderError::InvalidMerkleTreeDepth{var('%s',)}}" % dv)
            elif d + 1 < ln:
                exp = ("ret", "std::result::Result::Err{taproot::TaprootBuilderError::NodeNotInDfsOrder{}}")
            elif ln == d + 1:
                exp = ("loop", None)
            else:
                exp = ("notloop", None)
            if exp[0] == "ret" and r != exp:
                bad.append((d, ln, r))
            elif exp[0] == "loop" and r[0] != "loop":
                bad.append((d, ln, r))
            elif exp[0] == "notloop" and r[0] in ("loop",):
                bad.append((d, ln, r))
            elif exp[0] == "notloop" and r[0] == "ret" and "Err" in r[1]:
                bad.append((d, ln, r))
    c.inst("R6.insert-guards", "depth > 128 refused; depth + 1 < len refused (not DFS order); combine loop runs iff len == depth + 1", not bad, "deviations %s" % bad[:4], I.f.where(), I.f.path)
    loopctx = lambda cx: [x for x in cx if x[0] == "while"]
    inloop = [(cx, s) for cx, s in I.flat if loopctx(cx)]
    POP = "some(std::vec::Vec::pop(arg1.branch))"
    seen = {"none-push": False, "over": False, "combine": False, "dec": False}
    nv = None
    for cx, s in inloop:
        wi = max(i for i, x in enumerate(cx) if x[0] == "while")
        labs = [(sh(x[1]), x[2]) for x in cx[wi + 1:] if x[0] == "if"]
        if s[0] == "do" and s[1].endswith("Vec::<T, A>::push") and tuple(sh(a) for a in s[2]) == ("arg1.branch", "std::option::Option::None{}") and labs[:1] == [("discr(%s)" % POP, "=0")]:
            seen["none-push"] = True
        if s[0] == "ret" and sh(s[1]) == "std::result::Result::Err{taproot::TaprootBuilderError::OverCompleteTree{}}" and labs == [("discr(%s)" % POP, "=1"), ("(var('%s',) Eq 0)" % dv, "otherwise")]:
            seen["over"] = True
        if s[0] == "set" and s[2][0] == "call" and s[2][1] == "taproot::NodeInfo::combine":
            a0, a1 = sh(s[2][2][0]), sh(s[2][2][1])
            # argument order only decides the order of the leaf list (C07's concern), not the hash or any path
            if {a0, a1} == {"some(%s)" % POP, sh(s[1])} and labs[:2] == [("discr(%s)" % POP, "=1"), ("(var('%s',) Eq 0)" % dv, "=0")]:
                seen["combine"] = True
                nv = sh(s[1])
        if s[0] == "set" and sh(s[1]) == "var('%s',)" % dv:
            try:
                if all(ieval(s[2], {dv: d}) == d - 1 for d in range(1, 130)):
                    seen["dec"] = True
            except NoEval:
                pass
    c.inst("R6.insert-loop", "loop body: popped None is put back (stop); depth 0 => OverCompleteTree; node := combine(popped child, node); depth -= 1", all(seen.values()),
           "found %s" % seen, I.f.where(), I.f.path)
    stores = [(sh(s[1]), sh(s[2]), [sh(x[1]) for x in cx if x[0] == "while"]) for cx, s in I.stmts("store")]
    sets = {sh(s[1]): sh(s[2]) for cx, s in I.stmts("set")}
    good = bool(stores) and all(sets.get(t) == "<std::vec::Vec<T, A> as std::ops::IndexMut<I>>::index_mut(arg1.branch, var('%s',))" % dv and v == "std::option::Option::Some{%s}" % (nv or "?") for t, v, _ in stores)
    c.inst("R6.insert-store", "branch[depth] := Some(node) on every successful exit", good and len(stores) == len([1 for cx, s in I.stmts("ret") if sh(s[1]) == "std::result::Result::Ok{arg1}"]),
           "stores %s" % stores, I.f.where(), I.f.path)
    ext = [(tuple(sh(a) for a in s[2]), [(sh(x[1]), x[2]) for x in cx if x[0] == "if"][-1:]) for cx, s in I.stmts("do") if s[1].endswith("Extend<T>>::extend")]
    wantext = (("arg1.branch", "std::iter::Iterator::map(std::ops::Range::Range{0, ((var('%s',) AddWithOverflow 1).0 SubWithOverflow %s).0}, closure:taproot::TaprootBuilder::insert::{closure#0}{})" % (dv, LEN)),
               [("(%s Lt (var('%s',) AddWithOverflow 1).0)" % (LEN, dv), "otherwise")])
    c.inst("R6.insert-extend", "branch padded with depth + 1 - len empty slots only when shorter", bool(ext) and all(e == wantext for e in ext), "extends %s" % ext[:2], I.f.where(), I.f.path)
    for nm, want in (("add_leaf_with_ver", "return taproot::TaprootBuilder::insert(arg1, taproot::NodeInfo::new_leaf_with_ver(arg3, arg4), arg2)"),
                     ("add_hidden", "return taproot::TaprootBuilder::insert(arg1, taproot::NodeInfo::new_hidden(arg3), arg2)"),
                     ("add_leaf", "return taproot::TaprootBuilder::add_leaf_with_ver(arg1, arg2, arg3, <taproot::LeafVersion as std::default::Default>::default())")):
        F = Fn(prog, T + "TaprootBuilder::" + nm)
        c.inst("R6.entry-points", nm, F.lines == [want], F.text(), F.f.where(), F.f.path)
    F = Fn(prog, T + "TaprootBuilder::finalize")
    bad = []
    for ln in range(0, 6):
        r = decide(F.L, {"len": ln}, {LEN: "len"})
        if (ln > 1) != (r == ("ret", "std::result::Result::Err{taproot::TaprootBuilderError::IncompleteTree{}}")):
            bad.append((ln, r))
    okors = []
    for bi, t in F.f.body.calls(lambda t: callee_name(t).endswith("::ok_or")):
        p = Prov(F.f.body)
        okors.append(tuple(sh(p.operand(a, False)) for a in t["args"]))
    okors_s = sorted(o[1] for o in okors if len(o) == 2)
    rets = [sh(s[1]) for cx, s in F.stmts("ret") if "Ok{" in sh(s[1])]
    c.inst("R6.finalize", "more than one pending entry => IncompleteTree; no entry => EmptyTree; empty slot => IncompleteTree; else spend info of the single node",
           not bad and okors_s == ["taproot::TaprootBuilderError::EmptyTree{}", "taproot::TaprootBuilderError::IncompleteTree{}"]
           and rets == ["std::result::Result::Ok{taproot::TaprootSpendInfo::from_node_info(arg2, arg3, std::vec::Vec::pop(arg1.branch))}"],
           "length deviations %s; ok_or %s; returns %s" % (bad, okors, rets), F.f.where(), F.f.path)
    # ------------------------------------------------------------- R7 Huffman
    H = Fn(prog, T + "TaprootSpendInfo::with_huffman_tree")
    hb = H.f.body
    hty = [l["ty"] for l in hb.locals if l["name"] == "node_weights"]
    c.inst("R7.heap-type", "node heap is a min-heap on weight: BinaryHeap<(Reverse<u64>, NodeInfo)>", hty == ["std::collections::BinaryHeap<(std::cmp::Reverse<u64>, taproot::NodeInfo)>"], "type %s" % hty, H.f.where(), H.f.path)
    HEAP = "std::collections::BinaryHeap::new()"
    POPH = "std::collections::BinaryHeap::pop(%s)" % HEAP
    mloops = [(cx, s) for cx, s in H.flat if s[0] == "loop"]
    lcs = [(sh(s[1]), s[2]) for cx, s in mloops]
    c.inst("R7.merge-loop", "leaves pushed first; merging continues while more than one node remains",
           lcs == [("discr(next(arg3))", "=1"), ("(std::collections::BinaryHeap::len(%s) Gt 1)" % HEAP, "otherwise")], "loops %s" % lcs, H.f.where(), H.f.path)
    inm = [(cx, s) for cx, s in H.flat if any(x[0] == "while" and "BinaryHeap::len" in sh(x[1]) for x in cx) and s[0] == "do"]
    got = [(s[1].split("::")[-1], tuple(sh(a) for a in s[2])) for cx, s in inm]
    COMB = "taproot::NodeInfo::combine(%s.1, %s.1)" % (POPH, POPH)
    want = [("pop", (HEAP,)), ("pop", (HEAP,)),
            ("push", (HEAP, "tuple{std::cmp::Reverse::Reverse{core::num::saturating_add(%s.0.0, %s.0.0)}, %s}" % (POPH, POPH, COMB)))]
    c.inst("R7.merge-step", "each step pops the two lightest nodes and pushes their combination with the saturating sum of weights", got == want, "loop body %s" % got, H.f.where(), H.f.path)
    first = [(s[1].split("::")[-1], tuple(sh(a) for a in s[2])) for cx, s in H.flat if s[0] == "do" and cx and sh(cx[0][1]) == "discr(next(arg3))"]
    want = [("push", (HEAP, "tuple{std::cmp::Reverse::Reverse{std::convert::num::<impl std::convert::From<u32> for u64>::from(elem(arg3).0)}, "
                            "taproot::NodeInfo::new_leaf_with_ver(elem(arg3).1, <taproot::LeafVersion as std::default::Default>::default())}"))]
    c.inst("R7.leaves", "every (weight, script) becomes a leaf node keyed by its weight", first == want, "pushes %s" % first, H.f.where(), H.f.path)
    bad = []
    r = [(cx, s) for cx, s in H.stmts("ret")]
    emp = [sh(s[1]) for cx, s in r if [(sh(x[1]), x[2]) for x in cx] == [("std::collections::BinaryHeap::is_empty(%s)" % HEAP, "otherwise")]]
    fin = [sh(s[1]) for cx, s in r if "Ok{" in sh(s[1])]
    c.inst("R7.ends", "empty input => IncompleteTree; result = spend info of the last remaining node",
           emp == ["std::result::Result::Err{taproot::TaprootBuilderError::IncompleteTree{}}"] and fin == ["std::result::Result::Ok{taproot::TaprootSpendInfo::from_node_info(arg1, arg2, %s.1)}" % POPH],
           "empty arm %s; final %s" % (emp, fin), H.f.where(), H.f.path)
    # ------------------------------------------------------------- R8 key tweaks
    F = Fn(prog, "<bitcoin::XOnlyPublicKey as schnorr::TapTweak>::tap_tweak")
    AT = "bitcoin::XOnlyPublicKey::add_tweak(arg1, arg2, taproot::TapTweakHash::to_scalar(taproot::TapTweakHash::from_key_and_tweak(arg1, arg3)))"
    rets = [sh(s[1]) for cx, s in F.stmts("ret")]
    c.inst("R8.pubkey-tweak", "Q = P + H_tweak(P || root) G with the parity add_tweak reports", rets == ["tuple{schnorr::TweakedPublicKey::TweakedPublicKey{%s.0}, %s.1}" % (AT, AT)], "returns %s" % rets, F.f.where(), F.f.path)
    F = Fn(prog, "<secp256k1_zkp::Keypair as schnorr::TapTweak>::tap_tweak")
    rets = [sh(s[1]) for cx, s in F.stmts("ret")]
    want = "schnorr::TweakedKeypair::TweakedKeypair{secp256k1_zkp::Keypair::add_xonly_tweak(arg1, arg2, taproot::TapTweakHash::to_scalar(taproot::TapTweakHash::from_key_and_tweak(bitcoin::XOnlyPublicKey::from_keypair(arg1).0, arg3)))}"
    c.inst("R8.keypair-tweak", "q = p + H_tweak(P || root) with P the pair's own x-only key (same hash as the public-key tweak)", rets == [want], "returns %s" % rets, F.f.where(), F.f.path)
    F = Fn(prog, T + "TaprootSpendInfo::tap_tweak")
    c.inst("R8.spend-info-tweak", "tap_tweak() = H_tweak(internal_key, merkle_root)", F.lines == ["return taproot::TapTweakHash::from_key_and_tweak(arg1.internal_key, arg1.merkle_root)"], F.text(), F.f.where(), F.f.path)
    for r, n in (("R1.tag-midstate", 4), ("R1.newtype-tag", 3), ("R1.engine-tag", 4), ("R3.branch-order", 2), ("R3.path-push", 2), ("R3.path-limit", 2), ("R5.constants", 6),
                 ("R5.length-table", 1), ("R5.leaf-version", 1), ("R6.insert-guards", 1), ("R6.insert-loop", 1), ("R6.finalize", 1), ("R7.merge-step", 1), ("R8.pubkey-tweak", 1)):
        c.floor(r, n, "counted by hand")

"""C18 — fast_merkle_root: agreement of the function's structured listing with the reference
incremental algorithm (Elements Core's ComputeFastMerkleRoot), component by component.

What is decided: the *shape* clauses — empty => zero, leaf i enters as Midstate::new(leaves[i], 64),
every combination is compress(inner[level] || running) with the stored subtree on the LEFT, the
carry loop runs exactly while bit `level` of count is clear, the finished subtree is stored at
inner[level], the sweep starts at the lowest set bit, promotes the running hash unchanged
(count += 1 << level) and combines on the way up, and terminates when count == 1 << level.
Integer conditions/updates/indices are compared *semantically* (as functions on a finite grid of
(count, level, n)), hash terms structurally. Equality with the definitional tree for every n
follows from these clauses by the loop invariant given in DESIGN.md; that final step is a paper
argument, not something this check evaluates."""
import re

from ..analysis import effects
from ..facts import CannotDecide
from ..mir import Prov, show
from ..structured import listing, Unstructured
from ..ieval import ieval, NoEval

GRID = [{"count": cnt, "level": lv, "#n": n} for cnt in range(0, 70) for lv in range(0, 8) for n in (0, 1, 2, 3, 5, 8, 69, 70)]


class Matcher:
    def __init__(self, c, f):
        self.c = c
        self.f = f
        self.bind = {}       # spec name -> actual var
        self.bad = []

    def var(self, spec, t):
        if t[0] != "var":
            return False
        if spec in self.bind:
            return self.bind[spec] == t[1]
        if t[1] in self.bind.values():
            return False
        self.bind[spec] = t[1]
        return True

    def same_int(self, t, fn, roles, dom=None):
        """t (actual term over bound vars) == fn(count, level, n) on the grid restricted to the states that can
        reach the statement (dom); roles: spec names of (count, level)"""
        try:
            for g in GRID:
                if dom is not None and not dom(g["count"], g["level"], g["#n"]):
                    continue
                env = {"#n": g["#n"]}
                if roles[0] in self.bind:
                    env[self.bind[roles[0]]] = g["count"]
                if roles[1] in self.bind:
                    env[self.bind[roles[1]]] = g["level"]
                if ieval(t, env) != fn(g["count"], g["level"], g["#n"]):
                    return False
            return True
        except NoEval:
            return False


def _as_bytes(t):
    """as_parts(X).0 -> X"""
    if t[0] == "fld" and t[3] == "0" and t[1][0] == "call" and t[1][1] == "hashes::sha256::Midstate::as_parts" and len(t[1][2]) == 1:
        return t[1][2][0]
    return None


def run(c, prog, ctx):
    c.explanation = (
        "Static decision of the shape clauses of C18: the structured (while/if) listing of fast_merkle_root extracted from MIR is "
        "matched against the reference incremental algorithm component by component. Integer conditions, counter updates and array "
        "indices are compared semantically on a grid of (count, level, n) values; hash terms structurally (stored subtree left, "
        "running hash right; leaves enter in index order as Midstate::new(leaf, 64)); sha256midstate feeds left then right into one "
        "fresh engine. The all-n equality with the definitional tree follows by the loop invariant in DESIGN.md and is not evaluated here.")
    c.assume("hashes::sha256::{HashEngine::input, midstate, Midstate::new/as_parts} behave as documented (dependency)")
    g = prog.fn("fast_merkle_root::sha256midstate")
    ret = re.sub(r"@engine#\d+", "", show(Prov(g.body).local(0), -20))
    effs = [(e["callee"], tuple(re.sub(r"@engine#\d+", "", show(a, -20)) for a in e.get("args", ()))) for e in effects(g.body) if e["kind"] == "mutarg"]
    INP = "<hashes::sha256::HashEngine as hashes::HashEngine>::input"
    ENG = "hashes::Sha256::engine()"
    c.inst("R1.compress", "sha256midstate = midstate of a fresh engine fed left then right",
           ret == "hashes::sha256::HashEngine::midstate(%s)" % ENG and effs == [(INP, (ENG, "arg1")), (INP, (ENG, "arg2"))],
           "returns %s; engine writes %s" % (ret, effs), g.where(), g.path)
    f = prog.fn("fast_merkle_root::fast_merkle_root")
    try:
        L, names = listing(f.body)
    except Unstructured as e:
        raise CannotDecide("fast_merkle_root is not a while/if program: %s" % e)
    m = Matcher(c, f)

    def fail(rule, what, detail):
        c.inst(rule, what, False, detail, f.where(), f.path)

    def ok(rule, what, detail=""):
        c.inst(rule, what, True, detail, f.where(), f.path)

    def sh(t):
        return show(t, -20)

    # ---- top level: result := default ; if is_empty { ret result } else {...}
    stmts = [s for s in L]
    sets0 = [s for s in stmts if s[0] == "set"]
    ifs = [s for s in stmts if s[0] == "if"]
    if len(ifs) != 1 or len(sets0) > 1:
        raise CannotDecide("top level of fast_merkle_root is not `init; if leaves.is_empty()`")
    init_ok = (len(sets0) == 1 and m.var("result", sets0[0][1]) and sets0[0][2][0] == "call"
               and sets0[0][2][1].endswith("<hashes::sha256::Midstate as std::default::Default>::default"))
    iff = ifs[0]
    cond_ok = iff[1][0] == "call" and iff[1][1].endswith("::is_empty") and iff[1][2] == (("arg", 1),)
    if not cond_ok:
        raise CannotDecide("top-level branch is not on leaves.is_empty(): %s" % sh(iff[1]))
    empty_arm = iff[2].get("otherwise")
    main = iff[2].get("=0")
    c.inst("R2.empty", "empty list returns the default (all-zero) midstate before anything else",
           init_ok and empty_arm is not None and len(empty_arm) == 1 and empty_arm[0][0] == "ret" and m.var("result", empty_arm[0][1]),
           "init %s; empty arm %s" % ([sh(s[2]) for s in sets0], [(s[0], sh(s[1])) for s in empty_arm or []]), f.where(), f.path)
    if main is None:
        raise CannotDecide("no non-empty arm")
    loops = [s for s in main if s[0] == "while"]
    if len(loops) != 3:
        fail("R0.skeleton", "three top-level loops (leaf loop, skip loop, sweep loop)", "found %d" % len(loops))
        return
    leaf_loop, skip_loop, sweep_loop = loops
    pre = main[:main.index(leaf_loop)]
    mid1 = main[main.index(leaf_loop) + 1:main.index(skip_loop)]
    mid2 = main[main.index(skip_loop) + 1:main.index(sweep_loop)]
    post = main[main.index(sweep_loop) + 1:]

    def runs(loop):
        # value of cond for which the loop continues
        return (lambda v: bool(v)) if loop[2] == "otherwise" else (lambda v, k=int(loop[2][1:]): v == k)

    def cond_same(loop, fn, roles, rule, what, dom):
        r = runs(loop)
        try:
            good = True
            for gq in GRID:
                if not dom(gq["count"], gq["level"], gq["#n"]):
                    continue
                env = {"#n": gq["#n"]}
                if roles[0] in m.bind:
                    env[m.bind[roles[0]]] = gq["count"]
                if roles[1] in m.bind:
                    env[m.bind[roles[1]]] = gq["level"]
                if r(ieval(loop[1], env)) != bool(fn(gq["count"], gq["level"], gq["#n"])):
                    good = False
                    break
        except NoEval as e:
            good = False
        c.inst(rule, what, good, "condition %s (loop continues on %s)" % (sh(loop[1]), loop[2]), f.where(), f.path)

    # Reachable-state domains (the loop invariants of the paper proof; comparing outside them would flag
    # rewrites that agree on every reachable state, e.g. `count > 1 << level` for `count != 1 << level`):
    #   leaf loop header: count <= n;  after count += 1: 1 <= count <= n
    #   carry / skip / combine headers: count >= 1 and bits below `level` of count are clear
    #   sweep header: additionally bit `level` of count is set
    D_LEAF = lambda cnt, lv, n: cnt <= n
    D_LEAF0 = lambda cnt, lv, n: cnt < n
    D_LEAF1 = lambda cnt, lv, n: 1 <= cnt <= n
    D_LOW = lambda cnt, lv, n: cnt >= 1 and cnt % (1 << lv) == 0
    D_BODY = lambda cnt, lv, n: cnt >= 1 and cnt % (1 << lv) == 0 and (cnt >> lv) & 1 == 0
    D_SET = lambda cnt, lv, n: cnt >= 1 and cnt % (1 << lv) == 0 and (cnt >> lv) & 1 == 1
    D_SWEEP_BODY = lambda cnt, lv, n: D_SET(cnt, lv, n) and cnt != (1 << lv)
    # ---- pre: inner := default array; count := 0
    pre_sets = {}
    for s in pre:
        if s[0] == "set":
            pre_sets[sh(s[2])] = s
    inner_init = [s for s in pre if s[0] == "set" and s[2][0] == "call" and "default" in s[2][1]]
    count_init = [s for s in pre if s[0] == "set" and s[2][0] == "const"]
    good = len(inner_init) == 1 and m.var("inner", inner_init[0][1]) and len(count_init) == 1 and m.var("count", count_init[0][1]) and count_init[0][2][2] == 0
    c.inst("R3.init", "inner := default; count := 0", good and len(pre) == 2, "pre-loop statements %s" % [(sh(s[1]), sh(s[2])) for s in pre if s[0] == "set"], f.where(), f.path)
    # ---- leaf loop
    cond_same(leaf_loop, lambda cnt, lv, n: cnt < n, ("count", "level"), "R3.leaf-loop-cond", "leaf loop runs while count < leaves.len()", D_LEAF)
    body = leaf_loop[3]
    inner_loops = [s for s in body if s[0] == "while"]
    if len(inner_loops) != 1:
        fail("R0.skeleton", "leaf loop contains one carry loop", "found %d" % len(inner_loops))
        return
    carry = inner_loops[0]
    b_pre = body[:body.index(carry)]
    b_post = body[body.index(carry) + 1:]
    # b_pre: temp := Midstate::new(leaves[count], 64); count := count+1; level := 0  (temp before count++)
    seen_inc = False
    got = {"temp": None, "inc": None, "lvl": None}
    for s in b_pre:
        if s[0] != "set":
            continue
        v = s[2]
        if v[0] == "call" and v[1] == "hashes::sha256::Midstate::new":
            got["temp"] = (s, seen_inc)
        elif s[1][0] == "var" and s[1][1] == m.bind.get("count"):
            got["inc"] = s
            seen_inc = True
        elif v[0] == "const":
            got["lvl"] = s
    t_ok = False
    if got["temp"] is not None:
        s, after_inc = got["temp"]
        v = s[2]
        a0, a1 = v[2]
        idx_fn = (lambda cnt, lv, n: cnt - 1) if after_inc else (lambda cnt, lv, n: cnt)
        t_ok = (m.var("temp", s[1]) and a0[0] == "idx" and a0[1] == ("arg", 1) and m.same_int(a0[2], idx_fn, ("count", "level"), D_LEAF1 if after_inc else D_LEAF0)
                and a1[0] == "const" and a1[2] == 64)
    c.inst("R3.leaf-entry", "leaf number count enters as Midstate::new(leaves[count], 64)", t_ok,
           "statement %s" % (sh(got["temp"][0][2]) if got["temp"] else None), f.where(), f.path)
    c.inst("R3.count-inc", "count := count + 1 once per leaf, before the carry loop",
           got["inc"] is not None and m.same_int(got["inc"][2], lambda cnt, lv, n: cnt + 1, ("count", "level"), D_LEAF0) and len([s for s in b_pre if s[0] == "set"]) == 3,
           "statement %s" % (sh(got["inc"][2]) if got["inc"] else None), f.where(), f.path)
    c.inst("R3.level-reset", "level := 0 before the carry loop", got["lvl"] is not None and m.var("level", got["lvl"][1]) and got["lvl"][2][2] == 0,
           "statement %s" % (sh(got["lvl"][2]) if got["lvl"] else None), f.where(), f.path)
    cond_same(carry, lambda cnt, lv, n: (cnt & (1 << lv)) == 0, ("count", "level"), "R3.carry-cond", "carry loop runs while bit `level` of count is clear", D_LOW)

    def combine_ok(loop_body, acc, lvl, rule, what):
        sets = [s for s in loop_body if s[0] == "set"]
        hs = [s for s in sets if s[2][0] == "call" and s[2][1] == "fast_merkle_root::sha256midstate"]
        inc = [s for s in sets if s not in hs]
        good = len(hs) == 1 and len(inc) == 1 and len(loop_body) == 2
        d = ""
        if good:
            h = hs[0]
            l, r = _as_bytes(h[2][2][0]), _as_bytes(h[2][2][1])
            d = "%s := %s ; %s := %s" % (sh(h[1]), sh(h[2]), sh(inc[0][1]), sh(inc[0][2]))
            good = (m.var(acc, h[1]) and l is not None and r is not None and l[0] == "idx" and m.var("inner", l[1])
                    and m.same_int(l[2], lambda cnt, lv, n: lv, ("count", lvl), D_BODY) and m.var(acc, r)
                    and loop_body.index(h) < loop_body.index(inc[0])
                    and m.var(lvl, inc[0][1]) and m.same_int(inc[0][2], lambda cnt, lv, n: lv + 1, ("count", lvl), D_BODY))
        c.inst(rule, what, good, d or "statements %s" % [(s[0], sh(s[1])) for s in loop_body], f.where(), f.path)

    combine_ok(carry[3], "temp", "level", "R3.carry-combine", "temp := compress(inner[level] || temp); level += 1  (stored subtree on the left)")
    st = [s for s in b_post if s[0] == "set"]
    good = (len(b_post) == 1 and len(st) == 1 and st[0][1][0] == "idx" and m.var("inner", st[0][1][1])
            and m.same_int(st[0][1][2], lambda cnt, lv, n: lv, ("count", "level"), D_SET) and m.var("temp", st[0][2]))
    c.inst("R3.store", "inner[level] := temp after the carry loop", good, "statements %s" % [(sh(s[1]), sh(s[2])) for s in st], f.where(), f.path)
    # ---- skip loop
    st = [s for s in mid1 if s[0] == "set"]
    good = len(mid1) == 1 and len(st) == 1 and st[0][2][0] == "const" and st[0][2][2] == 0 and m.var("lvl2", st[0][1])
    c.inst("R4.sweep-level-init", "sweep level := 0", good, "statements %s" % [(sh(s[1]), sh(s[2])) for s in st], f.where(), f.path)
    cond_same(skip_loop, lambda cnt, lv, n: (cnt & (1 << lv)) == 0, ("count", "lvl2"), "R4.skip-cond", "skip loop runs while bit `level` of count is clear", D_LOW)
    sb = skip_loop[3]
    good = len(sb) == 1 and sb[0][0] == "set" and m.var("lvl2", sb[0][1]) and m.same_int(sb[0][2], lambda cnt, lv, n: lv + 1, ("count", "lvl2"), D_BODY)
    c.inst("R4.skip-body", "skip loop only increments level", good, "statements %s" % [(s[0], sh(s[1]), sh(s[2])) for s in sb if s[0] == "set"], f.where(), f.path)
    # statements that only introduce another captured value are judged where that value is used, not here
    st = [s for s in mid2 if s[0] == "set" and s[2][0] == "idx"]
    good = (len(st) == 1 and all(s[0] == "set" for s in mid2) and m.var("result", st[0][1]) and st[0][2][0] == "idx" and m.var("inner", st[0][2][1])
            and m.same_int(st[0][2][2], lambda cnt, lv, n: lv, ("count", "lvl2"), D_SET))
    c.inst("R4.sweep-start", "result := inner[lowest set bit of count]", good, "statements %s" % [(sh(s[1]), sh(s[2])) for s in st], f.where(), f.path)
    # ---- sweep loop
    cond_same(sweep_loop, lambda cnt, lv, n: cnt != (1 << lv), ("count", "lvl2"), "R4.sweep-cond", "sweep runs until count == 1 << level", D_SET)
    wb = sweep_loop[3]
    inner2 = [s for s in wb if s[0] == "while"]
    if len(inner2) != 1:
        fail("R0.skeleton", "sweep loop contains one combine loop", "found %d" % len(inner2))
        return
    wpre = wb[:wb.index(inner2[0])]
    wpost = wb[wb.index(inner2[0]) + 1:]
    st = [s for s in wpre if s[0] == "set"]
    good = len(wpre) == 2 and len(st) == 2 and not wpost
    if good:
        cs = [s for s in st if s[1] == ("var", m.bind.get("count"))]
        ls = [s for s in st if s[1] == ("var", m.bind.get("lvl2"))]
        good = (len(cs) == 1 and len(ls) == 1 and wpre.index(cs[0]) < wpre.index(ls[0])
                and m.same_int(cs[0][2], lambda cnt, lv, n: cnt + (1 << lv), ("count", "lvl2"), D_SWEEP_BODY)
                and m.same_int(ls[0][2], lambda cnt, lv, n: lv + 1, ("count", "lvl2"), D_SWEEP_BODY))
    c.inst("R4.promote", "unpaired node promoted unchanged: count += 1 << level; level += 1 (no hashing)", good,
           "statements %s" % [(sh(s[1]), sh(s[2])) for s in st], f.where(), f.path)
    cond_same(inner2[0], lambda cnt, lv, n: (cnt & (1 << lv)) == 0, ("count", "lvl2"), "R4.combine-cond", "combine loop runs while bit `level` of count is clear", D_LOW)
    combine_ok(inner2[0][3], "result", "lvl2", "R4.combine", "result := compress(inner[level] || result); level += 1")
    good = len(post) == 1 and post[0][0] == "ret" and m.var("result", post[0][1])
    c.inst("R4.return", "returns the swept result", good, "statements %s" % [(s[0], sh(s[1])) for s in post], f.where(), f.path)
    c.sample({"rule": "binding", "spec_to_source": {k: names.get(v) for k, v in m.bind.items()}})
    for r in ("R1.compress", "R2.empty", "R3.init", "R3.leaf-loop-cond", "R3.leaf-entry", "R3.count-inc", "R3.level-reset", "R3.carry-cond",
              "R3.carry-combine", "R3.store", "R4.sweep-level-init", "R4.skip-cond", "R4.skip-body", "R4.sweep-start", "R4.sweep-cond",
              "R4.promote", "R4.combine-cond", "R4.combine", "R4.return"):
        c.floor(r, 1, "one instance per component of the algorithm")

"""C13 — sighash cache consistency: all-prevouts data only under !ANYONECANPAY, cache
read-set disjoint from what the API can hand out mutably, single-writer caches, Prevouts
decision tables."""
import re

from ..analysis import events, cond_desc, effects, fields_read_transitively, ret_assignments, err_returns, try_edges_after
from ..mir import Prov, Guards, show, callee_name, walk_term, field_accesses

SC = "sighash::SighashCache::<R>"
ACP = "sighash::SchnorrSighashType::split_anyonecanpay_flag(arg7).1"


def run(c, prog, ctx):
    c.explanation = (
        "Static decision of C13's structural content: (R1) in taproot_encode_signing_data_to every use of data that needs all "
        "prevouts (Prevouts::get_all, the prevout-keyed taproot cache) is dominated by the anyone_can_pay == false edge, "
        "and the ANYONECANPAY side only uses Prevouts::get(input_index); get_all's error is propagated; (R2) the transitive "
        "field read-set of the three cache builders is disjoint from the only place the API hands out mutably "
        "(TxInWitness.script_witness via witness_mut) and no other public method returns &mut into the transaction; (R3) the "
        "three Option caches are written only by new() (None) and by get_or_insert_with in their own accessor, never "
        "reset; (R4) Prevouts::{check_all,get_all,get} decision tables. Together: a cached value is a pure function of data "
        "no API can change, so any query order gives the fresh answer. Stale taproot_cache across *different* prevout lists "
        "is outside the property's quantifier.")
    c.assume("callers pass the same spent outputs to successive taproot queries (property's quantifier)")
    f = prog.fn(SC + "::taproot_encode_signing_data_to")
    b = f.body

    # ---- R1
    # the cache accessor is looked into as well: a get_all moved inside it is still a get_all of this query
    ev = events(b, lambda t: re.search(r"Prevouts::<'_, T>::(get_all|get|check_all)$|SighashCache::<R>::(taproot_cache|common_cache|segwit_cache)$", callee_name(t)) is not None,
                inline=r"SighashCache::<R>::taproot_cache$")
    n_all = 0
    for e in ev:
        cd = cond_desc(b, e["conds"])
        nm = e["name"].split("::")[-1]
        if nm in ("get_all", "taproot_cache"):
            n_all += 1
            c.inst("R1.all-prevouts-only-without-acp", "%s#%d" % (nm, n_all), (ACP, "false") in cd,
                   "%s is used on a path where anyone_can_pay may be true: with Prevouts::One the query fails with PrevoutKind "
                   "although ANYONECANPAY only needs the prevout of the signed input; guards %s" % (nm, cd), f.where(e["t"]["sp"]), f.path)
            if nm == "get_all":
                # "a single spent output for a type that needs all of them is reported as an error" holds for every query, whatever
                # was asked before: besides anyone_can_pay == false (and `?` edges) nothing decides whether get_all runs
                other = [(d, l) for d, l in cond_desc(b, e["conds"]) if d != ACP]
                c.inst("R1.get_all-on-every-query", "get_all#%d" % n_all, not other,
                       "whether get_all (and with it the PrevoutKind error) is evaluated depends on %s" % other, f.where(e["t"]["sp"]), f.path)
                te = try_edges_after(b, e["bb"])
                c.inst("R1.get_all-error-propagates", "get_all#%d" % n_all, bool(te and te[1] is not None),
                       "PrevoutKind from get_all is not propagated", f.where(e["t"]["sp"]), f.path)
        if nm == "get":
            c.inst("R1.acp-uses-single-prevout", "Prevouts::get(input_index) under ACP",
                   (ACP, "true") in cd and [show(a) for a in e["args"]] == ["arg4", "arg3"],
                   "args %s guards %s" % ([show(a) for a in e["args"]], cd), f.where(e["t"]["sp"]), f.path)
        if nm == "check_all":
            c.inst("R1.check_all-first", "check_all(&self.tx) unconditional", not cd and [show(a) for a in e["args"]] == ["arg4", "arg1.tx"],
                   "guards %s" % cd, f.where(e["t"]["sp"]), f.path)
    c.floor("R1.all-prevouts-only-without-acp", 8, "4 x (get_all + taproot_cache) on the repaired tree")
    c.inst("R1.acp-branch-exists", "one Prevouts::get call", sum(1 for e in ev if e["name"].endswith("::get")) == 1, "", f.where(), f.path)
    c.sample({"rule": "R1", "events": [(e["name"].split("::")[-1], cond_desc(b, e["conds"])) for e in ev][:12]})

    # ---- R2 cache purity
    builders = [SC + "::common_cache_minimal_borrow", SC + "::segwit_cache", SC + "::taproot_cache_minimal_borrow"]
    owners = {"transaction::Transaction", "transaction::TxIn", "transaction::TxOut", "transaction::TxInWitness",
              "transaction::TxOutWitness", "transaction::OutPoint", "transaction::AssetIssuance"}
    cache_reads = set()
    for bp in builders:
        r, defs = fields_read_transitively(prog, bp, owners)
        cache_reads |= r
        c.stats["reach:" + bp.split("::")[-1]] = len(defs)
    # what can be handed out mutably
    handed = set()
    pubmut = []
    for path, fn in prog.fns.items():
        j = fn.j
        if j.get("impl_self", "").startswith("sighash::SighashCache<") and j.get("pub") and "&mut" in j.get("output", ""):
            pubmut.append(path)
    c.inst("R2.mut-handouts", "only witness_mut returns &mut", pubmut == [SC + "::witness_mut"], "public &mut-returning methods: %s" % pubmut, f.where(), SC)
    wm = prog.fn(SC + "::witness_mut")
    for fn in [wm] + prog.closures_of(wm.path):
        t = Prov(fn.body).local(0)
        leafs = [x for x in walk_term(t) if x[0] == "fld"]
        if fn.path != wm.path and leafs:
            top = t
            while top[0] in ("some", "ok"):
                top = top[1]
            if top[0] == "fld":
                handed.add((top[2], top[3]))
    c.inst("R2.handout-leaf", "witness_mut hands out exactly TxInWitness.script_witness", handed == {("transaction::TxInWitness", "script_witness")},
           "handed out: %s" % sorted(handed), wm.where(), wm.path)
    # ... and does nothing else to the transaction: the only mutation a caller can cause is through the reference handed out
    writes = []
    for fn in [wm] + prog.closures_of(wm.path):
        for e in effects(fn.body):
            if e["kind"] == "assign" and any(x[0] == "fld" for x in walk_term(e["target"])):
                writes.append("%s := %s" % (show(e["target"], -9), show(e["value"], -9)[:60]))
            elif e["kind"] == "mutarg" and not re.search(r"(get_mut|::map|deref_mut|as_mut|iter_mut|index_mut|::nth|::next)$", e["callee"] or ""):
                writes.append("%s(&mut %s)" % (e["callee"], show(e["target"], -9)))
    c.inst("R2.handout-no-writes", "witness_mut itself writes nothing into the transaction", not writes,
           "writes performed by witness_mut before handing out the reference: %s" % writes[:4], wm.where(), wm.path)
    inter = cache_reads & handed
    c.inst("R2.cache-purity", "cache builders never read what witness_mut can change", not inter,
           "cached data depends on %s which callers can modify through witness_mut between queries" % sorted(inter), wm.where(), SC)
    # txid-relevant and witness fields the caches do read (evidence)
    c.sample({"rule": "R2", "cache_reads": sorted("%s.%s" % (o.split("::")[-1], fl) for o, fl in cache_reads), "handed": sorted(map(str, handed))})
    # private tx field
    scty = prog.ty("sighash::SighashCache")
    fld = {x["name"]: x["pub"] for x in scty["variants"][0]["fields"]}
    c.inst("R2.fields-private", "tx and the caches are private fields", not any(fld.values()) and set(fld) >= {"tx", "common_cache", "segwit_cache", "taproot_cache"},
           "fields %s" % fld, f.where(), SC)

    # ---- R3 single writer
    owner = "sighash::SighashCache"
    allowed = {
        "common_cache": {SC + "::common_cache": "get_or_insert_with", SC + "::segwit_cache": "get_or_insert_with", SC + "::common_cache_minimal_borrow": "get_or_insert_with"},
        "segwit_cache": {SC + "::segwit_cache": "get_or_insert_with"},
        "taproot_cache": {SC + "::taproot_cache": "get_or_insert_with", SC + "::taproot_cache_minimal_borrow": "get_or_insert_with"},
    }
    nwr = 0
    for path, fn in prog.fns.items():
        if "sighash" not in path:
            continue
        bd = fn.body
        for e in effects(bd):
            for x in walk_term(e["target"]):
                if x[0] == "fld" and x[2] == owner and x[3] in allowed:
                    nwr += 1
                    root = path.split("::{closure")[0]
                    ok = e["kind"] == "mutarg" and root in allowed[x[3]]
                    c.inst("R3.cache-writers", "%s in %s via %s" % (x[3], root, (e["callee"] or "assign").split("::")[-1]), ok,
                           "cache field %s is written outside its accessor (%s in %s): a reset or overwrite can make a later "
                           "query differ from a fresh cache" % (x[3], e["kind"], path), fn.where(e.get("sp")), path)
                    break
    # the accessors mutate only through get_or_insert_with on their own parameter/field
    for acc in (SC + "::common_cache_minimal_borrow", SC + "::segwit_cache", SC + "::taproot_cache_minimal_borrow"):
        fn = prog.fn(acc)
        calls = [callee_name(t) for bi, t in fn.body.calls()]
        goi = [x for x in calls if x.endswith("Option::<T>::get_or_insert_with")]
        bad = [x for x in calls if re.search(r"Option::<T>::(take|insert|replace|get_or_insert)$", x)]
        c.inst("R3.accessor-fill-once", acc.split("::")[-1], len(goi) == 1 and not bad, "calls %s" % [x.split("::")[-1] for x in calls], fn.where(), acc)
    # cached values must be functions of the transaction only: the closure that fills a cache field may
    # capture self.tx / other caches (and, for the prevout-keyed taproot cache, the prevouts), never a
    # per-query argument such as input_index, script_code or the hash type
    HELPERS = {SC + "::common_cache_minimal_borrow": {1, 2}, SC + "::taproot_cache_minimal_borrow": {1, 2, 3}}
    nfill = 0
    for path, fn in prog.fns.items():
        if "sighash::SighashCache" not in path or "{closure" in path:
            continue
        bd = fn.body
        pv = Prov(bd)
        for bi, t in bd.calls(lambda t: callee_name(t).endswith("Option::<T>::get_or_insert_with")):
            tgt = pv.operand(t["args"][0])
            cl = pv.operand(t["args"][1])
            nfill += 1
            allowed_args = HELPERS.get(path, {1})
            used = set()
            for x in walk_term(cl):
                if x[0] == "arg":
                    used.add(x[1])
            c.inst("R3.cache-fill-pure", "%s fills %s" % (path.split("::")[-1], show(tgt)[-40:]), used <= allowed_args,
                   "the closure filling this cache captures %s, which depends on query arguments %s: the cached value is then keyed by the first "
                   "query and later queries with other arguments get a stale answer" % (show(cl)[:200], sorted(used - allowed_args)), fn.where(t["sp"]), path)
    c.floor("R3.cache-fill-pure", 3, "common, segwit, taproot caches")
    nw = prog.fn(SC + "::new")
    t = Prov(nw.body).local(0)
    vals = dict(zip(t[2], [show(x) for x in t[3]])) if t[0] == "agg" else {}
    ok = vals.get("tx") == "arg1" and all(v == "std::option::Option::None{}" for k, v in vals.items() if k != "tx") and \
        {"common_cache", "segwit_cache", "taproot_cache"} <= set(vals)
    c.inst("R3.new-empty", "new() starts with empty caches", ok, "new returns %s" % show(t), nw.where(), nw.path)

    # ---- R4 Prevouts tables
    _prevouts_tables(c, prog)


def _prevouts_tables(c, prog):
    P = "sighash::Prevouts::<'_, T>"
    fa = prog.fn(P + "::get_all")
    b = fa.body
    g = Guards(b)
    p = Prov(b)
    rows = {}
    for (bi, kind, rv) in ret_assignments(b):
        cd = tuple(cond_desc(b, g.conds(bi)))
        rows[cd] = (kind, show(p.operand(rv["ops"][0])) if rv.get("k") == "agg" else "?")
    want = {(("discr(arg1)", "All"),): ("ok", "arg1.0"), (("discr(arg1)", "One"),): ("err", "sighash::Error::PrevoutKind{}")}
    c.inst("R4.get_all-table", "All => Ok(prevouts), One => Err(PrevoutKind)", rows == want, "rows %s" % rows, fa.where(), fa.path)
    fc = prog.fn(P + "::check_all")
    b = fc.body
    errs = err_returns(b)
    ok = len(errs) == 1 and "PrevoutsSize" in errs[0][1] and ("discr(arg1)", "All") in errs[0][2] and any(
        re.search(r"len\(arg1\.0\) Ne std::vec::Vec::len\(arg2\.input\)", d) and lab == "true" for d, lab in errs[0][2])
    c.inst("R4.check_all-table", "All with len != inputs => Err(PrevoutsSize)", ok, "error returns %s" % errs, fc.where(), fc.path)
    fg = prog.fn(P + "::get")
    b = fg.body
    g = Guards(b)
    p = Prov(b)
    errs = err_returns(b)
    one_err = [e for e in errs if "PrevoutIndex" in e[1] and ("discr(arg1)", "One") in e[2]]
    ok1 = len(one_err) == 1 and any(("Eq" in d and lab == "false") or ("Ne" in d and lab == "true") for d, lab in one_err[0][2] if "arg2" in d)
    c.inst("R4.get-one", "One(index, p): index == input_index ? Ok(p) : Err(PrevoutIndex)", ok1, "errors %s" % errs, fg.where(), fg.path)
    rets = [(kind, show(p._call(rv, True)) if kind == "call" else None, cond_desc(b, g.conds(bi))) for (bi, kind, rv) in ret_assignments(b)]
    all_ret = [r for r in rets if r[0] == "call" and ("discr(arg1)", "All") in r[2]]
    oko = [e for e in events(b, lambda t: callee_name(t).endswith("Option::<T>::ok_or"))
           if "PrevoutIndex" in show(e["args"][1]) and ("discr(arg1)", "All") in cond_desc(b, e["conds"])]
    ok2 = len(all_ret) == 1 and "core::slice::get(arg1.0, arg2)" in (all_ret[0][1] or "") and len(oko) == 1
    c.inst("R4.get-all", "All(ps): ps.get(input_index).ok_or(PrevoutIndex)", ok2, "returns %s" % rets, fg.where(), fg.path)

    # the ANYONECANPAY split the guards above rely on, as an exact table over every variant of the hash type
    from .predicates import split_table as _split_table
    for _p in ("sighash::SchnorrSighashType::split_anyonecanpay_flag", "transaction::EcdsaSighashType::split_anyonecanpay_flag"):
        _f, _t = _split_table(prog, _p)
        _bad = []
        for _d, (_name, _r) in sorted(_t.items()):
            _acp = _name.endswith("PlusAnyoneCanPay")
            _base = _name[:-len("PlusAnyoneCanPay")] if _acp else _name
            if _r != (_base, int(_acp)):
                _bad.append((_name, _r))
        c.inst("R1.acp-split-table", _p.split("::")[-2], not _bad and len(_t) >= 6, "table %s; deviations %s" % ({k: v[1] for k, v in _t.items()}, _bad), _f.where(), _p)

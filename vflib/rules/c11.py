"""C11 — asset and token ids: derivation call shapes and constants, TxIn/PSET sibling agreement,
flag-bit taint to OutPoint, ordered-map JSON normalisation incl. Cargo feature check."""
import json
import os
import re
import subprocess

from ..analysis import events, cond_desc, is_encode_call
from ..facts import REPO
from ..mir import Prov, Guards, show, callee_name, walk_term

A = "issuance::AssetId::"
FMR = "fast_merkle_root::fast_merkle_root"


def _bytes_const(prog, path):
    v = prog.const(path)["val"] or ""
    m = re.match(r'^\*?b"((?:\\x[0-9a-f]{2}|[^"\\]|\\.)*)"$', v)
    if not m:
        return None
    raw = m.group(1)
    out = []
    i = 0
    while i < len(raw):
        if raw[i] == "\\" and raw[i + 1] == "x":
            out.append(int(raw[i + 2:i + 4], 16))
            i += 4
        elif raw[i] == "\\":
            out.append({"n": 10, "t": 9, "r": 13, "0": 0, "\\": 92, '"': 34, "'": 39}.get(raw[i + 1], ord(raw[i + 1])))
            i += 2
        else:
            out.append(ord(raw[i]))
            i += 1
    return out


def run(c, prog, ctx):
    c.explanation = (
        "Static decision of the structural clauses of C11: (R1) the three derivations are the fast-merkle combination of exactly "
        "[sha256d(consensus_encode(prevout)), contract hash], [entropy, ZERO32] and [entropy, ONE32 | TWO32] with ONE for the "
        "unblinded and TWO for the blinded case, and the constants are 0/1/2 followed by 31 zero bytes; (R2) TxIn::issuance_ids "
        "and pset::Input::issuance_ids decide new/re-issuance on the same test, call the same derivations and take the blinded "
        "flag from the issuance amount being confidential; (R3) the output index stored in a PSET input reaches an OutPoint only "
        "through the flag mask (with the 0xffffffff exemption); (R4) the JSON contract is parsed into an ordered map and "
        "re-serialised, and Cargo's feature resolution does not enable serde_json/preserve_order. SHA256 midstate arithmetic "
        "and fast_merkle_root itself (C18) are not decided here.")
    c.assume("serde_json serialises BTreeMap keys in map order and Value::Object is a BTreeMap unless preserve_order is enabled")
    # ---- R1 derivations
    f = prog.fn(A + "generate_asset_entropy")
    t = show(Prov(f.body).local(0), -12)
    tag = re.sub(r"@[\w]*#\d+", "", t)
    ENGFORM = "issuance::AssetEntropy::from_midstate(%s(array{hashes::Sha256d::to_byte_array(hashes::Sha256d::from_engine(hashes::Sha256d::engine())), issuance::ContractHash::to_byte_array(arg2)}))" % FMR
    # the same value through the one-shot helpers: sha256d::Hash::hash(&serialize(&prevout))
    ONESHOT = "issuance::AssetEntropy::from_midstate(%s(array{hashes::Sha256d::to_byte_array(hashes::Sha256d::hash(encode::serialize(arg1))), issuance::ContractHash::to_byte_array(arg2)}))" % FMR
    c.inst("R1.entropy", "entropy = fmr([sha256d(prevout), contract_hash])", tag in (ENGFORM, ONESHOT), "returns %s" % t, f.where(), f.path)
    ev = [(show(e["args"][0]), re.sub(r"@[\w]*#\d+", "", show(e["args"][1])), e["self_ty"]) for e in events(f.body, is_encode_call)]
    c.inst("R1.entropy-prevout-hash", "the hashed value is the consensus encoding of the prevout",
           (tag == ENGFORM and ev == [("arg1", "hashes::Sha256d::engine()", "transaction::OutPoint")]) or (tag == ONESHOT and not ev), "encodes %s" % ev, f.where(), f.path)
    f = prog.fn(A + "from_entropy")
    t = show(Prov(f.body).local(0), -12)
    c.inst("R1.asset-id", "asset id = fmr([entropy, ZERO32])", t == "issuance::AssetId::from_midstate(%s(array{issuance::AssetEntropy::to_byte_array(arg1), issuance::ZERO32}))" % FMR, "returns %s" % t, f.where(), f.path)
    f = prog.fn(A + "reissuance_token_from_entropy")
    b = f.body
    t = show(Prov(b).local(0), -12)
    c.inst("R1.token-id", "token id = fmr([entropy, ONE32 | TWO32])",
           t in ("issuance::AssetId::from_midstate(%s(array{issuance::AssetEntropy::to_byte_array(arg1), phi(issuance::TWO32 | issuance::ONE32)}))" % FMR,
                 "issuance::AssetId::from_midstate(%s(array{issuance::AssetEntropy::to_byte_array(arg1), phi(issuance::ONE32 | issuance::TWO32)}))" % FMR), "returns %s" % t, f.where(), f.path)
    g = Guards(b)
    p = Prov(b)
    sel = {}
    for bi in sorted(b.reachable()):
        for s in b.stmts(bi):
            if s["k"] == "assign" and not s["pl"]["p"] and s["rv"]["k"] == "use":
                v = show(p.operand(s["rv"]["a"]))
                if v in ("issuance::ONE32", "issuance::TWO32"):
                    lab = [l for d, l in cond_desc(b, g.conds(bi)) if d == "arg2"]
                    sel[v] = lab[0] if lab else None
    c.inst("R1.token-id-selector", "confidential ? TWO32 : ONE32", sel == {"issuance::ONE32": "false", "issuance::TWO32": "true"}, "selection %s" % sel, f.where(), f.path)
    for name, first in (("ZERO32", 0), ("ONE32", 1), ("TWO32", 2)):
        bs = _bytes_const(prog, "issuance::" + name)
        c.inst("R1.constants", name, bs == [first] + [0] * 31, "value %s" % bs, None, "issuance::" + name)

    # ---- R2 sibling agreement
    ft = prog.fn("transaction::TxIn::issuance_ids")
    fp = prog.fn("pset::map::input::Input::issuance_ids")
    tt = show(Prov(ft.body).local(0), -12)
    E_T = "phi(issuance::AssetId::generate_asset_entropy(arg1.previous_output, issuance::ContractHash::from_byte_array(arg1.asset_issuance.asset_entropy)) | issuance::AssetEntropy::from_byte_array(arg1.asset_issuance.asset_entropy))"
    want_t = "tuple{issuance::AssetId::from_entropy(%s), issuance::AssetId::reissuance_token_from_entropy(%s, confidential::Value::is_confidential(arg1.asset_issuance.amount))}" % (E_T, E_T)
    c.inst("R2.txin-ids", "(from_entropy(E), reissuance_token_from_entropy(E, amount.is_confidential())) with E = new ? generate(prevout, contract) : entropy",
           tt == want_t, "returns %s" % tt, ft.where(), ft.path)
    gt = Guards(ft.body)
    conds_t = {show(Prov(ft.body).operand(ft.body.term(sb)["d"])) for (sb, tb, v, e) in gt.switch_edges()}
    c.inst("R2.txin-new-vs-reissuance", "new issuance iff blinding nonce == ZERO_TWEAK",
           any("arg1.asset_issuance.asset_blinding_nonce" in d and "ZERO_TWEAK" in d for d in conds_t), "conditions %s" % sorted(conds_t), ft.where(), ft.path)
    # which alternative is the new issuance
    _branch_assoc(c, ft, "R2.txin-branch", "asset_blinding_nonce")
    tp = show(Prov(fp.body).local(0), -12)
    VOUT = "phi(arg1.previous_output_index | (arg1.previous_output_index BitAnd Not(((1 Shl 30) BitOr (1 Shl 31)))))"
    OUTP = "transaction::OutPoint::OutPoint{arg1.previous_txid, %s}" % VOUT
    ENT = "std::option::Option::unwrap_or_default(arg1.issuance_asset_entropy)"
    E_P = "phi(issuance::AssetId::generate_asset_entropy(%s, issuance::ContractHash::from_byte_array(%s)) | issuance::AssetEntropy::from_byte_array(%s))" % (OUTP, ENT, ENT)
    want_p = "tuple{issuance::AssetId::from_entropy(%s), issuance::AssetId::reissuance_token_from_entropy(%s, std::option::Option::is_some(arg1.issuance_value_comm))}" % (E_P, E_P)
    c.inst("R2.pset-ids", "same shape on the PSET input: outpoint = (previous_txid, masked index), blinded flag = issuance_value_comm.is_some()",
           tp == want_p, "returns %s" % tp, fp.where(), fp.path)
    _branch_assoc(c, fp, "R2.pset-branch", "issuance_blinding_nonce")
    c.sample({"rule": "R2", "txin": tt[:300], "pset": tp[:300]})

    # ---- R3 flag-bit taint
    n = 0
    for path, fn in sorted(prog.fns.items()):
        if "pset::" not in path:
            continue
        b = fn.body
        p = None
        for bi in sorted(b.reachable()):
            for s in b.stmts(bi):
                if s["k"] == "assign" and s["rv"]["k"] == "agg" and s["rv"].get("adt") == "transaction::OutPoint":
                    p = p or Prov(b)
                    t = p._rvalue(s["rv"], True)
                    vout = t[3][t[2].index("vout")]
                    sv = show(vout, -12)
                    if "previous_output_index" not in sv:
                        continue
                    n += 1
                    c.inst("R3.flag-taint", "%s: OutPoint.vout <- %s" % (path, sv[:80]), _masked(vout),
                           "the PSET output index (which carries the pegin/issuance flag bits) reaches OutPoint.vout unmasked", fn.where(s.get("sp")), path)
            t = b.term(bi)
            if t["k"] == "call" and callee_name(t) == "transaction::OutPoint::new":
                p = p or Prov(b)
                vout = p.operand(t["args"][1])
                sv = show(vout, -12)
                if "previous_output_index" in sv:
                    n += 1
                    c.inst("R3.flag-taint", "%s: OutPoint::new(_, %s)" % (path, sv[:80]), _masked(vout),
                           "the PSET output index reaches OutPoint::new unmasked", fn.where(t["sp"]), path)
    c.floor("R3.flag-taint", 2, "extract_tx and Input::issuance_ids")
    # what is stored as the PSET index in the first place: from_txin starts from Input::from_prevout, which must keep the
    # outpoint's index as it is (0xffffffff of the null outpoint included — the exemption tests compare with it); C08's instance
    if not ctx.get("no_deps"):
        # the outpoint a TxIn carries after decoding is the plain index: the wire form folds the two flags into bits 30/31 and
        # the reader removes exactly those (C01's TxIn flag rules; a reader that clears more bits changes the hashed outpoint)
        from . import c01 as _c01
        c.borrow(_c01, "C01", prog, ctx, lambda rule, k: rule in ("R2.txin-flag-extraction", "R2.txin-flags-cleared", "R3.txin-flag-folding", "R2.txin-coinbase-exemption"),
                 "R3.wire-index", 3)
        from . import c08 as _c08
        c.borrow(_c08, "C08", prog, ctx, lambda rule, k: rule == "R5.pset-accessors" and "from_prevout" in k, "R3.stored-index", 1)

    # ---- R4 JSON normalisation (the function is compiled only with the json-contract feature, which is on by default; in the
    # configuration without default features there is nothing to decide, in every other one a missing anchor fails closed)
    if ctx.get("config") == "nodefault":
        return
    fj = prog.fn("issuance::ContractHash::from_json_contract")
    b = fj.body
    calls = {callee_name(t): t for bi, t in b.calls()}
    fs = [t.get("callee_full", "") for bi, t in b.calls(lambda t: callee_name(t) == "serde_json::from_str")]
    okm = len(fs) == 1 and "std::collections::BTreeMap<std::string::String, serde_json::Value>" in fs[0]
    c.inst("R4.ordered-map", "contract parsed into BTreeMap<String, serde_json::Value>", okm, "from_str instantiations %s" % fs, fj.where(), fj.path)
    p = Prov(b)
    tw = [(show(p.operand(t["args"][0])), show(p.operand(t["args"][1]))) for bi, t in b.calls(lambda t: callee_name(t) == "serde_json::to_writer")]
    c.inst("R4.reserialise", "the ordered value is written to the hash engine with to_writer", len(tw) == 1 and tw[0][0].startswith("hashes::Sha256::engine()") and tw[0][1] == "serde_json::from_str(arg1)",
           "to_writer args %s" % tw, fj.where(), fj.path)
    # Cargo feature resolution
    try:
        out = subprocess.check_output(["cargo", "metadata", "--offline", "--format-version", "1", "--features", "serde,base64"], cwd=REPO,
                                      env=dict(os.environ, CARGO_NET_OFFLINE="true"), stderr=subprocess.DEVNULL, text=True)
        md = json.loads(out)
        feats = None
        for node in md["resolve"]["nodes"]:
            if node["id"].startswith("registry+") and "#serde_json@" in node["id"] or re.search(r"serde_json[ @#]", node["id"]):
                feats = node["features"]
        c.inst("R4.no-preserve-order", "serde_json is resolved without `preserve_order` (objects stay BTreeMaps at every nesting level)",
               feats is not None and "preserve_order" not in feats, "resolved serde_json features %s" % feats, None, "Cargo.toml")
        c.sample({"rule": "R4", "serde_json_features": feats})
    except Exception as e:
        c.inst("R4.no-preserve-order", "cargo metadata available", False, "cargo metadata failed: %s" % e, None, "Cargo.toml")


def _masked(vout):
    """the index term is the masked value, or the phi of raw (coinbase exemption) and masked value"""
    s = show(vout, -12)
    MASKED = "(arg1.previous_output_index BitAnd Not(((1 Shl 30) BitOr (1 Shl 31))))"
    alt = re.sub(r"elem\(arg1\.inputs\)", "arg1", s)
    return alt in (MASKED, "phi(arg1.previous_output_index | %s)" % MASKED, "phi(%s | arg1.previous_output_index)" % MASKED)


def _branch_assoc(c, fn, rule, nonce_field):
    """the generate_asset_entropy alternative is taken on the nonce == ZERO_TWEAK edge"""
    b = fn.body
    g = Guards(b)
    p = Prov(b)
    rows = {}
    for bi, t in b.calls(lambda t: callee_name(t) in ("issuance::AssetId::generate_asset_entropy", "issuance::AssetEntropy::from_byte_array")):
        cd = cond_desc(b, g.conds(bi))
        lab = [l for d, l in cd if nonce_field in d and "ZERO_TWEAK" in d]
        pol = [d for d, l in cd if nonce_field in d and "ZERO_TWEAK" in d]
        if lab:
            eq = "::eq(" in pol[0] or " Eq " in pol[0]
            rows[callee_name(t).split("::")[-1]] = (lab[0] == "true") == eq
    c.inst(rule, "nonce == ZERO_TWEAK => generate_asset_entropy, otherwise the carried entropy", rows == {"generate_asset_entropy": True, "from_byte_array": False},
           "alternatives taken when nonce == ZERO_TWEAK: %s" % rows, fn.where(), fn.path)

"""C03 — signature hashes: ordered, guarded commitment tables of the three sighash
algorithms versus spec tables (Elements taproot sighash, BIP143 + issuance, legacy)."""
import re

from ..analysis import drop_error_guards, events, is_encode_call, cond_desc, effects, ret_assignments, err_returns
from ..mir import Prov, Guards, show, callee_name, walk_term

SC = "sighash::SighashCache::<R>"


class Norm:
    """canonical strings: object tags renamed by first appearance, indexing idioms unified"""

    def __init__(self, subs=()):
        self.tags = {}
        self.subs = list(subs)

    def __call__(self, s):
        s = re.sub(r"<std::vec::Vec<T, A> as std::ops::Index<I>>::index\(([^()]*(?:\([^()]*\))?[^()]*), (\w+)\)", r"\1[\2]", s)
        for a, b in self.subs:
            s = s.replace(a, b)

        def tag(m):
            k = m.group(0)
            if k not in self.tags:
                self.tags[k] = "@%d" % (len(self.tags) + 1)
            return self.tags[k]
        return re.sub(r"@[\w]*#\d+", tag, s)


def ev_rows(body, norm, pred=is_encode_call):
    rows = []
    for e in events(body, pred):
        recv = norm(show(e["args"][0], -9))
        sink = norm(show(e["args"][1], -9)) if len(e["args"]) > 1 else None
        cd = frozenset((norm(d), l) for d, l in cond_desc(body, drop_error_guards(body, e["conds"])))
        rows.append((recv, sink, e["self_ty"], cd, e))
    return rows


def compare(c, rule, fn, got, want, what):
    """got/want: lists of (recv, sink, ty, guards). Order-sensitive among rows whose guards are compatible."""
    g = [(r[0], r[1], r[2], r[3]) for r in got]
    gs = sorted(g, key=lambda r: (r[0], r[1], sorted(r[3])))
    ws = sorted(want, key=lambda r: (r[0], r[1], sorted(r[3])))
    missing = [w for w in want if w not in g]
    extra = [x for x in g if x not in want]
    for w in want:
        c.inst(rule + ".row", "%s -> %s %s" % (w[0], w[1], sorted(w[3])), w in g,
               "%s: committed value `%s` (guards %s) not found; closest extracted rows: %s"
               % (what, w[0], sorted(w[3]), [(x[0], sorted(x[3])) for x in extra][:4]), fn.where(), fn.path)
    c.inst(rule + ".no-extra", "no additional committed values", not extra,
           "%s: unexpected committed values %s" % (what, [(x[0], x[1], sorted(x[3])) for x in extra]), fn.where(), fn.path)
    # order: the sequence of rows writing to the main sink, restricted to want-rows, must be a linear extension
    if not missing and not extra:
        occ = {}
        for i, r in enumerate(g):
            occ.setdefault(r, []).append(i)
        used = {}
        seq = []
        for w in want:
            k = used.get(w, 0)
            lst = occ[w]
            seq.append(lst[min(k, len(lst) - 1)])
            used[w] = k + 1
        bad = []
        for i in range(len(want)):
            for j in range(i + 1, len(want)):
                if want[i][1] == want[j][1] and _compatible(want[i][3], want[j][3]) and seq[i] > seq[j]:
                    bad.append((want[i][0], want[j][0]))
        c.inst(rule + ".order", "commitment order", not bad, "%s: out of order pairs %s" % (what, bad[:5]), fn.where(), fn.path)


def _compatible(a, b):
    """two guard sets can hold on one execution (no opposite labels on one condition)"""
    da, db = dict(a), dict(b)
    for k in da:
        if k in db and da[k] != db[k]:
            return False
    return True


def exclusive(c, rule, fn, body, name, bbs):
    """exactly one of the blocks executes on every path entry -> return"""
    rets = [bi for bi in body.reachable() if body.term(bi)["k"] == "return" and any(k == "ok" for (b2, k, _) in ret_assignments(body) if body.dominates(b2, bi) or b2 == bi)]
    okb = [bi for (bi, k, _) in ret_assignments(body) if k == "ok"]
    no_cross = all(b2 not in body.reach_from(b1) or b1 == b2 for b1 in bbs for b2 in bbs)
    r = body.reach_from(0, avoid=set(bbs))
    unavoidable = not (set(okb) & r)
    c.inst(rule, name, no_cross and unavoidable,
           "alternatives must be mutually exclusive (%s) and one of them unavoidable before Ok (%s)" % (no_cross, unavoidable), fn.where(), fn.path)


# ------------------------------------------------------------------ taproot
def _taproot(c, prog):
    f = prog.fn(SC + "::taproot_encode_signing_data_to")
    b = f.body
    n = Norm([("sighash::SchnorrSighashType::split_anyonecanpay_flag(arg7)", "SPLIT"),
              ("sighash::SchnorrSighashType", "T"),
              ("core::slice::get(arg1.tx.input, arg3)", "TXIN"), ("core::slice::get(arg1.tx.output, arg3)", "TXOUT"),
              # the same element through a guarded `v[i]` (the guard's failing side returns the error; safety of the index is C10's)
              ("<std::vec::Vec<T, A> as std::ops::Index<I>>::index(arg1.tx.input, arg3)", "TXIN"),
              ("<std::vec::Vec<T, A> as std::ops::Index<I>>::index(arg1.tx.output, arg3)", "TXOUT"),
              ("arg1.tx.input[arg3]", "TXIN"), ("arg1.tx.output[arg3]", "TXOUT"),
              ("sighash::Prevouts::get(arg4, arg3)", "PREVOUT"),
              ("sighash::SighashCache::taproot_cache(arg1, sighash::Prevouts::get_all(arg4))", "TAPCACHE"),
              # the accessor handed the Prevouts value itself (unpacking moved inside it; which outputs it reads is C13's)
              ("sighash::SighashCache::taproot_cache(arg1, arg4)", "TAPCACHE"),
              ("sighash::SighashCache::common_cache(arg1)", "COMMON"),
              ("transaction::TxIn::has_issuance(TXIN)", "ISS")])
    rows = ev_rows(b, n)
    NACP = ("SPLIT.1", "false")
    ACPT = ("SPLIT.1", "true")
    NN = ("std::cmp::PartialEq::ne(SPLIT.0, T::None{})", "true")
    NS = ("std::cmp::PartialEq::ne(SPLIT.0, T::Single{})", "true")
    SGL = ("<T as std::cmp::PartialEq>::eq(SPLIT.0, T::Single{})", "true")
    fs = frozenset
    W = "arg2"
    want = [
        ("arg8", W, "hash_types::BlockHash", fs()),
        ("arg8", W, "hash_types::BlockHash", fs()),
        ("(discr(arg7) as u8)", W, "u8", fs()),
        ("arg1.tx.version", W, "u32", fs()),
        ("arg1.tx.lock_time", W, "locktime::LockTime", fs()),
        ("TAPCACHE.outpoint_flags", W, "hashes::Sha256", fs([NACP])),
        ("COMMON.prevouts", W, "hashes::Sha256", fs([NACP])),
        ("TAPCACHE.asset_amounts", W, "hashes::Sha256", fs([NACP])),
        ("TAPCACHE.script_pubkeys", W, "hashes::Sha256", fs([NACP])),
        ("COMMON.sequences", W, "hashes::Sha256", fs([NACP])),
        ("COMMON.issuances", W, "hashes::Sha256", fs([NACP])),
        ("TAPCACHE.issuance_rangeproofs", W, "hashes::Sha256", fs([NACP])),
        ("COMMON.outputs", W, "hashes::Sha256", fs([NN, NS])),
        ("COMMON.output_witnesses", W, "hashes::Sha256", fs([NN, NS])),
        ("SPEND_TYPE", W, "u8", fs()),
        ("transaction::TxIn::outpoint_flag(TXIN)", W, "u8", fs([ACPT])),
        ("TXIN.previous_output", W, "transaction::OutPoint", fs([ACPT])),
        ("PREVOUT.asset", W, "confidential::Asset", fs([ACPT])),
        ("PREVOUT.value", W, "confidential::Value", fs([ACPT])),
        ("PREVOUT.script_pubkey", W, "script::Script", fs([ACPT])),
        ("TXIN.sequence", W, "transaction::Sequence", fs([ACPT])),
        ("TXIN.asset_issuance", W, "transaction::AssetIssuance", fs([ACPT, ("ISS", "true")])),
        ("TXIN.witness.amount_rangeproof", "hashes::Sha256::engine()@1", "std::option::Option<std::boxed::Box<secp256k1_zkp::RangeProof>>", fs([ACPT, ("ISS", "true")])),
        ("TXIN.witness.inflation_keys_rangeproof", "hashes::Sha256::engine()@1", "std::option::Option<std::boxed::Box<secp256k1_zkp::RangeProof>>", fs([ACPT, ("ISS", "true")])),
        ("hashes::Sha256::from_engine(hashes::Sha256::engine()@1)", W, "hashes::Sha256", fs([ACPT, ("ISS", "true")])),
        ("0", W, "u8", fs([ACPT, ("ISS", "false")])),
        ("(arg3 as u32)", W, "u32", fs([NACP])),
        ("some(arg5)", "hashes::Sha256::engine()@2", "sighash::Annex<'_>", fs([("discr(arg5)", "Some")])),
        ("hashes::Sha256::from_engine(hashes::Sha256::engine()@2)", W, "hashes::Sha256", fs([("discr(arg5)", "Some")])),
        ("TXOUT", "hashes::Sha256::engine()@3", "transaction::TxOut", fs([SGL])),
        ("hashes::Sha256::from_engine(hashes::Sha256::engine()@3)", W, "hashes::Sha256", fs([SGL])),
        ("TXOUT.witness", "hashes::Sha256::engine()@4", "transaction::TxOutWitness", fs([SGL])),
        ("hashes::Sha256::from_engine(hashes::Sha256::engine()@4)", W, "hashes::Sha256", fs([SGL])),
        ("taproot::TapLeafHash::to_byte_array(some(arg6).0)", W, "[u8; 32]", fs([("discr(arg6)", "Some")])),
        ("0", W, "u8", fs([("discr(arg6)", "Some")])),
        ("some(arg6).1", W, "u32", fs([("discr(arg6)", "Some")])),
    ]
    # spend type: recognise the flow-insensitive term and check its construction separately
    got = []
    for r in rows:
        recv = r[0]
        if recv.startswith("phi(0 | (cyc(") and r[2] == "u8" and not r[3]:
            recv = "SPEND_TYPE"
        got.append((recv, r[1], r[2], r[3], r[4]))
    compare(c, "R1.taproot", f, got, want, "taproot signing message")
    c.sample({"rule": "R1", "fn": f.path, "rows": [(r[0], r[1], sorted(r[3])) for r in got][:40]})
    _spend_type(c, f)
    # error edges
    errs = err_returns(b)
    e1 = [norm_e for norm_e in errs if "IndexOutOfInputsBounds" in norm_e[1]]
    e2 = [x for x in errs if "SingleWithoutCorrespondingOutput" in x[1]]
    oks = [e for e in events(b, lambda t: callee_name(t).endswith("Option::<T>::ok_or"))]
    okm = {("IndexOutOfInputsBounds" if "IndexOutOfInputsBounds" in show(e["args"][1]) else "SingleWithoutCorrespondingOutput" if "SingleWithoutCorrespondingOutput" in show(e["args"][1]) else "?"): n(show(e["args"][0])) for e in oks}
    # either form: `.get(i).ok_or(E)?` on the element, or an explicit `if i >= len { return Err(E) }`
    have = {k for k in okm if k != "?"} | ({"IndexOutOfInputsBounds"} if e1 else set()) | ({"SingleWithoutCorrespondingOutput"} if e2 else set())
    c.inst("R1.taproot.error-edges", "missing input / missing SINGLE output are errors",
           have == {"IndexOutOfInputsBounds", "SingleWithoutCorrespondingOutput"} and all(v in ("TXIN", "TXOUT") for v in okm.values()),
           "ok_or sites %s; explicit error returns %s" % (okm, [x[1][:60] for x in e1 + e2]), f.where(), f.path)
    # sha_annex is the hash of the compact-size prefixed annex *including* its 0x50 byte (BIP341): the Annex encoder writes the
    # whole wrapped slice with its length, once, unconditionally
    fa = prog.fn("<sighash::Annex<'_> as encode::Encodable>::consensus_encode")
    ea = [e for e in events(fa.body, lambda t: is_encode_call(t) or re.search(r"consensus_encode_with_size$|emit_slice$|write_all$", callee_name(t)) is not None)]
    shown = [(callee_name(e["t"]).split("::")[-1], re.sub(r"sighash::Annex::as_bytes\(arg1\)", "arg1.0", show(e["args"][0], -9)), len(e["conds"])) for e in ea]
    ok_a = shown == [("consensus_encode_with_size", "arg1.0", 0)]
    if not ok_a and len(shown) == 2:
        # explicit form: VarInt(len) then the bytes
        ok_a = (shown[0][0] == "consensus_encode" and re.sub(r"\s|core::slice::|encode::VarInt::|encode::", "", shown[0][1]) in ("VarInt{(len(arg1.0)asu64)}",) and shown[0][2] == 0
                and shown[1][0] in ("emit_slice", "write_all") and shown[1][2] <= 1 and "arg1.0" in [show(a, -9) for a in ea[1]["args"]])
    c.inst("R1.taproot.annex-encoding", "Annex is hashed as compact size followed by all of its bytes", ok_a, "encoder calls %s" % shown, fa.where(), fa.path)
    # KEY_VERSION_0
    kv = prog.const("sighash::KEY_VERSION_0")
    c.inst("R1.taproot.key-version", "KEY_VERSION_0 == 0", kv["val"] in ("0_u8", "0"), "value %s" % kv["val"], f.where(), f.path)


def _spend_type(c, f):
    b = f.body
    g = Guards(b)
    p = Prov(b)
    # find the local fed to the unguarded u8 encode whose term is the phi
    target = None
    for e in events(b, is_encode_call):
        if e["self_ty"] == "u8" and show(e["args"][0]).startswith("phi(0 | (cyc("):
            # receiver is &spend_type: find the referenced local
            a0 = e["t"]["args"][0]
            pl = a0.get("pl")
            for (bi, si, kind, pay) in b.defs().get(pl["l"], []):
                if kind == "assign" and pay["rv"]["k"] == "ref":
                    target = pay["rv"]["pl"]["l"]
    rows = []
    if target is not None:
        for (bi, si, kind, pay) in b.defs().get(target, []):
            if kind != "assign":
                continue
            rv = pay["rv"]
            cd = tuple(cond_desc(b, g.conds(bi)))
            if rv["k"] == "use":
                rows.append(("set", show(p.operand(rv["a"])), cd))
            elif rv["k"] == "bin":
                other = rv["b"] if rv["a"].get("pl", {}).get("l") == target else rv["a"]
                rows.append((rv["op"], show(p.operand(other)), cd))
    want = {("set", "0", ()), ("BitOr", "1", (("discr(arg5)", "Some"),)), ("BitOr", "2", (("discr(arg6)", "Some"),))}
    want2 = {("set", "0", ()), ("BitOr", "1", (("std::option::Option::is_some(arg5)", "true"),)), ("BitOr", "2", (("std::option::Option::is_some(arg6)", "true"),))}
    c.inst("R1.taproot.spend-type", "spend_type = (annex ? 1 : 0) | (leaf ? 2 : 0)", set(rows) in (want, want2), "assignments %s" % rows, f.where(), f.path)


# ------------------------------------------------------------------ segwit v0
def _segwit(c, prog):
    f = prog.fn(SC + "::encode_segwitv0_signing_data_to")
    b = f.body
    n = Norm([("transaction::EcdsaSighashType::split_anyonecanpay_flag(arg6)", "SPLIT"),
              ("transaction::EcdsaSighashType", "T"),
              ("sighash::SighashCache::segwit_cache(arg1)", "SEGWIT"),
              ("repeat(('const', 'u8', 0), '32')", "ZERO32"),
              ("transaction::TxIn::has_issuance(arg1.tx.input[arg3])", "ISS")])
    rows = ev_rows(b, n)
    fs = frozenset
    W = "arg2"
    ACPT, NACP = ("SPLIT.1", "true"), ("SPLIT.1", "false")
    NS = ("std::cmp::PartialEq::ne(SPLIT.0, T::Single{})", "true")
    NN = ("std::cmp::PartialEq::ne(SPLIT.0, T::None{})", "true")
    SGL = ("<T as std::cmp::PartialEq>::eq(SPLIT.0, T::Single{})", "true")
    INR = ("(arg3 Lt std::vec::Vec::len(arg1.tx.output))", "true")
    want = [
        ("arg1.tx.version", W, "u32", fs()),
        ("ZERO32", W, "[u8; 32]", fs([ACPT])),
        ("SEGWIT.prevouts", W, "hashes::Sha256d", fs([NACP])),
        ("SEGWIT.sequences", W, "hashes::Sha256d", fs([NACP, NS, NN])),
        ("ZERO32", W, "[u8; 32]", fs()),                     # else-branch of the sequences hash (join block)
        ("ZERO32", W, "[u8; 32]", fs([ACPT])),
        ("SEGWIT.issuances", W, "hashes::Sha256d", fs([NACP])),
        ("arg1.tx.input[arg3].previous_output", W, "transaction::OutPoint", fs()),
        ("arg4", W, "script::Script", fs()),
        ("arg5", W, "confidential::Value", fs()),
        ("arg1.tx.input[arg3].sequence", W, "transaction::Sequence", fs()),
        ("arg1.tx.input[arg3].asset_issuance", W, "transaction::AssetIssuance", fs([("ISS", "true")])),
        ("SEGWIT.outputs", W, "hashes::Sha256d", fs([NS, NN])),
        ("arg1.tx.output[arg3]", "hashes::Sha256d::engine()@1", "transaction::TxOut", fs([SGL, INR])),
        ("hash_types::Sighash::Sighash{<hashes::sha256d::HashEngine as hashes::HashEngine>::finalize(hashes::Sha256d::engine()@1)}", W, "hash_types::Sighash", fs([SGL, INR])),
        ("ZERO32", W, "[u8; 32]", fs()),                     # else-branch of hashOutputs (join block)
        ("arg1.tx.lock_time", W, "locktime::LockTime", fs()),
        ("T::as_u32(arg6)", W, "u32", fs()),
    ]
    compare(c, "R2.segwit", f, rows, want, "segwit-v0 signing message")
    c.sample({"rule": "R2", "fn": f.path, "rows": [(r[0], r[1], sorted(r[3])) for r in rows]})
    # exclusive alternatives for the three hash slots whose else-branch is a join
    def blocks(pred):
        return [r[4]["bb"] for r in rows if pred(r)]
    main = [r for r in rows if r[1] == W]
    idx = {id(r): i for i, r in enumerate(main)}
    # slot 2: prevouts | zero ; slot 3: sequences | zero ; slot 4: issuances | zero ; slot 10: outputs | single | zero
    seq_i = [i for i, r in enumerate(main) if r[0] == "SEGWIT.sequences"]
    out_i = [i for i, r in enumerate(main) if r[0] == "SEGWIT.outputs"]
    zs = [i for i, r in enumerate(main) if r[0] == "ZERO32"]
    ok_struct = len(seq_i) == 1 and len(out_i) == 1 and len(zs) == 4
    c.inst("R2.segwit.slots", "four zero-hash alternatives", ok_struct, "zero rows %d" % len(zs), f.where(), f.path)
    if ok_struct:
        z_prev = [i for i in zs if main[i][3] == fs([ACPT])]
        z_join = [i for i in zs if main[i][3] == fs()]
        have = all(any(pred(r[0]) for r in main) for pred in (lambda x: x == "SEGWIT.prevouts", lambda x: x == "SEGWIT.issuances", lambda x: x.startswith("hash_types::Sighash::Sighash{")))
        if not have:
            c.inst("R2.segwit.slots", "expected hash slots present", False, "prevouts/issuances/single-output rows missing: %s" % [r[0][:60] for r in main], f.where(), f.path)
        elif len(z_prev) == 2 and len(z_join) == 2:
            prev_i = [i for i, r in enumerate(main) if r[0] == "SEGWIT.prevouts"][0]
            iss_i = [i for i, r in enumerate(main) if r[0] == "SEGWIT.issuances"][0]
            sgl_i = [i for i, r in enumerate(main) if r[0].startswith("hash_types::Sighash::Sighash{")][0]
            exclusive(c, "R2.segwit.slot-prevouts", f, b, "hashPrevouts | zero", [main[prev_i][4]["bb"], main[z_prev[0]][4]["bb"]])
            exclusive(c, "R2.segwit.slot-sequences", f, b, "hashSequence | zero", [main[seq_i[0]][4]["bb"], main[z_join[0]][4]["bb"]])
            exclusive(c, "R2.segwit.slot-issuances", f, b, "hashIssuance | zero", [main[iss_i][4]["bb"], main[z_prev[1]][4]["bb"]])
            exclusive(c, "R2.segwit.slot-outputs", f, b, "hashOutputs | sha256d(output[index]) | zero",
                      [main[out_i[0]][4]["bb"], main[sgl_i][4]["bb"], main[z_join[1]][4]["bb"]])
        else:
            c.inst("R2.segwit.slots", "zero-hash guard shape", False, "zero rows guards %s" % [sorted(main[i][3]) for i in zs], f.where(), f.path)


# ------------------------------------------------------------------ legacy
def _alts(body, prov, g, operand):
    """guarded alternatives of a temp operand: [(value show, guards)]"""
    pl = operand.get("pl")
    if pl is None or pl["p"]:
        return [(show(prov.operand(operand)), ())]
    out = []
    for (bi, si, kind, pay) in body.defs().get(pl["l"], []):
        if body.blocks[bi]["cleanup"]:
            continue
        if kind == "assign" and not pay["pl"]["p"]:
            out.append((show(prov._rvalue(pay["rv"], True)), tuple(cond_desc(body, g.conds(bi)))))
        elif kind == "call" and not pay["dest"]["p"]:
            out.append((show(prov._call(pay, True)), tuple(cond_desc(body, g.conds(bi)))))
    return out


def _legacy(c, prog):
    f = prog.fn(SC + "::encode_legacy_signing_data_to")
    b = f.body
    p = Prov(b)
    g = Guards(b)
    n = Norm([("transaction::EcdsaSighashType::split_anyonecanpay_flag(arg5)", "SPLIT"), ("transaction::EcdsaSighashType", "T")])
    INB = "(arg3 Lt std::vec::Vec::len(arg1.tx.input))"
    SGL = "<T as std::cmp::PartialEq>::eq(SPLIT.0, T::Single{})"
    # (a) SINGLE bug constant
    effs = effects(b)
    wa = [e for e in effs if e["kind"] == "mutarg" and (e["callee"] or "").endswith("Write::write_all")]
    ok = False
    detail = "write_all sites %d" % len(wa)
    if len(wa) == 1:
        arr = show(wa[0]["args"][1], -9)
        cd = {(n(d), l) for d, l in cond_desc(b, g.conds(wa[0]["bb"]))}
        okarr = arr == "array{1, " + ", ".join(["0"] * 31) + "}"
        okcd = (SGL, "true") in cd and ("(arg3 Ge std::vec::Vec::len(arg1.tx.output))", "true") in cd
        # returns Ok right after without hashing the tx
        r = b.reach_from(wa[0]["bb"])
        enc_after = [e for e in events(b, is_encode_call) if e["bb"] in r]
        ok = okarr and okcd and not enc_after
        detail = "constant %s guards %s encodes after: %d" % (arr[:40], sorted(cd), len(enc_after))
    c.inst("R3.legacy.single-bug", "SINGLE with index >= outputs: write 01 00..00 (32 bytes) and return", ok, detail, f.where(), f.path)
    # (b) final events
    rows = ev_rows(b, n)
    main = [(r[0], r[2]) for r in rows if r[1] == "arg2"]
    okf = (len(main) == 5 and main[0] == ("arg1.tx.version", "u32") and main[1][1] == "std::vec::Vec<transaction::TxIn>"
           and main[2][1] == "std::vec::Vec<transaction::TxOut>" and main[3] == ("arg1.tx.lock_time", "locktime::LockTime")
           and main[4] == ("endian::u32_to_array_le(T::as_u32(arg5))", "[u8; 4]"))
    c.inst("R3.legacy.final-sequence", "[version, inputs, outputs, lock_time, sighash type as LE u32] (no witness flag byte)", okf,
           "events %s" % [(m[0][:60], m[1]) for m in main], f.where(), f.path)
    # (c) inputs
    ACP = "SPLIT.1"
    pushes = [e for e in effs if e["kind"] == "mutarg" and (e["callee"] or "").endswith("Vec::<T, A>::push")]
    txin_aggs = []
    for bi in sorted(b.reachable()):
        for s in b.stmts(bi):
            if s["k"] == "assign" and s["rv"]["k"] == "agg" and s["rv"].get("adt") == "transaction::TxIn":
                cd = {(n(d), l) for d, l in cond_desc(b, g.conds(bi))}
                fields = {}
                for name, op in zip(s["rv"]["fields"], s["rv"]["ops"]):
                    fields[name] = [(n(v), tuple((n(d), l) for d, l in gd)) for v, gd in _alts(b, p, g, op)]
                txin_aggs.append((cd, fields))
    acp = [x for x in txin_aggs if (ACP, "true") in x[0]]
    nacp = [x for x in txin_aggs if (ACP, "false") in x[0]]
    c.inst("R3.legacy.input-literals", "one TxIn literal per branch", len(acp) == 1 and len(nacp) == 1, "found %d/%d" % (len(acp), len(nacp)), f.where(), f.path)
    if len(acp) == 1:
        fl = acp[0][1]
        I = "arg1.tx.input[arg3]"
        got = {k: sorted(set(v0 for v0, _ in v)) for k, v in fl.items()}
        want = {"previous_output": [I + ".previous_output"], "is_pegin": [I + ".is_pegin"], "script_sig": ["arg4"],
                "sequence": [I + ".sequence"], "asset_issuance": [I + ".asset_issuance"]}
        gotc = {k: v for k, v in got.items() if k != "witness"}
        c.inst("R3.legacy.acp-input", "ANYONECANPAY: single input copied from input[index] with script_sig = script code", gotc == want and
               all("Default>::default" in x for x in got.get("witness", ["?"])), "fields %s" % got, f.where(), f.path)
    if len(nacp) == 1:
        fl = nacp[0][1]
        E = "elem(arg1.tx.input)"
        simple = {k: sorted(set(v0 for v0, _ in v)) for k, v in fl.items()}
        ok1 = (simple.get("previous_output") == [E + ".previous_output"] and simple.get("is_pegin") == [E + ".is_pegin"]
               and simple.get("asset_issuance") == [E + ".asset_issuance"] and all("Default>::default" in x for x in simple.get("witness", ["?"])))
        c.inst("R3.legacy.all-inputs", "every input copied (outpoint, pegin flag, issuance), witness dropped", ok1, "fields %s" % simple, f.where(), f.path)
        c.inst("R3.legacy.in-loop", "TxIn built inside the loop over self.tx.input", ("discr(enext(arg1.tx.input))", "Some") in nacp[0][0],
               "guards %s" % sorted(nacp[0][0]), f.where(), f.path)
        EQ = "(index(arg1.tx.input) Eq arg3)"
        NE = "(index(arg1.tx.input) Ne arg3)"
        ss = set()
        for v0, gd in fl.get("script_sig", []):
            lab = [l for d, l in gd if d == EQ] + [("false" if l == "true" else "true") for d, l in gd if d == NE]
            ss.add((re.sub(r"@\d+", "", v0), lab[0] if lab else None))
        c.inst("R3.legacy.script-sig", "script_sig = script code iff n == input_index else empty",
               ss == {("arg4", "true"), ("script::Script::new()", "false")}, "alternatives %s" % sorted(map(str, ss)), f.where(), f.path)
        sq = {}
        for v0, gd in fl.get("sequence", []):
            sq.setdefault(v0, []).append(set(gd))
        c.sample({"rule": "R3", "sequence_alternatives": {k: [sorted(x) for x in v] for k, v in sq.items()}})
        zero = sq.get("transaction::Sequence::ZERO", [])
        keep = sq.get(E + ".sequence", [])
        SGLE = ("<T as std::cmp::PartialEq>::eq(SPLIT.0, T::Single{})", "true")
        NONEE = ("<T as std::cmp::PartialEq>::eq(SPLIT.0, T::None{})", "true")
        # ZERO only when n != input_index; the copy alternative exists
        okz = len(zero) >= 1 and all(((NE, "true") in z or (EQ, "false") in z) for z in zero) and len(keep) >= 1
        c.inst("R3.legacy.sequence-zeroing", "sequence = 0 only for n != input_index (under SINGLE/NONE), else copied", okz,
               "ZERO under %s ; copied under %s" % ([sorted(z) for z in zero], [sorted(z) for z in keep]), f.where(), f.path)
        # the condition mentions both Single and None
        cond_terms = set()
        for (sb, tb, vals, excl) in g.switch_edges():
            cond_terms.add(n(show(p.operand(b.term(sb)["d"]))))
        c.inst("R3.legacy.sequence-types", "zeroing condition tests SINGLE and NONE",
               SGLE[0] in cond_terms and NONEE[0] in cond_terms, "conditions %s" % sorted(x for x in cond_terms if "T::" in x), f.where(), f.path)
    # (d) outputs by type
    out_assign = [e for e in effs if e["kind"] == "assign" and e["target"][0] == "fld" and e["target"][3] == "output"]
    alts = {}
    for bi in sorted(b.reachable()):
        cd = tuple((n(d), l) for d, l in cond_desc(b, g.conds(bi)))
        for s in b.stmts(bi):
            pass
    # the match on `sighash`: collect (variant -> value) from the assignments/calls defining the matched temp
    tgt = None
    for e in out_assign:
        tgt = e
    vals = []
    if True:
        # find the statement and its source operand
        for bi in sorted(b.reachable()):
            for s in b.stmts(bi):
                if s["k"] == "assign" and s["pl"]["p"] and s["pl"]["p"][-1] != "*" and isinstance(s["pl"]["p"][-1], dict) and s["pl"]["p"][-1].get("f") == "output" and s["rv"]["k"] == "use":
                    vals = _alts(b, p, g, s["rv"]["a"])
    table = {}
    for v0, gd in vals:
        lab = [l for d, l in gd if n(d) == "discr(SPLIT.0)"]
        table[lab[0] if lab else "?"] = n(v0)
    want_o = {"All": "arg1.tx.output", "None": "std::vec::Vec::new()@1"}
    oko = (table.get("All") == "arg1.tx.output" and re.sub(r"@\d+", "", table.get("None", "")) == "std::vec::Vec::new()"
           and "std::iter::Iterator::take(arg1.tx.output, (arg3 AddWithOverflow 1).0)" in table.get("Single", "")
           and "collect" in table.get("Single", ""))
    c.inst("R3.legacy.outputs-by-type", "ALL: all outputs; SINGLE: first index+1 outputs; NONE: none", oko, "table %s" % table, f.where(), f.path)
    # closure for SINGLE: n == index ? out.clone() : TxOut::default()
    cl = [x for x in prog.closures_of(f.path)]
    okc = False
    detail = "closures %d" % len(cl)
    for clf in cl:
        cb = clf.body
        cp = Prov(cb)
        cg = Guards(cb)
        rows2 = set()
        for (bi, si, kind, pay) in cb.defs().get(0, []):
            if cb.blocks[bi]["cleanup"]:
                continue
            v = show(cp._rvalue(pay["rv"], True)) if kind == "assign" else show(cp._call(pay, True))
            rows2.add((re.sub(r"@[\w]*#\d+", "", v), tuple(cond_desc(cb, cg.conds(bi)))))
        detail = "closure rows %s" % sorted(map(str, rows2))
        if rows2 == {("arg2.1", (("(arg2.0 Eq ^arg3)", "true"),)), ("<transaction::TxOut as std::default::Default>::default()", (("(arg2.0 Eq ^arg3)", "false"),))}:
            okc = True
    c.inst("R3.legacy.single-erases-others", "SINGLE: outputs before the index are replaced by TxOut::default()", okc, detail, f.where(), f.path)
    # ... and TxOut::default() is the *null* output of the reference (CTxOut::SetNull: asset, value and nonce all null, empty
    # script — it serializes as 00 00 00 00): each field default resolved down to its variant
    fd = prog.fn("<transaction::TxOut as std::default::Default>::default")
    td = re.sub(r"@[\w]*#\d+", "", show(Prov(fd.body).local(0), -30))
    parts = {}
    for ty in ("Asset", "Value", "Nonce"):
        fq = "<confidential::%s as std::default::Default>::default" % ty
        parts[ty] = re.sub(r"@[\w]*#\d+", "", show(Prov(prog.fn(fq).body).local(0), -9)) if prog.has_fn(fq) else "?"
    flat_td = td
    for ty in ("Asset", "Value", "Nonce"):
        flat_td = flat_td.replace("<confidential::%s as std::default::Default>::default()" % ty, parts[ty])
    okd = (flat_td.startswith("transaction::TxOut::TxOut{confidential::Asset::Null{}, confidential::Value::Null{}, confidential::Nonce::Null{}, ")
           and re.search(r", (<script::Script as std::default::Default>::default\(\)|script::Script::new\(\)), ", flat_td) is not None)
    c.inst("R3.legacy.null-output", "TxOut::default() = null asset, null value, null nonce, empty script", okd, "default() returns %s" % flat_td[:260], fd.where(), fd.path)


# ------------------------------------------------------------------ caches, flags, tags
def _caches(c, prog):
    cc = prog.fn(SC + "::common_cache_minimal_borrow::{closure#0}")
    n = Norm([("^arg2", "TX")])
    rows = ev_rows(cc.body, n)
    ret = Prov(cc.body).local(0)
    fields = dict(zip(ret[2], [n(show(x)) for x in ret[3]])) if ret[0] == "agg" else {}
    eng = {v: k for k, v in fields.items()}
    per = {}
    for r in rows:
        key = eng.get("hashes::Sha256::from_engine(%s)" % r[1], "?")
        loops = sorted(d for d, l in r[3] if l == "Some" and d.startswith("discr(next("))
        iss = [l for d, l in r[3] if d.startswith("transaction::TxIn::has_issuance(")]
        per.setdefault(key, []).append((r[0], iss[0] if iss else None))
    want = {
        "prevouts": [("elem(TX.input).previous_output", None)],
        "sequences": [("elem(TX.input).sequence", None)],
        "outputs": [("elem(TX.output)", None)],
        "issuances": [("elem(TX.input).asset_issuance", "true"), ("0", "false")],
        "output_witnesses": [("elem(TX.output).witness.surjection_proof", None), ("elem(TX.output).witness.rangeproof", None)],
    }
    for k, v in want.items():
        c.inst("R4.common-cache", k, per.get(k) == v, "hash `%s` covers %s, expected %s" % (k, per.get(k), v), cc.where(), cc.path)
    c.inst("R4.common-cache-complete", "no other hashes", set(per) == set(want), "hashes %s" % sorted(per), cc.where(), cc.path)
    c.sample({"rule": "R4", "common_cache": per})
    tcf = prog.fn(SC + "::taproot_cache_minimal_borrow::{closure#0}")
    n2 = Norm([("^arg2", "TX"), ("^arg3", "PREVOUTS")])
    rows = ev_rows(tcf.body, n2)
    ret = Prov(tcf.body).local(0)
    fields = dict(zip(ret[2], [n2(show(x)) for x in ret[3]])) if ret[0] == "agg" else {}
    eng = {v: k for k, v in fields.items()}
    per = {}
    for r in rows:
        per.setdefault(eng.get("hashes::Sha256::from_engine(%s)" % r[1], "?"), []).append(r[0])
    want = {
        "asset_amounts": ["elem(PREVOUTS).asset", "elem(PREVOUTS).value"],
        "script_pubkeys": ["elem(PREVOUTS).script_pubkey"],
        "outpoint_flags": ["transaction::TxIn::outpoint_flag(elem(TX.input))"],
        "issuance_rangeproofs": ["elem(TX.input).witness.amount_rangeproof", "elem(TX.input).witness.inflation_keys_rangeproof"],
    }
    for k, v in want.items():
        c.inst("R4.taproot-cache", k, per.get(k) == v, "hash `%s` covers %s, expected %s" % (k, per.get(k), v), tcf.where(), tcf.path)
    c.inst("R4.taproot-cache-complete", "no other hashes", set(per) == set(want), "hashes %s" % sorted(per), tcf.where(), tcf.path)
    sc = prog.fn(SC + "::segwit_cache::{closure#0}")
    ret = Prov(sc.body).local(0)
    ok = ret[0] == "agg"
    got = {}
    if ok:
        for name, t in zip(ret[2], ret[3]):
            got[name] = re.sub(r"sighash::SighashCache::common_cache_minimal_borrow\([^)]*\)", "COMMON", show(t, -9))
    want = {k: "hashes::Sha256d::from_byte_array(hashes::Sha256::to_byte_array(hashes::Sha256::hash(COMMON.%s)))" % k
            for k in ("prevouts", "sequences", "issuances", "outputs")}
    c.inst("R4.segwit-cache", "each segwit hash = SHA256 of the same-named common hash", got == want, "got %s" % got, sc.where(), sc.path)


def _flags_tags(c, prog):
    f = prog.fn("transaction::TxIn::outpoint_flag")
    t = show(Prov(f.body).local(0), -9)
    want = "((((arg1.is_pegin as u8) Shl 6) BitOr ((transaction::TxIn::has_issuance(arg1) as u8) Shl 7))"
    t2 = t.replace("std::convert::num::<impl std::convert::From<bool> for u8>::from(arg1.is_pegin)", "(arg1.is_pegin as u8)").replace(
        "std::convert::num::<impl std::convert::From<bool> for u8>::from(transaction::TxIn::has_issuance(arg1))", "(transaction::TxIn::has_issuance(arg1) as u8)")
    ok = t2.replace("(", "").replace(")", "") in (
        "arg1.is_pegin as u8 Shl 6 BitOr transaction::TxIn::has_issuancearg1 as u8 Shl 7",
        "transaction::TxIn::has_issuancearg1 as u8 Shl 7 BitOr arg1.is_pegin as u8 Shl 6")
    c.inst("R5.outpoint-flag", "(is_pegin << 6) | (has_issuance << 7)", ok, "returns %s" % t, f.where(), f.path)
    # tags: the midstate constants of the tagged hashes are derived from the tag strings
    tags = {}
    for path, cst in prog.consts.items():
        pass
    for fn in prog.find(r"taproot::.*Tag as hashes::sha256t::Tag>::engine$|taproot::.*Tag as .*Tag>::engine$"):
        tags[fn.path] = show(Prov(fn.body).local(0), -9)[:300]
    c.stats["tag_engines"] = len(tags)
    lf = prog.fn("taproot::TapLeafHash::from_script")
    rows = ev_rows(lf.body, Norm())
    got = [(r[0], r[2]) for r in rows]
    okl = len(got) == 2 and got[0][1] == "u8" and "arg2" in got[0][0] and got[1] == ("arg1", "script::Script")
    c.inst("R5.tapleaf-preimage", "TapLeaf hash = tagged(leaf version byte, script with compact size)", okl, "events %s" % got, lf.where(), lf.path)
    # the leaf hash a script-path query is given as a ScriptPath is that of its own script and its own leaf version
    # (taproot_script_spend_signature_hash takes `impl Into<TapLeafHash>`: the conversion is part of the digest's input)
    sp_views = {"sighash::ScriptPath::<'s>::leaf_hash": ("taproot::TapLeafHash::from_script(arg1.script, arg1.leaf_version)",),
                "sighash::<impl std::convert::From<sighash::ScriptPath<'s>> for taproot::TapLeafHash>::from":
                    ("sighash::ScriptPath::leaf_hash(arg1)", "taproot::TapLeafHash::from_script(arg1.script, arg1.leaf_version)"),
                "sighash::ScriptPath::<'s>::new": ("sighash::ScriptPath::ScriptPath{arg1, arg2, arg3}",),
                "sighash::ScriptPath::<'s>::with_defaults": ("sighash::ScriptPath::new(arg1, 4294967295, taproot::LeafVersion::TAPSCRIPT)",
                                                            "sighash::ScriptPath::ScriptPath{arg1, 4294967295, taproot::LeafVersion::TAPSCRIPT}")}
    for fnp, wants in sp_views.items():
        fsp = prog.fn(fnp)
        t = re.sub(r"@[\w]*#\d+", "", show(Prov(fsp.body).local(0), -30))
        c.inst("R5.script-path-leaf", fnp.split("::")[-1] if "impl" not in fnp else "From<ScriptPath> for TapLeafHash", t in wants, "returns %s" % t[:200], fsp.where(), fnp)
    c.floor("R5.script-path-leaf", 4)


def run(c, prog, ctx):
    c.explanation = (
        "Static decision of the commitment structure of the three signature-hash algorithms: the ordered list of "
        "(committed value, sink, wire type, guard set) extracted from the MIR of taproot_encode_signing_data_to, "
        "encode_segwitv0_signing_data_to and encode_legacy_signing_data_to is compared row by row with spec tables "
        "transcribed from the Elements taproot-sighash document, BIP143 with the issuance extension and the legacy "
        "algorithm (tables in vflib/rules/c03.py, quoted in the evidence); plus the contents of the three hash caches, "
        "the outpoint flag byte and the TapLeaf preimage. Equality of digests with an independent implementation is "
        "not decided; what is decided is that every committed field is fed, in order, under the right condition, and "
        "nothing else is.")
    c.assume("the spec tables in vflib/rules/c03.py transcribe the specifications correctly")
    _taproot(c, prog)
    _segwit(c, prog)
    _legacy(c, prog)
    _caches(c, prog)
    _flags_tags(c, prog)
    c.floor("R1.taproot.row", 36, "36 spec rows")
    c.floor("R2.segwit.row", 18, "18 spec rows")

    # the ANYONECANPAY split the guards above rely on, as an exact table over every variant of the hash type
    from .predicates import split_table as _split_table
    for _p in ("sighash::SchnorrSighashType::split_anyonecanpay_flag", "transaction::EcdsaSighashType::split_anyonecanpay_flag"):
        _f, _t = _split_table(prog, _p)
        _bad = []
        for _d, (_name, _r) in sorted(_t.items()):
            _acp = _name.endswith("PlusAnyoneCanPay")
            _base = _name[:-len("PlusAnyoneCanPay")] if _acp else _name
            if _r != (_base, int(_acp)):
                _bad.append((_name, _r))
        c.inst("R5.acp-split-table", _p.split("::")[-2], not _bad and len(_t) >= 6, "table %s; deviations %s" % ({k: v[1] for k, v in _t.items()}, _bad), _f.where(), _p)

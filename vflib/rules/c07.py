"""C07 — PSET serialization: key-type table bijection per map, duplicate/invalid-key guards,
framing, mandatory-field guards, count ownership, tap-tree leaf order, ELIP accessors,
proprietary key and hand-written value codecs."""
import re

from ..analysis import events, cond_desc, effects, err_returns, ret_assignments, is_encode_call, is_decode_call
from ..mir import Prov, Guards, show, callee_name, walk_term
from ..psetmaps import MAPS, writer_table, _reader_rows_from_effects, _first_field


def _num(lab):
    m = re.match(r"^=(\d+)$", lab or "")
    return int(m.group(1)) if m else None


def _default_roots(prog, fnp):
    """terms that denote the struct being filled in a hand-written Decodable (`let mut rv = Self::default()`)"""
    fn = prog.fn(fnp)
    b = fn.body
    p = Prov(b)
    roots = []
    for bi, t in b.calls(lambda t: callee_name(t).endswith("as std::default::Default>::default")):
        roots.append(p._call(t, True))
    return tuple(roots)


def _reader_table_io(prog, owner):
    """reader rows of Input / Output: insert_pair + mandatory fields in Decodable + keyed-map values + hash helper"""
    rows = {}
    ip = "<%s as pset::map::Map>::insert_pair" % owner
    fn, rr = _reader_rows_from_effects(prog, ip, (("arg", 1),))
    dec = "<%s as encode::Decodable>::consensus_decode" % owner
    fnd, rd = _reader_rows_from_effects(prog, dec, _default_roots(prog, dec))
    for r in rr + rd:
        kt = _num(r["ktype"])
        if kt is None:
            continue
        st = _num(r["subtype"]) if r["subtype"] else None
        if kt == 0xFC and st is None:
            continue
        key = (kt, st)
        cur = rows.setdefault(key, {"field": r["field"], "ty": None, "kty": None, "conds": r["conds"], "kind": r["kind"], "callee": r["callee"]})
        cur["ty"] = cur["ty"] or r["ty"]
        cur["kty"] = cur["kty"] or r["kty"]
    # mandatory fields decoded into locals by the hand-written Decodable
    _, loc = decodable_rows(prog, dec)
    for kt, r in loc.items():
        if (kt, None) not in rows and r["field"]:
            rows[(kt, None)] = {"field": r["field"], "ty": r["ty"], "kty": None, "conds": r["conds"], "kind": "assign", "callee": None}
    # keyed maps: the value type is in VacantEntry::insert(<V as Deserialize>::deserialize(raw_value))
    b = fn.body
    g = Guards(b)
    p = Prov(b)
    for bi, t in b.calls(lambda t: callee_name(t).endswith("VacantEntry::<'a, K, V, A>::insert")):
        cd = cond_desc(b, g.conds(bi))
        kt = [_num(l) for d, l in cd if d.endswith(".key.type_value")]
        if not kt or kt[0] is None:
            continue
        v = p.operand(t["args"][1])
        for x in walk_term(v):
            if x[0] == "call":
                m = re.match(r"^<(.*) as pset::serialize::Deserialize>::deserialize$", x[1])
                if m and (kt[0], None) in rows:
                    rows[(kt[0], None)]["ty"] = m.group(1)
    # hash preimage helper: generic argument gives the key type
    for bi, t in b.calls(lambda t: callee_name(t).endswith("pset_insert_hash_pair")):
        cd = cond_desc(b, g.conds(bi))
        kt = [_num(l) for d, l in cd if d.endswith(".key.type_value")]
        m = re.search(r"pset_insert_hash_pair::<(.*)>$", t.get("callee_full", ""))
        fld = _first_field(p.operand(t["args"][0]))
        if kt and kt[0] is not None:
            rows[(kt[0], None)] = {"field": ".".join(fld) if fld else None, "ty": "std::vec::Vec<u8>", "kty": "engine:" + (m.group(1) if m else "?"),
                                   "conds": cd, "kind": "helper", "callee": "pset_insert_hash_pair"}
    return fn, fnd, rows


def decodable_rows(prog, fnp):
    """rows of a hand-written Decodable loop that stores decoded values in locals first:
    {ktype: {ty, field}} using call-site tagged terms to connect the decode site with the struct field"""
    fd = prog.fn(fnp)
    b = fd.body
    g = Guards(b)
    p = Prov(b, site_tag=r"Deserialize>::deserialize$")
    rrows = {}
    for bi in sorted(b.reachable()):
        for s in b.stmts(bi):
            if s["k"] != "assign" or s["pl"]["p"]:
                continue
            v = p._rvalue(s["rv"], True)
            if v[0] != "agg" or v[1] != "std::option::Option::Some":
                continue
            cd = cond_desc(b, g.conds(bi))
            kt = [_num(l) for d, l in cd if d.endswith(".key.type_value")]
            if not kt or kt[0] is None:
                continue
            inner = v[3][0]
            m = re.match(r"^<(.*) as pset::serialize::Deserialize>::deserialize$", inner[1]) if inner[0] == "call" else None
            if m:
                rrows[kt[0]] = {"ty": m.group(1), "site": inner[5] if len(inner) > 5 else None, "conds": cd, "field": None}
    site_field = {}
    # struct literals in the return value
    def scan(t, prefix):
        if t[0] == "phi":
            for a in t[1]:
                scan(a, prefix)
        elif t[0] == "agg" and t[2] and (t[1].startswith("pset::map::") or t[1] == "std::result::Result::Ok"):
            for n, o in zip(t[2], t[3]):
                scan(o, prefix + [n] if not t[1].startswith("std::result::") else prefix)
        else:
            for x in walk_term(t):
                if x[0] == "call" and len(x) > 5 and x[5] is not None and prefix:
                    site_field.setdefault(x[5], ".".join(prefix))
    scan(p.local(0), [])
    # field assignments `rv.f = local.ok_or(..)?`
    for e in effects(b, p):
        t = e["target"]
        if t[0] == "fld" and t[2].startswith("pset::map::") and e["value"] is not None:
            for x in walk_term(e["value"]):
                if x[0] == "call" and len(x) > 5 and x[5] is not None:
                    site_field.setdefault(x[5], t[3])
    for k, r in rrows.items():
        r["field"] = site_field.get(r["site"])
    return fd, rrows


ENGINE_HASH = {"engine:hashes::ripemd160::HashEngine": "hashes::Ripemd160", "engine:hashes::sha256::HashEngine": "hashes::Sha256",
               "engine:hashes::hash160::HashEngine": "hashes::Hash160", "engine:hashes::sha256d::HashEngine": "hashes::Sha256d"}


def _key_tables(c, prog):
    for name in ("Input", "Output"):
        owner = MAPS[name]
        fw, W = writer_table(prog, owner)
        fr, fd, R = _reader_table_io(prog, owner)
        fields = prog.struct_fields(owner)
        wfields = set()
        n = 0
        for w in W:
            if w["field"]:
                wfields.add(w["field"].split(".")[0])
            if not isinstance(w["ktype"], int) or w["subtype"] == "*":
                continue
            key = (w["ktype"], w["subtype"] if isinstance(w["subtype"], int) else None)
            r = R.get(key)
            n += 1
            fld = (w["field"] or "").split(".")[0]
            ok = r is not None and (r["field"] or "").split(".")[0] == fld
            detail = "writer emits key type %s%s for field `%s`; reader assigns that key to %s" % (
                hex(key[0]), "/%d" % key[1] if key[1] is not None else "", fld, r["field"] if r else "nothing")
            c.inst("R1.key-field:" + name, "%s%s <-> %s" % (hex(key[0]), "/%d" % key[1] if key[1] is not None else "", fld), ok, detail, fw.where(), fw.path)
            if r is None:
                continue
            if w["keyed"]:
                rk = ENGINE_HASH.get(r["kty"], r["kty"])
                c.inst("R1.key-codec:" + name, "%s key type of `%s`" % (hex(key[0]), fld), rk == w["kty"],
                       "map key serialized as %s, deserialized as %s" % (w["kty"], rk), fw.where(), fw.path)
            wt = w["ty"]
            c.inst("R1.value-codec:" + name, "%s%s value type of `%s`" % (hex(key[0]), "/%d" % key[1] if key[1] is not None else "", fld), wt == r["ty"],
                   "value serialized as %s, deserialized as %s" % (wt, r["ty"]), fw.where(), fw.path)
            # R2 guards on the reader arm
            cd = r["conds"]
            if r["kind"] == "assign":
                has_empty = any(d.endswith(".key)") and "is_empty" in d and l == "true" for d, l in cd) or name == "Output" and key == (4, None) or key in ((14, None), (15, None))
                has_none = any("is_none(" in d and l == "true" for d, l in cd) or any(d.startswith("discr(") and l == "None" for d, l in cd)
                c.inst("R2.unkeyed-guards:" + name, "%s%s `%s`" % (hex(key[0]), "/%d" % key[1] if key[1] is not None else "", fld),
                       has_none and (has_empty or key in ((14, None), (15, None), (4, None))),
                       "reader arm must require empty key data (else InvalidKey) and an unset field (else DuplicateKey); guards %s" % cd[-3:], fr.where(), fr.path)
        # uniqueness of key types on both sides
        keys = [(w["ktype"], w["subtype"]) for w in W if isinstance(w["ktype"], int) and w["subtype"] != "*"]
        c.inst("R1.key-unique:" + name, "no two fields share a key type", len(keys) == len(set(keys)), "keys %s" % sorted(map(str, keys)), fw.where(), fw.path)
        rf = {}
        for k, r in R.items():
            rf.setdefault((r["field"] or "").split(".")[0], []).append(k)
        dup = {f: ks for f, ks in rf.items() if len(ks) > 1}
        c.inst("R1.reader-unique:" + name, "no field is filled from two key types", not dup, "fields with several keys %s" % dup, fr.where(), fr.path)
        missing_w = [f for f in fields if f not in wfields]
        c.inst("R1.all-fields-emitted:" + name, "every struct field is emitted by get_pairs", not missing_w, "never emitted: %s" % missing_w, fw.where(), fw.path)
        rfields = set(rf) | {"proprietary", "unknown"}
        missing_r = [f for f in fields if f not in rfields]
        c.inst("R1.all-fields-parsed:" + name, "every struct field has a reader arm", not missing_r, "never parsed: %s" % missing_r, fr.where(), fr.path)
        c.sample({"rule": "R1", "map": name, "rows": [(hex(k[0]), k[1], r["field"], r["ty"]) for k, r in sorted(R.items(), key=lambda x: (x[0][0], x[0][1] or -1))][:60]})
        # duplicate / invalid key errors exist
        errs = err_returns(fr.body)
        ndup = sum(1 for e in errs if "DuplicateKey" in e[1])
        ninv = sum(1 for e in errs if "InvalidKey" in e[1])
        nun = sum(1 for k, r in R.items() if r["kind"] == "assign" and k not in ((14, None), (15, None), (4, None)))
        nkeyed = sum(1 for k, r in R.items() if r["kind"] == "mutarg")
        c.inst("R2.error-edges:" + name, "a DuplicateKey and an InvalidKey return per unkeyed arm; DuplicateKey per keyed arm (+ proprietary, unknown)",
               ndup >= nun + nkeyed + 2 and ninv >= nun + nkeyed, "DuplicateKey returns %d, InvalidKey returns %d, unkeyed arms %d, keyed arms %d" % (ndup, ninv, nun, nkeyed), fr.where(), fr.path)
    # the two catch-all maps: every `entry()` taken on self.proprietary / self.unknown in insert_pair has its own Occupied arm that
    # returns DuplicateKey (one per entry call: or_insert / insert-over would accept the same key twice and keep one value)
    for name, owner in MAPS.items():
        fr2 = prog.fn("<%s as pset::map::Map>::insert_pair" % owner)
        p2 = Prov(fr2.body)
        ents = [(bi, show(p2._call(t, True), -12)) for bi, t in fr2.body.calls(lambda t: callee_name(t).endswith("BTreeMap::<K, V, A>::entry")
                                                                                 and show(p2.operand(t["args"][0]), -9) in ("arg1.proprietary", "arg1.unknown"))]
        dups = [e for e in err_returns(fr2.body) if "DuplicateKey" in str(e[1]) and e[2] and e[2][-1][1] == "Occupied"]
        g2 = Guards(fr2.body)
        covered = 0
        for bi, term in ents:
            if any(e[2][-1][0] == "discr(%s)" % term and fr2.body.dominates(bi, e[0]) for e in dups):
                covered += 1
        c.inst("R2.catch-all-duplicates:" + name, "each entry() on proprietary/unknown rejects an occupied key", ents and covered == len(ents),
               "%d entry calls, %d with a dominated Occupied => DuplicateKey return" % (len(ents), covered), fr2.where(), fr2.path)
    c.floor("R1.key-field:Input", 46, "24 standard + 22 proprietary")
    c.floor("R1.key-field:Output", 18, "8 standard + 10 proprietary")
    _hash_helper(c, prog)
    _global_table(c, prog)
    _proprietary_prefix(c, prog)


def _proprietary_prefix(c, prog):
    """every reader arm that interprets a proprietary subtype as an Elements field is guarded by the
    `pset` prefix test (ProprietaryKey::is_pset_key), otherwise foreign proprietary pairs are swallowed"""
    fns = ["<%s as pset::map::Map>::insert_pair" % o for o in MAPS.values()] + ["<%s as encode::Decodable>::consensus_decode" % MAPS["Global"]]
    n = 0
    for fnp in fns:
        f = prog.fn(fnp)
        b = f.body
        g = Guards(b)
        seen = {}
        for bi in sorted(b.reachable()):
            has_effect = any(s["k"] == "assign" and (s["pl"]["p"] or b.local_name(s["pl"]["l"])) for s in b.stmts(bi)) or \
                (b.term(bi)["k"] == "call" and re.search(r"::(push|insert)$", callee_name(b.term(bi)) or "") is not None)
            if not has_effect:
                continue
            cd = cond_desc(b, g.conds(bi))
            pins = [(d, l) for d, l in cd if ".subtype" in d and (re.match(r"^=\d+$", l) or (" Eq " in d and l == "true"))]
            if not pins:
                continue
            m = re.search(r"(\d+)\)?$", pins[-1][0]) if " Eq " in pins[-1][0] else re.match(r"^=(\d+)$", pins[-1][1])
            sub = m.group(1) if m else "?"
            guarded = any("is_pset_key(" in d and l == "true" for d, l in cd)
            key = "%s subtype %s" % (fnp.split(" as ")[0].lstrip("<").split("::")[-1], sub)
            seen[key] = seen.get(key, True) and guarded
        for key, ok in sorted(seen.items()):
            n += 1
            c.inst("R1.proprietary-prefix", key, ok,
                   "a proprietary pair with this subtype is interpreted as an Elements field without checking the `pset` prefix (is_pset_key): "
                   "foreign proprietary pairs with the same subtype (e.g. ELIP-100 metadata) are rejected or swallowed instead of round-tripping", f.where(), fnp)
    c.floor("R1.proprietary-prefix", 34, "22 input + 10 output + 2 global subtypes")


def _hash_helper(c, prog):
    f = prog.fn("pset::map::input::pset_insert_hash_pair")
    b = f.body
    g = Guards(b)
    errs = err_returns(b)
    e = [x for x in errs if "InvalidPreimageHashPair" in x[1]]
    ok = len(e) == 1 and any("HashEngine::finalize" in d and "deserialize(arg2.key)" in d and
                             (("::ne(" in d and l == "true") or ("::eq(" in d and l == "false")) for d, l in e[0][2])
    ins = [bi for bi, t in b.calls(lambda t: callee_name(t).endswith("VacantEntry::<'a, K, V, A>::insert"))]
    dom = False
    if e and ins:
        # the insert is not reachable from the mismatch edge
        dom = ins[0] not in b.reach_from(e[0][0])
    c.inst("R2.preimage-check", "hash(preimage) != key => InvalidPreimageHashPair, checked before insertion", ok and dom,
           "errors %s" % [(x[1][:50], x[2][-1:]) for x in errs], f.where(), f.path)
    c.inst("R2.preimage-helper-guards", "empty key => InvalidKey; occupied => DuplicateKey",
           any("InvalidKey" in x[1] for x in errs) and any("DuplicateKey" in x[1] for x in errs), "", f.where(), f.path)


def _global_table(c, prog):
    owner = MAPS["Global"]
    fw, W = writer_table(prog, owner)
    fd = prog.fn("<%s as encode::Decodable>::consensus_decode" % owner)
    b = fd.body
    _, rrows = decodable_rows(prog, fd.path)
    field_site = {r["site"]: r["field"] for r in rrows.values()}
    for w in W:
        if not isinstance(w["ktype"], int) or w["ktype"] in (0xFC, 1):
            continue
        r = rrows.get(w["ktype"])
        fld = w["field"]
        ok = r is not None and r["ty"] == w["ty"] and field_site.get(r["site"]) in (fld, fld.replace("tx_data.", "tx_data."))
        c.inst("R1.key-field:Global", "%s <-> %s" % (hex(w["ktype"]), fld), ok,
               "writer emits %s (%s) for `%s`; reader decodes %s into `%s`" % (hex(w["ktype"]), w["ty"], fld, r["ty"] if r else None, field_site.get(r["site"]) if r else None),
               fw.where(), fw.path)
        if r:
            cd = r["conds"]
            c.inst("R2.unkeyed-guards:Global", "%s `%s`" % (hex(w["ktype"]), fld),
                   any("is_empty" in d and l == "true" for d, l in cd) and any("is_none(" in d and l == "true" for d, l in cd),
                   "guards %s" % cd[-3:], fd.where(), fd.path)
    c.floor("R1.key-field:Global", 6, "tx version, fallback locktime, two counts, tx modifiable, version")
    # xpub: key = 78-byte xpub encoding, value = fingerprint + 4n path; reader requires non-empty key and len % 4 == 0
    errs = err_returns(b)
    texts = " | ".join(e[1] for e in errs)
    for needle, what in (("Xpub global key must contain serialized Xpub data", "xpub: empty key rejected"),
                         ("Incorrect length of global xpub derivation data", "xpub: value length % 4 checked"),
                         ("Repeated global xpub key", "xpub: duplicate rejected")):
        c.inst("R2.global-xpub", what, needle in texts, "error returns: %s" % texts[:200], fd.where(), fd.path)
    # scalars
    sc = [w for w in W if w["ktype"] == 0xFC and w["subtype"] == 0]
    wval = re.sub(r"@[\w]*#\d+", "", sc[0]["raw"].rsplit(", ", 1)[-1].rstrip("}")) if len(sc) == 1 else None
    c.inst("R1.global-scalar-writer", "scalar: proprietary subtype 0, 32-byte key, empty value", len(sc) == 1 and sc[0]["keyed"] and wval == "std::vec::Vec::new()",
           "row %s" % (sc[0]["raw"] if sc else None), fw.where(), fw.path)
    # ... and the reader that deserialization actually uses (Global's own Decodable loop) stores a scalar exactly under the
    # writer's form: empty value, 32-byte key data (the published scalars of a non-last blinder must survive every hop)
    gd_, pd_ = Guards(b), Prov(b)
    spush = []
    for bi, t in b.calls(lambda t: callee_name(t).endswith("Vec::<T, A>::push")):
        a0 = show(pd_.operand(t["args"][0]), -9)
        if "scalars" in a0:
            cd = cond_desc(b, gd_.conds(bi))
            spush.append([(re.sub(r"ok\(<pset::raw::Pair as encode::Decodable>::consensus_decode\(arg1\)\)", "PAIR", d), l) for d, l in cd])
    need = [("std::vec::Vec::is_empty(PAIR.value)", "true"), ("(std::vec::Vec::len(pset::raw::ProprietaryKey::from_key(PAIR.key).key) Eq 32)", "true")]
    c.inst("R1.global-scalar-reader", "scalar accepted iff the value is empty and the key data has 32 bytes (the writer's form)",
           len(spush) == 1 and all(n in spush[0] for n in need) and not any(("PAIR.value" in d and (d, l) != need[0]) for d, l in spush[0]),
           "conditions of the scalar push %s" % (spush[0][-5:] if spush else None), fd.where(), fd.path)
    # mandatory fields
    want = ["IncorrectPsetVersion", "MissingTxVersion", "MissingInputCount", "MissingOutputCount"]
    oko = [show(e["args"][1]) for e in events(b, lambda t: callee_name(t).endswith("Option::<T>::ok_or"))]
    for wv in want:
        c.inst("R4.mandatory:Global", wv, any(wv in x for x in oko), "ok_or sites %s" % oko, fd.where(), fd.path)
    ver = [e for e in errs if "IncorrectPsetVersion" in e[1]]
    c.inst("R4.mandatory:Global", "version == 2", any(any(" Ne 2)" in d and l == "true" or " Eq 2)" in d and l == "false" for d, l in e[2]) for e in ver),
           "version errors %s" % [(e[1], e[2][-1:]) for e in ver], fd.where(), fd.path)


# ------------------------------------------------------------------ framing
def _framing(c, prog):
    P = "pset::PartiallySignedTransaction"
    fe = prog.fn("<%s as encode::Encodable>::consensus_encode" % P)
    ev = [(show(e["args"][0]), e["self_ty"]) for e in events(fe.body, is_encode_call)]
    want = [('b"pset"', "[u8; 4]"), ("255", "u8"), ("arg1.global", MAPS["Global"]), ("elem(arg1.inputs)", MAPS["Input"]), ("elem(arg1.outputs)", MAPS["Output"])]
    c.inst("R3.framing-writer", "magic, 0xff, global, inputs..., outputs...", ev == want, "events %s" % ev, fe.where(), fe.path)
    fd = prog.fn("<%s as encode::Decodable>::consensus_decode" % P)
    b = fd.body
    g = Guards(b)
    evd = [(e["self_ty"]) for e in events(b, is_decode_call)]
    c.inst("R3.framing-reader", "same order on the reader side", evd == ["[u8; 4]", "u8", MAPS["Global"], MAPS["Input"], MAPS["Output"]], "events %s" % evd, fd.where(), fd.path)
    errs = err_returns(b)
    texts = [e[1] for e in errs]
    c.inst("R3.magic-check", "wrong magic / separator => error", any("InvalidMagic" in t for t in texts) and any("InvalidSeparator" in t for t in texts), "errors %s" % texts, fd.where(), fd.path)
    # sanity_check dominates Ok
    oks = [bi for (bi, k, _) in ret_assignments(b) if k == "ok"]
    sc = [bi for bi, t in b.calls(lambda t: callee_name(t).endswith("PartiallySignedTransaction::sanity_check"))]
    c.inst("R3.sanity-check-dominates", "sanity_check()? before Ok(pset)", len(oks) == 1 and len(sc) == 1 and b.dominates(sc[0], oks[0]), "ok blocks %s sanity calls %s" % (oks, sc), fd.where(), fd.path)
    caps = [e for e in errs if "TooLargePset" in e[1] or "10000" in " ".join(d for d, l in e[2])]
    guards = {d for e in errs for d, l in e[2] if "10000" in d}
    c.inst("R3.count-caps", "input/output counts capped at 10 000 before allocation", len(guards) >= 2, "cap comparisons %s" % sorted(guards), fd.where(), fd.path)
    fs = prog.fn(P + "::sanity_check")
    es = err_returns(fs.body)
    c.inst("R3.sanity-check", "n_inputs != inputs.len() / n_outputs != outputs.len() => error",
           any("InputCountMismatch" in e[1] for e in es) and any("OutputCountMismatch" in e[1] for e in es), "errors %s" % [e[1] for e in es], fs.where(), fs.path)
    # map terminator and NoMorePairs
    for name, owner in MAPS.items():
        f = prog.fn("<%s as encode::Encodable>::consensus_encode" % owner)
        ev = [(show(e["args"][0]), e["self_ty"], cond_desc(f.body, e["conds"])) for e in events(f.body, is_encode_call)]
        ok = len(ev) == 2 and ev[0][1] == "pset::raw::Pair" and ev[1][:2] == ("0", "u8") and any(l == "None" for d, l in ev[1][2])
        c.inst("R3.map-terminator", name, ok, "events %s" % ev, f.where(), f.path)
    fk = prog.fn("<pset::raw::Key as encode::Decodable>::consensus_decode")
    ek = err_returns(fk.body)
    c.inst("R3.no-more-pairs", "key length 0 => NoMorePairs", any("NoMorePairs" in e[1] and any(" Eq 0)" in d and l == "true" for d, l in e[2]) for e in ek),
           "errors %s" % [(e[1], e[2]) for e in ek], fk.where(), fk.path)
    # raw::Key writer/reader: [varint(len+1), type, key bytes]
    fke = prog.fn("<pset::raw::Key as encode::Encodable>::consensus_encode")
    ev = [(show(e["args"][0]), e["self_ty"]) for e in events(fke.body, is_encode_call)]
    c.inst("R8.raw-key-writer", "[varint(key.len()+1), type_value, key bytes]",
           ev == [("encode::VarInt::VarInt{((std::vec::Vec::len(arg1.key) AddWithOverflow 1).0 as u64)}", "encode::VarInt"), ("arg1.type_value", "u8"), ("elem(arg1.key)", "u8")],
           "events %s" % ev, fke.where(), fke.path)
    evd = [(e["self_ty"]) for e in events(fk.body, is_decode_call)]
    rt = show(Prov(fk.body).local(0), -9)
    c.inst("R8.raw-key-reader", "varint, type byte, then len-1 key bytes", evd == ["encode::VarInt", "u8", "u8"] and "SubWithOverflow 1" in rt, "events %s" % evd, fk.where(), fk.path)


# ------------------------------------------------------------------ mandatory fields of Output / Input
def _mandatory(c, prog):
    fo = prog.fn("<%s as encode::Decodable>::consensus_decode" % MAPS["Output"])
    errs = [e[1] for e in err_returns(fo.body)]
    oko = [show(e["args"][1]) for e in events(fo.body, lambda t: callee_name(t).endswith("Option::<T>::ok_or"))]
    allerr = " | ".join(errs + oko)
    for wv in ("MissingOutputSpk", "MissingOutputValue", "MissingOutputAsset", "MissingBlinderIndex", "MissingBlindingInfo"):
        c.inst("R4.mandatory:Output", wv, wv in allerr, "error sites: %s" % allerr[:300], fo.where(), fo.path)
    # the exact condition of each post-loop error of the Output reader, as the set of presence tests that dominate it
    # (a well-formed output the writer emits must not be refused: e.g. a blinder index without a blinding key is legal)
    want = {"MissingOutputValue": {("amount", False), ("amount_comm", False)},
            "MissingOutputAsset": {("asset", False), ("asset_comm", False)},
            "MissingBlinderIndex": {("blinding_key", True), ("blinder_index", False)},
            "MissingBlindingInfo": {("is_marked_for_blinding", True), ("is_partially_blinded", True), ("is_fully_blinded", False)}}
    for e in err_returns(fo.body):
        m = re.search(r"pset::error::Error::(Missing\w+)\{\}", str(e[1]))
        if not m or m.group(1) not in want:
            continue
        got, odd = set(), []
        for d, l in e[2]:
            d2 = re.sub(r"<pset::map::output::Output as std::default::Default>::default\(\)(@[\w]*#\d+)?", "RV", d)
            if "RV" not in d2:
                continue
            m1 = re.match(r"^discr\(RV\.(\w+)\)$", d2)
            m2 = re.match(r"^std::option::Option::is_(some|none)\(RV\.(\w+)\)$", d2)
            m3 = re.match(r"^pset::map::output::Output::(is_\w+)\(RV\)$", d2)
            if m1 and l in ("Some", "None"):
                got.add((m1.group(1), l == "Some"))
            elif m2 and l in ("true", "false"):
                got.add((m2.group(2), (m2.group(1) == "some") == (l == "true")))
            elif m3 and l in ("true", "false"):
                got.add((m3.group(1), l == "true"))
            else:
                odd.append((d2[:100], l))
        c.inst("R4.mandatory-condition:Output", m.group(1), got == want[m.group(1)] and not odd,
               "raised under %s%s; specified %s" % (sorted(got), (" and %s" % odd) if odd else "", sorted(want[m.group(1)])), fo.where(), fo.path)
    c.floor("R4.mandatory-condition:Output", 4)
    fi = prog.fn("<%s as encode::Decodable>::consensus_decode" % MAPS["Input"])
    errs = [e[1] for e in err_returns(fi.body)]
    oko = [show(e["args"][1]) for e in events(fi.body, lambda t: callee_name(t).endswith("Option::<T>::ok_or"))]
    allerr = " | ".join(errs + oko)
    for wv in ("MissingInputPrevTxId", "MissingInputPrevVout"):
        c.inst("R4.mandatory:Input", wv, wv in allerr, "error sites: %s" % allerr[:300], fi.where(), fi.path)


# ------------------------------------------------------------------ count ownership
def _count_ownership(c, prog):
    P = "pset::PartiallySignedTransaction"
    allowed = {P + "::add_input", P + "::insert_input", P + "::remove_input", P + "::add_output", P + "::insert_output", P + "::remove_output"}
    pair = {"input_count": "inputs", "output_count": "outputs"}
    n = 0
    for path, fn in prog.fns.items():
        if not path.startswith("pset::") and not path.startswith("<pset::"):
            continue
        bd = fn.body
        effs = None
        for e in effects(bd):
            t = e["target"]
            if t[0] == "fld" and t[2] == "pset::map::global::TxData" and t[3] in pair and e["kind"] == "assign":
                n += 1
                root = path.split("::{closure")[0]
                ok = root in allowed
                delta = show(e["value"])
                c.inst("R5.count-writers", "%s in %s" % (t[3], root), ok, "TxData.%s is modified outside the paired mutators: %s" % (t[3], delta), fn.where(e.get("sp")), path)
                if ok:
                    # paired vector operation in the same function
                    vec = pair[t[3]]
                    ops = [x["callee"] for x in effects(bd) if x["kind"] == "mutarg" and show(x["target"]).endswith("." + vec)]
                    want = "push" if "add_" in root else "insert" if "insert_" in root else "remove"
                    sign = "AddWithOverflow 1" if want in ("push", "insert") else "SubWithOverflow 1"
                    c.inst("R5.count-paired", root, any((o or "").endswith("::" + want) for o in ops) and sign in delta,
                           "count changes by `%s`, vector operations %s" % (delta, [(o or "").split("::")[-1] for o in ops]), fn.where(), path)
    c.floor("R5.count-writers", 6, "three mutators per vector")
    # the vectors are private
    ty = prog.ty(P)
    vis = {f["name"]: f["pub"] for f in ty["variants"][0]["fields"]}
    c.inst("R5.vectors-private", "inputs/outputs are private fields", vis.get("inputs") is False and vis.get("outputs") is False, "visibility %s" % vis, None, P)
    tx = prog.ty("pset::map::global::TxData")
    visd = {f["name"]: f["pub"] for f in tx["variants"][0]["fields"]}
    c.inst("R5.counts-private", "input_count/output_count are not public", visd.get("input_count") is False and visd.get("output_count") is False, "visibility %s" % visd, None, "pset::map::global::TxData")


# ------------------------------------------------------------------ tap tree order
def _taptree(c, prog):
    fc = prog.fn("taproot::NodeInfo::combine")
    b = fc.body
    pushes = [e for e in events(b, lambda t: callee_name(t).endswith("Vec::<T, A>::push"))]
    order = [show(e["args"][1]) for e in pushes]
    c.inst("R6.combine-leaf-order", "combine(a, b) stores a's leaves then b's", order == ["elem(arg1.leaves)", "elem(arg2.leaves)"], "pushes %s" % order, fc.where(), fc.path)
    fi = prog.fn("taproot::TaprootBuilder::insert")
    bi_ = fi.body
    p = Prov(bi_)
    calls = [(bi, t) for bi, t in bi_.calls(lambda t: callee_name(t) == "taproot::NodeInfo::combine")]
    ok = False
    detail = "no combine call"
    if len(calls) == 1:
        a0, a1 = (show(p.operand(x), -9) for x in calls[0][1]["args"])
        # the popped sibling (earlier in DFS order) must be the first operand
        POP = "some(some(std::vec::Vec::pop(arg1.branch)))"
        ok = a0 == POP and a1 != POP
        detail = "combine(%s, %s)" % (a0[:80], a1[:80])
    c.inst("R6.dfs-leaf-order", "insert() combines (earlier sibling popped from the branch, new node) so leaves stay in DFS order", ok,
           detail + " — with the operands the other way round TapTree::serialize emits reverse DFS order and re-encoding a decoded tree is not a fixpoint", fi.where(), fi.path)
    fs = prog.fn("<pset::map::output::TapTree as pset::serialize::Serialize>::serialize")
    bs = fs.body
    ev = [show(e["args"][1]) for e in events(bs, lambda t: callee_name(t).endswith("Vec::<T, A>::push"))]
    enc = [show(e["args"][0]) for e in events(bs, is_encode_call)]
    LEAF = "elem(some(some(core::slice::last("
    okw = len(ev) == 2 and "merkle_branch" in ev[0] and "as u8" in ev[0] and "LeafVersion::as_u8" in ev[1] and len(enc) == 1 and enc[0].endswith(".script")
    c.inst("R6.taptree-writer", "per leaf in stored order: depth byte, version byte, script", okw, "pushes %s encodes %s" % (ev, enc), fs.where(), fs.path)
    fd = prog.fn("<pset::map::output::TapTree as pset::serialize::Deserialize>::deserialize")
    bd = fd.body
    pd = Prov(bd)
    al = [(bi, t) for bi, t in bd.calls(lambda t: callee_name(t).endswith("TaprootBuilder::add_leaf_with_ver"))]
    okr = False
    detail = "no add_leaf_with_ver"
    if len(al) == 1:
        args = [show(pd.operand(x), -9) for x in al[0][1]["args"]]
        okr = "encode::deserialize_partial" in args[2] and "LeafVersion::from_u8" in args[3] and "usize" in args[1] or "From<u8>" in args[1]
        detail = "add_leaf_with_ver(%s)" % ", ".join(a[:60] for a in args)
    comp = [e for e in err_returns(bd) if "Incomplete taproot Tree" in e[1]]
    c.inst("R6.taptree-reader", "reads (depth, version, script) and inserts in read order; incomplete tree rejected", okr and len(comp) == 1, detail, fd.where(), fd.path)
    # stream advance: after the script was decoded from the iterator's remaining slice the iterator itself must move past
    # exactly the bytes deserialize_partial consumed (nth(consumed - 1) when consumed > 0), whatever the length prefix size
    from .c15 import Fn as _Fn, sh as _sh
    from ..ieval import ieval as _ieval, NoEval as _NoEval
    TD = _Fn(prog, "<pset::map::output::TapTree as pset::serialize::Deserialize>::deserialize")
    DP = "encode::deserialize_partial(std::slice::Iter::as_slice(arg1))"
    nth = [(cx, s_) for cx, s_ in TD.flat if s_[0] == "do" and s_[1].endswith("Iterator>::nth")]
    good = len(nth) == 1
    det = "nth calls %d" % len(nth)
    if good:
        cx, s_ = nth[0]
        amount = s_[2][1]
        guards = [(cn, arm) for k, cn, arm in cx if k == "if" and DP + ".1" in _sh(cn)]
        det = "advance by %s under %s" % (_sh(amount), [(_sh(g), a) for g, a in guards])
        try:
            for consumed in range(0, 600):
                env = {"k": consumed}
                lv = {DP + ".1": "k"}
                taken = all((bool(_ieval(g, env, lv)) if a == "otherwise" else _ieval(g, env, lv) == int(a[1:])) for g, a in guards)
                if consumed == 0:
                    if taken:
                        good = False      # nth(0 - 1) would skip a byte that was not consumed
                else:
                    if not taken or _ieval(amount, env, lv) != consumed - 1:
                        good = False
        except _NoEval as e:
            good = False
            det += " (not an expression of the consumed count: %s)" % e
    c.inst("R6.taptree-advance", "the reader advances by exactly the byte count the script decoder reports (any length-prefix size)", good, det, TD.f.where(), TD.f.path)
    # public keys: the reader accepts both the 33- and the 65-byte form and records which one it saw (`compressed`), so
    # the writer must emit according to that flag: the whole key (not just the curve point) has to reach the encoder
    PK = "<bitcoin::PublicKey as pset::serialize::Serialize>::serialize"
    PF = _Fn(prog, PK)
    calls = [(s_[1], [_sh(a) for a in s_[2]]) for cx, s_ in PF.flat if s_[0] == "do"]
    rets = [_sh(s_[1]) for cx, s_ in PF.flat if s_[0] == "ret"]
    whole = any(cn in ("bitcoin::PublicKey::write_into", "bitcoin::PublicKey::to_bytes") and a[0] == "arg1" for cn, a in calls) or any(r in ("bitcoin::PublicKey::to_bytes(arg1)",) for r in rets)
    partial = any(".inner" in r or ".compressed" in r for r in rets) or any(".inner" in x for cn, a in calls for x in a)
    c.inst("R7.pubkey-codec", "PublicKey value codec writes the key in the form its `compressed` flag says (reader accepts both forms)", whole and not partial,
           "calls %s; returns %s" % (calls, rets), PF.f.where(), PF.f.path)
    PD = _Fn(prog, "<bitcoin::PublicKey as pset::serialize::Deserialize>::deserialize")
    rd = [_sh(s_[1]) for cx, s_ in PD.flat if s_[0] == "ret"]
    c.inst("R7.pubkey-codec", "reader: PublicKey::from_slice on the whole value", any(r.startswith("bitcoin::PublicKey::from_slice(arg1)") or "bitcoin::PublicKey::from_slice(arg1)" in r for r in rd), "returns %s" % rd, PD.f.where(), PD.f.path)
    KO = "<(std::vec::Vec<taproot::TapLeafHash>, (bitcoin::bip32::Fingerprint, bitcoin::bip32::DerivationPath)) as pset::serialize::Deserialize>::deserialize"
    if prog.has_fn(KO):
        KF = _Fn(prog, KO)
        oks = [_sh(s_[1]) for cx, s_ in KF.flat if s_[0] == "ret" and _sh(s_[1]).startswith("std::result::Result::Ok")]
        P1 = "encode::deserialize_partial(arg1)"
        REST = "<(bitcoin::bip32::Fingerprint, bitcoin::bip32::DerivationPath) as pset::serialize::Deserialize>::deserialize(core::slice::index::<impl std::ops::Index<I> for [T]>::index(arg1, std::ops::RangeFrom::RangeFrom{%s.1}))" % P1
        c.inst("R6.key-origin-advance", "tap key origin: key source is read from exactly where the leaf-hash vector ended", oks == ["std::result::Result::Ok{tuple{%s.0, %s}}" % (P1, REST)], "Ok value %s" % [x[:300] for x in oks], KF.f.where(), KF.f.path)


# ------------------------------------------------------------------ ELIP accessors
def _elip(c, prog):
    pairs = [("pset::elip100::<impl pset::PartiallySignedTransaction>::add_asset_metadata", "pset::elip100::<impl pset::PartiallySignedTransaction>::get_asset_metadata"),
             ("pset::elip100::<impl pset::PartiallySignedTransaction>::add_token_metadata", "pset::elip100::<impl pset::PartiallySignedTransaction>::get_token_metadata"),
             ("pset::elip102::<impl pset::map::output::Output>::set_abf", "pset::elip102::<impl pset::map::output::Output>::get_abf")]
    for setp, getp in pairs:
        if not prog.has_fn(setp) or not prog.has_fn(getp):
            c.inst("R7.elip-accessors", setp.split("::")[-1], False, "accessor not found (%s / %s)" % (setp, getp), None, setp)
            continue
        ks = _key_ctor(prog, setp)
        kg = _key_ctor(prog, getp)
        c.inst("R7.elip-accessors", "%s / %s" % (setp.split("::")[-1], getp.split("::")[-1]), ks is not None and ks == kg,
               "setter builds key %s, getter looks up %s" % (ks, kg), prog.fn(setp).where(), setp)
        c.sample({"rule": "R7", "set": setp.split("::")[-1], "key": ks})


def _key_ctor(prog, fnp, depth=0):
    """constructor term of the proprietary key a function builds (following one level of local helper)"""
    f = prog.fn(fnp)
    b = f.body
    p = Prov(b)
    for bi, t in b.calls():
        n = callee_name(t)
        if re.search(r"ProprietaryKey::<Subtype>::from_pset_pair$|ProprietaryKey::from_pset_pair$|ProprietaryKey.*::from_pset_pair", n):
            args = [show(p.operand(a), -9) for a in t["args"]]
            return ("from_pset_pair", re.sub(r"@[\w]*#\d+", "", args[0]), re.sub(r"arg\d+", "ARG", re.sub(r"@[\w]*#\d+", "", args[1]))[:200])
        if t["k"] == "call" and t.get("resolved_local") and depth < 2 and re.search(r"prop_key|_key$|key_for", n):
            r = _key_ctor(prog, t["resolved"], depth + 1) if prog.has_fn(t["resolved"]) else None
            if r:
                return r
        if n.startswith("pset::raw::ProprietaryKey") and n.endswith("::new") or "ProprietaryKey::ProprietaryKey" in n:
            pass
    # struct literal
    for bi in sorted(b.reachable()):
        for s in b.stmts(bi):
            if s["k"] == "assign" and s["rv"]["k"] == "agg" and s["rv"].get("adt") == "pset::raw::ProprietaryKey":
                ops = [re.sub(r"arg\d+", "ARG", re.sub(r"@[\w]*#\d+", "", show(p.operand(o), -9)))[:160] for o in s["rv"]["ops"]]
                return ("literal",) + tuple(ops)
    # via helper call of any local fn that returns a ProprietaryKey
    for bi, t in b.calls():
        if t.get("resolved_local") and prog.has_fn(t.get("resolved", "")) and "ProprietaryKey" in prog.fn(t["resolved"]).j.get("output", "") and depth < 2:
            r = _key_ctor(prog, t["resolved"], depth + 1)
            if r:
                return r
    return None


# ------------------------------------------------------------------ proprietary key + value codecs
def _value_codecs(c, prog):
    fe = prog.fn("<pset::raw::ProprietaryKey<Subtype> as encode::Encodable>::consensus_encode")
    b = fe.body
    p = Prov(b)
    ev = [(show(e["args"][0]), e["self_ty"]) for e in events(b, is_encode_call)]
    wr = [(callee_name(t).split("::")[-1], show(p.operand(t["args"][1]))) for bi, t in b.calls(lambda t: re.search(r"emit_u8$|Write::write$|write_all$", callee_name(t)) is not None)]
    okw = ev == [("arg1.prefix", "std::vec::Vec<u8>")] and len(wr) == 2 and "subtype" in wr[0][1] and wr[1][1] == "arg1.key"
    c.inst("R8.proprietary-key-writer", "[prefix as vec, subtype byte, raw key bytes]", okw, "encodes %s writes %s" % (ev, wr), fe.where(), fe.path)
    fd = prog.fn("<pset::raw::ProprietaryKey<Subtype> as encode::Decodable>::consensus_decode")
    evd = [e["self_ty"] for e in events(fd.body, is_decode_call)]
    rest = [callee_name(t).split("::")[-1] for bi, t in fd.body.calls(lambda t: callee_name(t).endswith("read_to_end"))]
    c.inst("R8.proprietary-key-reader", "[vec, u8, read_to_end]", evd == ["std::vec::Vec<u8>", "u8"] and rest == ["read_to_end"], "decodes %s then %s" % (evd, rest), fd.where(), fd.path)
    # SchnorrSig: 64 => default sighash, 65 => explicit type
    fs = prog.fn("<schnorr::SchnorrSig as pset::serialize::Deserialize>::deserialize")
    bs = fs.body
    g = Guards(bs)
    lens = set()
    for (sb, tb, vals, excl) in g.switch_edges():
        d = show(Prov(bs).operand(bs.term(sb)["d"]))
        if d in ("core::slice::len(arg1)", "len(arg1)") and vals:
            lens |= set(vals)
    c.inst("R8.schnorr-sig-lengths", "accepted lengths {64, 65}", lens == {64, 65}, "lengths %s" % sorted(lens), fs.where(), fs.path)
    fse = prog.fn("<schnorr::SchnorrSig as pset::serialize::Serialize>::serialize")
    c.inst("R8.schnorr-sig-writer", "serialize = SchnorrSig::to_vec", "schnorr::SchnorrSig::to_vec(arg1)" in show(Prov(fse.body).local(0)), show(Prov(fse.body).local(0))[:120], fse.where(), fse.path)
    # to_vec itself: the sighash byte is appended for every type except Default (the reader maps 64 bytes to Default only)
    from .c15 import Fn as _Fn, sh as _sh
    from ..ieval import ieval as _ieval, NoEval as _NoEval
    TV = _Fn(prog, "schnorr::SchnorrSig::to_vec")

    def pushes(stmts, d):
        n = 0
        for st in stmts:
            if st[0] == "do" and st[1].endswith("::push"):
                n += 1
            elif st[0] == "if":
                try:
                    v = _ieval(st[1], {"d": d}, {"discr(arg1.hash_ty)": "d"})
                except _NoEval:
                    return None
                arm = "=%d" % v if "=%d" % v in st[2] else "otherwise"
                r = pushes(st[2].get(arm, []), d)
                if r is None:
                    return None
                n += r
            elif st[0] == "while":
                return None
        return n
    tab = {}
    for v in prog.types["sighash::SchnorrSighashType"]["variants"]:
        tab[v["name"]] = pushes(TV.L, int(v["discr"]))
    pushed = [_sh(s_[2][1]) for cx, s_ in TV.flat if s_[0] == "do" and s_[1].endswith("::push")]
    c.inst("R8.schnorr-sig-writer", "to_vec appends the sighash byte exactly when the type is not Default",
           all((n == 0) == (k == "Default") and n in (0, 1) for k, n in tab.items()) and set(pushed) == {"(discr(arg1.hash_ty) as u8)"},
           "bytes appended per type %s; value appended %s" % (tab, pushed), TV.f.where(), TV.f.path)


def _value_pairs(c, prog):
    """R9: the value codecs of the PSET layer (pset::serialize::{Serialize, Deserialize}) come in inverse pairs of one kind per
    type: both consensus (encode::serialize / encode::deserialize), both the 32/20 raw hash bytes (to_byte_array / from_byte_array
    of the same type), both the dependency's own byte form (X::serialize / X::from_slice of the same X), both the identity on
    bytes, or a consensus form wrapped in the same view in both directions. Types with a composite hand-written form are decided
    by R6/R7/R8 and listed here as such."""
    SER, DE = {}, {}
    for n in sorted(prog.fns):
        m = re.match(r"^<(.+) as pset::serialize::(Serialize|Deserialize)>::(?:de)?serialize$", n)
        if m:
            (SER if m.group(2) == "Serialize" else DE)[m.group(1)] = n
    ELSEWHERE = {"bitcoin::PublicKey", "schnorr::SchnorrSig", "pset::map::output::TapTree", "encode::VarInt", "confidential::Asset", "confidential::Value",
                 "bitcoin::Transaction"}
    IDXF = r"core::slice::index::<impl std::ops::Index<I> for \[T\]>::index\(arg1, std::ops::RangeFull::RangeFull\{\}\)"

    def kind_s(t):
        if t == "encode::serialize(arg1)":
            return ("consensus", None)
        m = re.match(r"^(.+)::to_byte_array\(arg1\)$", t)
        if m:
            return ("hash-bytes", m.group(1))
        m = re.match(r"^(.+)::serialize\(arg1\)$", t)
        if m:
            return ("own-bytes", m.group(1))
        if t in ("arg1", "script::Script::to_bytes(arg1)"):
            return ("identity", None)
        m = re.match(r"^encode::serialize\((.+)\(arg1\)\)$", t)
        if m:
            return ("wrapped", m.group(1))
        return ("?", t[:80])

    def kind_d(t):
        if re.match(r"^encode::deserialize\((arg1|%s)\)$" % IDXF, t):
            return ("consensus", None)
        m = re.match(r"^std::result::Result::map\(encode::deserialize\(arg1\), fnitem\('(.+)::from_byte_array',\)\)$", t)
        if m:
            return ("hash-bytes", m.group(1))
        m = re.search(r"(?:^|Ok\{)((?:[A-Za-z_0-9]+::)+[A-Za-z_0-9]+)::from_slice\(arg1\)", t)
        if m and "encode::deserialize" not in t:
            return ("own-bytes", m.group(1))
        if t == "std::result::Result::Ok{arg1}":
            return ("identity", None)
        m = re.search(r"((?:[A-Za-z_0-9]+::)+[A-Za-z_0-9]+)\(encode::deserialize\(arg1\)\)", t)
        if m:
            return ("wrapped", m.group(1))
        return ("?", t[:80])
    INV = {"confidential::AssetBlindingFactor::into_inner": "confidential::AssetBlindingFactor::from_slice",
           "pset::map::input::PsbtSighashType::to_u32": "pset::map::input::PsbtSighashType::from_u32"}
    n = 0
    for ty in sorted(set(SER) & set(DE)):
        if ty in ELSEWHERE or ty.startswith("("):
            continue
        fs_, fd_ = prog.fn(SER[ty]), prog.fn(DE[ty])
        ks, kd = kind_s(show(Prov(fs_.body).local(0), -30)), kind_d(show(Prov(fd_.body).local(0), -30))
        if ks[0] == "wrapped":
            ok = kd[0] == "wrapped" and INV.get(ks[1]) == kd[1]
        elif ks == ("consensus", None) and kd[0] == "wrapped":
            ok = ty == "secp256k1_zkp::Tweak" and kd[1] == "secp256k1_zkp::Tweak::from_slice"
        else:
            ok = ks[0] != "?" and ks == kd
        n += 1
        c.inst("R9.value-pair", ty, ok, "writer is %s, reader is %s" % (ks, kd), fs_.where(), SER[ty])
    c.floor("R9.value-pair", 28, "value types with a simple paired form on the pinned tree")


def run(c, prog, ctx):
    c.explanation = (
        "Static decision of the structural clauses of C07: (R1) the key-type tables extracted from Map::get_pairs (writer) and "
        "from Map::insert_pair plus the hand-written Decodable loops (reader) of Global, Input and Output are mutually inverse: "
        "same field per (key type, proprietary subtype), same Serialize/Deserialize value and key types, no key shared, every "
        "struct field emitted and parsed; (R2) every unkeyed arm requires empty key data and an unset field (else InvalidKey / "
        "DuplicateKey), keyed arms reject occupied entries, hash preimages are verified before insertion; (R3) framing: magic, "
        "separator, map order, 0x00 terminators, NoMorePairs, sanity_check before Ok, 10 000 caps; (R4) mandatory-field errors; "
        "(R5) the input/output counts are written only by the six paired mutators and the vectors are private; (R6) tap-tree "
        "leaves are kept, written and read in DFS order; (R7) ELIP-100/102 getters and setters build the same proprietary key; "
        "(R8) ProprietaryKey framing and the length-dispatched Schnorr signature codec. Byte-exact round trips of the individual "
        "value codecs are covered by C01 where they delegate to consensus encoding.")
    _key_tables(c, prog)
    _framing(c, prog)
    _mandatory(c, prog)
    _count_ownership(c, prog)
    _taptree(c, prog)
    _elip(c, prog)
    _value_codecs(c, prog)
    _value_pairs(c, prog)

"""C05 — amount verification: must-pass-through of range-proof, surjection-proof and
balance checks with failing edges, argument bindings, zero-value decision table."""
import re

from ..analysis import (events, cond_desc, ret_assignments, err_returns, try_edges_after, bool_edges_after,
                        loop_header_of)
from ..mir import Prov, Guards, show, callee_name, walk_term

VERIFY = "blind::<impl transaction::Transaction>::verify_tx_amt_proofs"
OUT = "elem(arg1.output)"
INP = "elem(arg1.input)"


def _ev(body, pat):
    return events(body, lambda t: re.search(pat, callee_name(t)) is not None)


def _ok_blocks(body):
    return [bi for (bi, kind, rv) in ret_assignments(body) if kind == "ok"]


def run(c, prog, ctx):
    c.explanation = (
        "Static decision of the structural clauses of C05 on the MIR of Transaction::verify_tx_amt_proofs and its "
        "helpers: (R1) path rules — the length check dominates everything, the Ok return is dominated by the success "
        "edge of verify_commitments_sum_to_equal, and inside the output loop no path from the `Some(commitment)` edge "
        "to the next iteration avoids ok_or(..Missing)? and the success edge of RangeProof::verify / "
        "SurjectionProof::verify, whose failing edges cannot reach the loop or the Ok return; (R2) argument bindings "
        "of the three checks and of every push into the domain / commitment vectors; (R3) the decision table of "
        "TxOut::get_value_commit; (R4) zero-value outputs on provably unspendable scripts are skipped, not rejected; "
        "(R5) the exact-value proof verifiers. That a tampered proof fails inside libsecp256k1-zkp is trusted.")
    c.assume("secp256k1-zkp RangeProof::verify / SurjectionProof::verify / verify_commitments_sum_to_equal are sound")
    f = prog.fn(VERIFY)
    b = f.body
    prov = Prov(b)
    g = Guards(b)
    oks = _ok_blocks(b)
    c.inst("R1.single-ok", "exactly one Ok(()) return", len(oks) == 1, "Ok returns at blocks %s" % oks, f.where(), f.path)
    if len(oks) != 1:
        return
    okb = oks[0]
    ok_conds = cond_desc(b, g.conds(okb))

    # ---- R1a length check
    errs = err_returns(b, prov, g)
    lm = [e for e in errs if "UtxoInputLenMismatch" in e[1]]
    LEN_NE = "(core::slice::len(arg3) Ne std::vec::Vec::len(arg1.input))"
    LEN_EQ = "(core::slice::len(arg3) Eq std::vec::Vec::len(arg1.input))"

    def len_ok(conds):
        return (LEN_NE, "false") in conds or (LEN_EQ, "true") in conds

    def len_bad(conds):
        return (LEN_NE, "true") in conds or (LEN_EQ, "false") in conds

    c.inst("R1a.len-mismatch-error", "spent_utxos.len() != input.len() => Err(UtxoInputLenMismatch)",
           len(lm) == 1 and len_bad(lm[0][2]), "error returns %s" % [(e[1], e[2]) for e in lm], f.where(), f.path)
    c.inst("R1a.len-check-dominates-ok", "Ok(()) only under equal lengths", len_ok(ok_conds), "Ok guards %s" % ok_conds, f.where(), f.path)
    # every call that indexes/uses spent_utxos is under the equal-length edge
    n = 0
    for e in _ev(b, r"get_asset_gen|get_value_commit|verify"):
        n += 1
        cd = cond_desc(b, e["conds"])
        c.inst("R1a.len-check-dominates", "%s@%s" % (short_name(e["name"]), show(e["args"][0])[:60]), len_ok(cd),
               "call not dominated by the length check", f.where(e["t"]["sp"]), f.path)

    # ---- R1b balance check
    bal = _ev(b, r"verify_commitments_sum_to_equal$")
    c.inst("R1b.balance-call", "one call of verify_commitments_sum_to_equal", len(bal) == 1, "%d calls" % len(bal), f.where(), f.path)
    if len(bal) == 1:
        e = bal[0]
        c.inst("R1b.balance-dominates-ok", "balance check dominates Ok(())", b.dominates(e["bb"], okb),
               "Ok return is reachable without the balance check", f.where(e["t"]["sp"]), f.path)
        be = bool_edges_after(b, e["bb"])
        ok = False
        detail = "result of the balance check is not tested"
        if be:
            tb, fb = be
            reach_f = b.reach_from(fb)
            reach_t = b.reach_from(tb)
            ok = okb not in reach_f and okb in reach_t
            bf = [x for x in errs if x[0] in reach_f and "BalanceCheckFailed" in x[1]]
            ok = ok and len(bf) == 1
            detail = "false edge reaches Ok: %s; BalanceCheckFailed on false edge: %s" % (okb in reach_f, bool(bf))
        c.inst("R1b.balance-false-edge", "false => Err(BalanceCheckFailed), true => Ok", ok, detail, f.where(e["t"]["sp"]), f.path)
        args = [show(a) for a in e["args"]]
        c.sample({"rule": "R1b", "args": args})

    # ---- R1c per-output proof checks
    _proof_check(c, f, b, prov, g, okb, errs,
                 tag="rangeproof", commit_call="confidential::Value::commitment", field="value",
                 missing="RangeProofMissing", witness_field="rangeproof", verify=r"RangeProof::verify$", kind="try",
                 fail_err="RangeProofError")
    _proof_check(c, f, b, prov, g, okb, errs,
                 tag="surjection", commit_call="confidential::Asset::commitment", field="asset",
                 missing="SurjectionProofMissing", witness_field="surjection_proof", verify=r"SurjectionProof::verify$",
                 kind="bool", fail_err="SurjectionProofVerificationError")

    # ---- R2 bindings
    _bindings(c, f, b, prov, g)

    # ---- R3/R4 get_value_commit decision table
    _value_commit_table(c, prog)
    _zero_value(c, f, b, prov, g, okb)

    # ---- R5 exact-value proofs
    _exact_proofs(c, prog)

    # ---- R4 rests on Script::is_provably_unspendable (OP_RETURN-led, empty or larger than MAX_SCRIPT_SIZE); its truth table is
    # C16's R1.template-table instance, evaluated here because a wider predicate admits zero-value outputs on spendable scripts
    from . import c16 as _c16
    c.borrow(_c16, "C16", prog, ctx, lambda rule, k: rule == "R1.template-table" and k.endswith("|is_provably_unspendable"),
             "R4.unspendable-predicate", 1)

    c.floor("R1a.len-check-dominates", 7, "2+2 get_* calls, 3 verify calls counted on the pinned tree")
    c.floor("R2.push", 7, "domain 3, in_commits 3, out_commits 1")


def short_name(n):
    return re.sub(r"<[^<>]*>", "", n).split("::")[-1]


def _proof_check(c, f, b, prov, g, okb, errs, tag, commit_call, field, missing, witness_field, verify, kind, fail_err):
    want_discr = "discr(%s(%s.%s))" % (commit_call, OUT, field)
    # `if let X::Confidential(c) = out.field` is the same test as `if let Some(c) = out.field.commitment()`
    # (the accessor maps Confidential(c) to Some(c) and everything else to None: R1c.commitment-accessor)
    alt_discr = "discr(%s.%s)" % (OUT, field)
    vs = _ev(b, verify)
    c.inst("R1c.%s-verify-call" % tag, "one verify call", len(vs) == 1, "%d calls" % len(vs), f.where(), f.path)
    if len(vs) != 1:
        return
    ev = vs[0]
    cd = cond_desc(b, ev["conds"])
    c.inst("R1c.%s-under-some" % tag, "verify runs on the Some(commitment) edge of out.%s" % field,
           (want_discr, "Some") in cd or (alt_discr, "Confidential") in cd, "guards %s" % cd, f.where(ev["t"]["sp"]), f.path)
    hdr = loop_header_of(b, ev["bb"])
    c.inst("R1c.%s-in-output-loop" % tag, "inside the loop over self.output", hdr is not None and
           any(d == "discr(enext(arg1.output))" and l == "Some" for d, l in cd), "guards %s" % cd, f.where(ev["t"]["sp"]), f.path)
    if hdr is None:
        return
    # the Some edge target
    some_tgt = None
    for (sb, tb, vals, excl) in g.switch_edges():
        d = show(prov.operand(b.term(sb)["d"]))
        if d == want_discr or d == alt_discr:
            lab = cond_desc(b, [(sb, prov.operand(b.term(sb)["d"]), vals, excl)])
            if lab and lab[0][1] == ("Some" if d == want_discr else "Confidential"):
                some_tgt = tb
    c.inst("R1c.%s-some-edge" % tag, "switch on out.%s.commitment() found" % field, some_tgt is not None, "", f.where(), f.path)
    if some_tgt is None:
        return
    # missing-proof check: ok_or(<witness field>, <Missing>) ?
    oks = [e for e in _ev(b, r"Option::<T>::ok_or$") if missing in show(e["args"][1])]
    okk = len(oks) == 1 and show(oks[0]["args"][0]) == "%s.witness.%s" % (OUT, witness_field)
    c.inst("R1c.%s-missing-check" % tag, "ok_or(%s)? on out.witness.%s" % (missing, witness_field), okk,
           "ok_or events %s" % [(show(e["args"][0]), show(e["args"][1])) for e in oks], f.where(), f.path)
    targets = {hdr, okb}
    for name, evx, k in ([("missing", oks[0], "try")] if okk else []) + [("verify", ev, kind)]:
        # (i) no path from the Some edge to the next iteration / Ok avoids the check
        r = b.reach_from(some_tgt, avoid={evx["bb"]})
        c.inst("R1c.%s-%s-unavoidable" % (tag, name), "every path from Some(commitment) to the next iteration passes the check",
               not (r & targets), "loop header/Ok reachable while avoiding the check block", f.where(evx["t"]["sp"]), f.path)
        # (ii) the failing edge leaves the function with an error
        if k == "try":
            te = try_edges_after(b, evx["bb"])
            good = False
            detail = "result is not consumed by `?`"
            if te and te[0] is not None and te[1] is not None:
                cont, brk = te
                rb = b.reach_from(brk)
                good = not (rb & targets) and (hdr in b.reach_from(cont))
                detail = "Break edge reaches loop/Ok: %s" % bool(rb & targets)
            c.inst("R1c.%s-%s-fail-edge" % (tag, name), "failure returns Err", good, detail, f.where(evx["t"]["sp"]), f.path)
        else:
            be = bool_edges_after(b, evx["bb"])
            good = False
            detail = "bool result is not tested"
            if be:
                tb, fb = be
                rf = b.reach_from(fb)
                fe = [x for x in errs if x[0] in rf and fail_err in x[1]]
                good = not (rf & targets) and hdr in b.reach_from(tb) and len(fe) == 1
                detail = "false edge reaches loop/Ok: %s, %s returned: %s" % (bool(rf & targets), fail_err, bool(fe))
            c.inst("R1c.%s-%s-fail-edge" % (tag, name), "false => Err(%s)" % fail_err, good, detail, f.where(evx["t"]["sp"]), f.path)
    if kind == "try":
        # map_err to the right variant
        raw = Prov(b)
        t = b.term(ev["bb"])
        # error closure wraps RangeProofError(i, e)
        cl = [fn for fn in f.prog.closures_of(f.path)]
        names = []
        for clf in cl:
            rt = Prov(clf.body).local(0)
            names.append(show(rt))
        c.inst("R1c.%s-error-variant" % tag, "verify error mapped to %s" % fail_err,
               any(fail_err in n for n in names), "closure results %s" % names, f.where(), f.path)


def _bindings(c, f, b, prov, g):
    from .c15 import Fn as _Fn, sh as _sh
    for ty in ("Value", "Asset"):
        AF = _Fn(f.prog, "confidential::%s::commitment" % ty)
        rows = {tuple((_sh(cn), a) for k, cn, a in cx if k == "if"): _sh(s_[1]) for cx, s_ in AF.flat if s_[0] == "ret"}
        c.inst("R1c.commitment-accessor", "%s::commitment(): Confidential(c) => Some(c), anything else => None" % ty,
               rows == {(("discr(arg1)", "=2"),): "std::option::Option::Some{arg1.0}", (("discr(arg1)", "otherwise"),): "std::option::Option::None{}"}, "rows %s" % rows, AF.f.where(), AF.f.path)
    rp = _ev(b, r"RangeProof::verify$")
    if len(rp) == 1:
        a = [show(x) for x in rp[0]["args"]]
        want = ["%s.witness.rangeproof" % OUT, "arg2", "some(confidential::Value::commitment(%s.value))" % OUT,
                "script::Script::as_bytes(%s.script_pubkey)" % OUT, "blind::get_asset_gen(%s, arg2)" % OUT]
        c.inst("R2.rangeproof-binding", "verify(secp, out.value commitment, out.script_pubkey bytes, out asset generator)",
               a == want or a == want[:2] + ["%s.value.0" % OUT] + want[3:], "args %s" % a, f.where(rp[0]["t"]["sp"]), f.path)
        c.sample({"rule": "R2", "call": "RangeProof::verify", "args": a})
    sp = _ev(b, r"SurjectionProof::verify$")
    domain = None
    if len(sp) == 1:
        a = [show(x) for x in sp[0]["args"]]
        domain = sp[0]["args"][3]
        want = ["%s.witness.surjection_proof" % OUT, "arg2", "some(confidential::Asset::commitment(%s.asset))" % OUT]
        c.inst("R2.surjection-binding", "verify(secp, out.asset generator, &domain)", (a[:3] == want or a[:3] == want[:2] + ["%s.asset.0" % OUT]) and domain[0] == "call"
               and domain[1].startswith("std::vec::Vec::<T>::new"), "args %s" % a, f.where(sp[0]["t"]["sp"]), f.path)
        c.sample({"rule": "R2", "call": "SurjectionProof::verify", "args": a})
    bal = _ev(b, r"verify_commitments_sum_to_equal$")
    inc = outc = None
    if len(bal) == 1:
        inc, outc = bal[0]["args"][1], bal[0]["args"][2]
    pushes = _ev(b, r"Vec::<T, A>::push$")
    by = {"domain": [], "in": [], "out": [], "other": []}
    for e in pushes:
        coll = e["args"][0]
        vt = e["args"][1]
        while vt[0] in ("ok",):
            vt = vt[1]
        val = show(vt)
        cd = [x for x in cond_desc(b, e["conds"]) if "len(arg3)" not in x[0]]
        key = "domain" if coll == domain else "in" if coll == inc else "out" if coll == outc else "other"
        by[key].append((val, cd))
    c.inst("R2.distinct-vectors", "domain, in_commits, out_commits are three distinct vectors",
           domain is not None and inc is not None and outc is not None and len({domain, inc, outc}) == 3,
           "domain=%s in=%s out=%s" % (show(domain) if domain else None, show(inc) if inc else None, show(outc) if outc else None),
           f.where(), f.path)
    IN_LOOP = ("discr(enext(arg1.input))", "Some")
    OUT_LOOP = ("discr(enext(arg1.output))", "Some")
    ISS = ("transaction::TxIn::has_issuance(%s)" % INP, "true")
    UTXO = "arg3[index(arg1.input)]"
    ARR = ("array{tuple{%s.asset_issuance.amount, transaction::TxIn::issuance_ids(%s).0}, "
           "tuple{%s.asset_issuance.inflation_keys, transaction::TxIn::issuance_ids(%s).1}}" % (INP, INP, INP, INP))

    def iss_item(val):
        return val

    # expected pushes
    def has(lst, pred):
        return [x for x in lst if pred(x)]

    def under(cd, *need):
        return all(n in cd for n in need)

    exp_domain_utxo = has(by["domain"], lambda x: x[0] == "blind::get_asset_gen(%s, arg2)" % UTXO and under(x[1], IN_LOOP) and ISS not in x[1])
    c.inst("R2.push", "domain <- asset generator of spent_utxos[i] per input", len(exp_domain_utxo) == 1,
           "domain pushes %s" % by["domain"], f.where(), f.path)
    exp_in_utxo = has(by["in"], lambda x: x[0] == "blind::get_value_commit(%s, arg2)" % UTXO and under(x[1], IN_LOOP) and ISS not in x[1])
    c.inst("R2.push", "in_commits <- value commitment of spent_utxos[i] per input", len(exp_in_utxo) == 1,
           "in_commits pushes %s" % by["in"], f.where(), f.path)
    # every input contributes, whatever the other entries are: the pushes for the spent output carry no condition besides the
    # loop itself (surjection proofs are positional; a de-duplicated or filtered domain no longer matches the prover's)
    extra_d = [[g for g in x[1] if g != IN_LOOP and "Try" not in g[0] and not g[0].startswith("discr(blind::get_")] for x in exp_domain_utxo]
    extra_i = [[g for g in x[1] if g != IN_LOOP and "Try" not in g[0] and not g[0].startswith("discr(blind::get_")] for x in exp_in_utxo]
    c.inst("R2.push-unconditional", "spent output's generator and commitment are pushed for every input", not any(extra_d) and not any(extra_i),
           "conditions on the domain push %s; on the commitment push %s" % (extra_d, extra_i), f.where(), f.path)
    # issuance pseudo-inputs
    iss_dom = has(by["domain"], lambda x: ISS in x[1])
    iss_in = has(by["in"], lambda x: ISS in x[1])
    # locate the array term inside pushed values
    arr_terms = set()
    for e in pushes:
        for x in walk_term(e["args"][1]):
            if x[0] == "agg" and x[1] == "array":
                arr_terms.add(show(x, -20))
    ok_arr = arr_terms == {ARR}
    c.inst("R2.issuance-array", "issuance pseudo-inputs = [(amount, asset id), (inflation_keys, token id)] of the same input",
           ok_arr, "array terms %s" % sorted(arr_terms), f.where(), f.path)
    GEN = "secp256k1_zkp::Generator::new_unblinded(arg2, issuance::AssetId::into_tag(elem(ARR).1))"

    def norm(v):
        return v.replace(ARR, "ARR")
    dvals = sorted((norm(show_full(e["args"][1])), variant_of(b, e)) for e in pushes if e["args"][0] == domain and ISS in cond_desc(b, e["conds"]))
    ivals = sorted((norm(show_full(e["args"][1])), variant_of(b, e)) for e in pushes if e["args"][0] == inc and ISS in cond_desc(b, e["conds"]))
    want_d = sorted([(GEN, "Explicit"), (GEN, "Confidential")])
    AMT = "elem(ARR).0"
    want_i = sorted([("secp256k1_zkp::PedersenCommitment::new_unblinded(arg2, %s.0, %s)" % (AMT, GEN), "Explicit"),
                     ("%s.0" % AMT, "Confidential")])
    c.inst("R2.push", "domain <- unblinded generator of the issued asset/token (explicit amount)", (GEN, "Explicit") in dvals, "issuance domain pushes %s" % dvals, f.where(), f.path)
    c.inst("R2.push", "domain <- unblinded generator of the issued asset/token (confidential amount)", (GEN, "Confidential") in dvals and len(dvals) == 2, "issuance domain pushes %s" % dvals, f.where(), f.path)
    c.inst("R2.push", "in_commits <- unblinded commitment of the explicit issuance amount", want_i[1] in ivals or want_i[0] in ivals and ivals == want_i, "issuance in_commit pushes %s" % ivals, f.where(), f.path)
    c.inst("R2.push", "in_commits <- confidential issuance amount commitment", ivals == want_i, "issuance in_commit pushes %s, want %s" % (ivals, want_i), f.where(), f.path)
    exp_out = [x for x in by["out"] if x[0] == "blind::get_value_commit(%s, arg2)" % OUT and under(x[1], OUT_LOOP)]
    c.inst("R2.push", "out_commits <- value commitment of every output (exactly one push)", len(exp_out) == 1 and len(by["out"]) == 1,
           "out_commits pushes %s" % by["out"], f.where(), f.path)
    c.inst("R2.no-stray-push", "no push into other vectors / no extra pushes", not by["other"] and len(by["domain"]) == 3 and len(by["in"]) == 3,
           "pushes %s" % {k: len(v) for k, v in by.items()}, f.where(), f.path)
    if len(bal) == 1:
        a = bal[0]["args"]
        c.inst("R2.balance-binding", "verify_commitments_sum_to_equal(secp, in_commits, out_commits)",
               show(a[0]) == "arg2" and a[1] == inc and a[2] == outc and inc != outc, "args %s" % [show(x) for x in a], f.where(), f.path)
    c.sample({"rule": "R2", "pushes": {k: [v for v, _ in lst] for k, lst in by.items()}})


def show_full(t):
    return show(t, -20)


def variant_of(b, e):
    for d, lab in cond_desc(b, e["conds"]):
        if lab in ("Explicit", "Confidential", "Null") and "elem(array{" in d:
            return lab
    return None


def _value_commit_table(c, prog):
    f = prog.fn("blind::<impl transaction::TxOut>::get_value_commit")
    b = f.body
    prov = Prov(b)
    g = Guards(b)
    rows = {}
    for (bi, kind, rv) in ret_assignments(b):
        cd = tuple(cond_desc(b, g.conds(bi)))
        if kind in ("ok", "err") and rv.get("k") == "agg":
            val = show(prov.operand(rv["ops"][0]))
        elif kind == "err":
            val = "err-propagated:" + show(prov.operand(rv["args"][0]))
        else:
            val = kind
        rows[cd] = (kind, val)
    D = "discr(arg1.value)"
    Z = "(arg1.value.0 Eq 0)"
    U = "script::Script::is_provably_unspendable(arg1.script_pubkey)"
    want = {
        ((D, "Null"),): ("err", "blind::TxOutError::UnExpectedNullValue{}"),
        ((D, "Explicit"), (Z, "true"), (U, "true")): ("err", "blind::TxOutError::ZeroValueCommitment{}"),
        ((D, "Explicit"), (Z, "true"), (U, "false")): ("err", "blind::TxOutError::NonUnspendableZeroValue{}"),
        ((D, "Explicit"), (Z, "false")): ("ok", "secp256k1_zkp::PedersenCommitment::new_unblinded(arg2, arg1.value.0, blind::get_asset_gen(arg1, arg2))"),
        ((D, "Confidential"),): ("ok", "arg1.value.0"),
    }
    for k, v in want.items():
        got = rows.get(k)
        c.inst("R3.value-commit-table", " & ".join("%s=%s" % x for x in k), got == v, "got %s want %s" % (got, v), f.where(), f.path)
    extra = {k: v for k, v in rows.items() if k not in want and not (v[0] == "err" and v[1].startswith("err-propagated"))}
    c.inst("R3.value-commit-table-complete", "no other outcome", not extra, "extra rows %s" % extra, f.where(), f.path)
    c.sample({"rule": "R3", "table": [[list(map(list, k)), list(v)] for k, v in rows.items()]})
    fa = prog.fn("blind::<impl transaction::TxOut>::get_asset_gen")
    t = show(Prov(fa.body).local(0))
    c.inst("R3.asset-gen", "asset generator from out.asset, Null => error",
           t == "std::option::Option::ok_or(confidential::Asset::into_asset_gen(arg1.asset, arg2), blind::TxOutError::UnExpectedNullAsset{})"
           or t == "confidential::Asset::into_asset_gen(arg1.asset, arg2)", "returns %s" % t, fa.where(), fa.path)


def _zero_value(c, f, b, prov, g, okb):
    """R4: for an *output*, TxOutError::ZeroValueCommitment must not become an error return: the
    output is skipped (Elements' VerifyAmounts `continue`s on provably unspendable zero-value outputs)."""
    ev = [e for e in _ev(b, r"get_value_commit$") if show(e["args"][0]) == OUT]
    if len(ev) != 1:
        c.inst("R4.zero-value-output", "get_value_commit(out) found", False, "%d calls" % len(ev), f.where(), f.path)
        return
    e = ev[0]
    hdr = loop_header_of(b, e["bb"])
    # Is there a path from the call to the loop header that handles the ZeroValueCommitment variant,
    # i.e. a switch on the error's discriminant with an edge that stays in the loop?
    handled = False
    for (sb, tb, vals, excl) in g.switch_edges():
        d = prov.operand(b.term(sb)["d"])
        sd = show(d)
        if "get_value_commit(%s" % OUT in sd and sd.startswith("discr("):
            lab = cond_desc(b, [(sb, d, vals, excl)], keep_try=True)
            if lab and "ZeroValueCommitment" in lab[0][1] and hdr is not None and hdr in b.reach_from(tb):
                handled = True
    c.inst("R4.zero-value-output", "zero-value provably-unspendable output is skipped, not rejected", handled,
           "every Err of get_value_commit(out) — including TxOutError::ZeroValueCommitment, whose documentation says "
           "the verifier can ignore the txout — is turned into an error return", f.where(e["t"]["sp"]), f.path)


def _exact_proofs(c, prog):
    fv = prog.fn("<secp256k1_zkp::RangeProof as blind::BlindValueProofs>::blind_value_proof_verify")
    b = fv.body
    ev = _ev(b, r"RangeProof::verify$")
    ok = False
    detail = "no verify call"
    if len(ev) == 1:
        a = [show(x) for x in ev[0]["args"]]
        ok = a[0] == "arg1" and a[1] == "arg2" and a[2] == "arg5" and a[4] == "arg4" and (a[3].startswith("&[]") or "[]" in a[3] or a[3] in ("array{}", "b\"\"", ""))
        detail = "args %s" % a
    c.inst("R5.value-proof-binding", "verify(secp, value_commit, empty extra data, asset_gen)", ok, detail, fv.where(), fv.path)
    # both range ends compared with the explicit value: the only non-constant result is
    # `end - 1 == explicit_val`, computed under `Ok(e)` and `e.start == explicit_val`
    g = Guards(b)
    p = Prov(b)
    rows = []
    for (bi, si, kind, pay) in b.defs().get(0, []):
        if kind != "assign" or bi not in b.reachable():
            continue
        rows.append((show(p._rvalue(pay["rv"], True), -20), cond_desc(b, g.conds(bi))))
    V = "secp256k1_zkp::RangeProof::verify(arg1, arg2, arg5, array{}, arg4)"
    nonconst = [r for r in rows if r[0] not in ("0", "1")]
    ok = (len(nonconst) == 1 and nonconst[0][0] == "((ok(%s).end SubWithOverflow 1).0 Eq arg3)" % V
          and ("discr(%s)" % V, "Ok") in nonconst[0][1] and ("(ok(%s).start Eq arg3)" % V, "true") in nonconst[0][1]
          and all(r[0] == "0" for r in rows if r not in nonconst))
    c.inst("R5.value-proof-range", "true only if Ok(range) && range.start == explicit_val && range.end - 1 == explicit_val",
           ok, "result rows %s" % rows, fv.where(), fv.path)
    fa = prog.fn("<secp256k1_zkp::SurjectionProof as blind::BlindAssetProofs>::blind_asset_proof_verify")
    ev = _ev(fa.body, r"SurjectionProof::verify$")
    ok = False
    detail = "no verify call"
    if len(ev) == 1:
        a = [show(x, -20) for x in ev[0]["args"]]
        ok = a[0] == "arg1" and a[1] == "arg2" and a[2] == "arg4" and "Generator::new_unblinded(arg2, issuance::AssetId::into_tag(arg3))" in a[3]
        detail = "args %s" % a
    c.inst("R5.asset-proof-binding", "verify(secp, asset_comm, [unblinded generator of asset])", ok, detail, fa.where(), fa.path)
    # the verdict is the verifier's verdict: every reachable definition of the return place is the destination of the
    # SurjectionProof::verify call (or a value whose provenance is that call), or the constant false — never a constant
    # true or a comparison that bypasses the proof (seed C05-9: `if asset_commit == gen { return true }`)
    fb = fa.body
    pa = Prov(fb)
    rows = []
    for (bi, si, kind, pay) in fb.defs().get(0, []):
        if bi not in fb.reachable() or fb.blocks[bi]["cleanup"]:
            continue
        if kind == "call":
            rows.append("call " + callee_name(pay))
        elif kind == "assign":
            rows.append(show(pa._rvalue(pay["rv"], True), -20))
        else:
            rows.append(kind)
    good = [r for r in rows if (r.startswith("call ") and re.search(r"SurjectionProof::verify$", r)) or r.startswith("secp256k1_zkp::SurjectionProof::verify(")]
    ok = len(good) >= 1 and all(r in good or r == "0" for r in rows)
    c.inst("R5.asset-proof-verdict", "the result is SurjectionProof::verify's result on every path (or false); no path answers true without the proof",
           ok, "return-place definitions %s" % rows, fa.where(), fa.path)

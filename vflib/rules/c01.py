"""C01 — consensus encoding bijection: trailing-data gate, canonicity guards, writer/reader
codec agreement, length accounting, varint tables (bounded allocation is C10.R2, reused)."""
import re

from ..analysis import (events, is_encode_call, is_decode_call, cond_desc, ret_assignments, err_returns,
                        try_edges_after)
from ..mir import Prov, Guards, show, callee_name, walk_term, discr_variants
from . import c10
from .predicates import run_predicates

ENC = re.compile(r"^<(.*) as encode::Encodable>::consensus_encode$|^.*::<impl encode::Encodable for (.*)>::consensus_encode$")
DEC = re.compile(r"^<(.*) as encode::Decodable>::consensus_decode$|^.*::<impl encode::Decodable for (.*)>::consensus_decode$")
FIXED = {"u8": 1, "u16": 2, "u32": 4, "u64": 8, "i8": 1, "i16": 2, "i32": 4, "i64": 8, "[u8; 4]": 4, "[u8; 20]": 20, "[u8; 32]": 32, "[u8; 33]": 33}


def codecs(prog):
    encs, decs = {}, {}
    for p, f in prog.fns.items():
        m = ENC.match(p)
        if m:
            encs[m.group(1) or m.group(2)] = f
        m = DEC.match(p)
        if m:
            decs[m.group(1) or m.group(2)] = f
    return encs, decs


def writer_list(fn):
    b = fn.body
    out = []
    for e in events(b, is_encode_call):
        recv = e["args"][0]
        fld = None
        t = recv
        # receiver rooted at self: first-level field name
        path = []
        while t[0] == "fld":
            path.append(t[3])
            t = t[1]
        if t == ("arg", 1) and path:
            fld = path[-1]
        out.append({"field": fld, "recv": show(recv), "ty": e["self_ty"], "conds": cond_desc(b, e["conds"]), "e": e})
    return out


def reader_list(fn):
    """ordered decode events; each mapped to the field of the returned struct literal it flows into"""
    b = fn.body
    prov = Prov(b, site_tag=r"consensus_decode$")
    evs = events(b, is_decode_call, prov=prov)
    ret = prov.local(0)
    fieldmap = {}

    def visit(t, field):
        if not isinstance(t, tuple) or not t:
            return
        if t[0] == "agg" and t[2]:
            for n, o in zip(t[2], t[3]):
                visit(o, field or n if t[1].startswith("std::result::Result") or t[1].startswith("std::option::Option") else n if field is None else field)
            return
        if t[0] == "call" and len(t) > 5 and t[5] is not None:
            if field is not None:
                fieldmap.setdefault(t[5], field)
        for x in t[1:]:
            if isinstance(x, tuple):
                if x and isinstance(x[0], str):
                    visit(x, field)
                else:
                    for y in x:
                        visit(y, field)

    # walk: Result::Ok{ Struct{ f: term, ... } }
    def top(t):
        if t[0] == "phi":
            for a in t[1]:
                top(a)
        elif t[0] == "agg" and t[1] == "std::result::Result::Ok":
            inner = t[3][0]
            if inner[0] == "agg" and inner[2]:
                for n, o in zip(inner[2], inner[3]):
                    visit(o, n)
            else:
                visit(inner, None)
        elif t[0] == "call" and "map" in t[1]:
            visit(t, None)
    top(ret)
    out = []
    for e in evs:
        out.append({"field": fieldmap.get(e["bb"]), "ty": e["self_ty"], "conds": cond_desc(b, e["conds"]), "e": e})
    return out, ret


STRUCTS = [
    "transaction::OutPoint", "transaction::TxOut", "transaction::AssetIssuance", "transaction::TxInWitness",
    "transaction::TxOutWitness", "block::Block", "dynafed::FullParams", "pset::raw::Pair",
]


def _struct_agreement(c, prog, encs, decs):
    for t in STRUCTS:
        if t not in encs or t not in decs:
            c.inst("R3.struct-codec", t, False, "encoder or decoder of %s not found" % t, None, t)
            continue
        fe, fd = encs[t], decs[t]
        W = writer_list(fe)
        R, _ = reader_list(fd)
        w = [(x["field"], x["ty"]) for x in W]
        r = [(x["field"], x["ty"]) for x in R]
        uncond = all(not x["conds"] for x in W) and all(not x["conds"] for x in R)
        fields = prog.struct_fields(t)
        c.inst("R3.struct-codec", t, w == r and uncond, "writer %s\nreader %s" % (w, r), fe.where(), fe.path)
        exempt = {"transaction::TxOut": {"witness"}}.get(t, set())   # encoded by Transaction, after all outputs
        fields = [f for f in fields if f not in exempt]
        c.inst("R3.struct-all-fields", t, [x[0] for x in w] == fields or sorted(x[0] for x in w if x[0]) == sorted(fields),
               "fields encoded %s, struct has %s" % ([x[0] for x in w], fields), fe.where(), fe.path)
        c.sample({"rule": "R3", "type": t, "wire": w})
    # newtype wrappers: one encode of the inner value, one decode of the same wire type
    n = 0
    for t in sorted(set(encs) & set(decs)):
        if t in STRUCTS:
            continue
        W = writer_list(encs[t])
        R, _ = reader_list(decs[t])
        if len(W) == 1 and len(R) == 1 and not W[0]["conds"] and not R[0]["conds"]:
            n += 1
            def nz(x):
                return re.sub(r"^(std::vec::Vec<(.*)>|std::boxed::Box<\[(.*)\]>|\[([^;]*)\])$", lambda m: "seq<%s>" % (m.group(2) or m.group(3) or m.group(4)), x or "")
            c.inst("R3.newtype-codec", t, nz(W[0]["ty"]) == nz(R[0]["ty"]), "writer %s reader %s" % (W[0]["ty"], R[0]["ty"]), encs[t].where(), encs[t].path)
    c.floor("R3.newtype-codec", 15, "hash newtypes, Script, Sequence, LockTime, proofs, AssetId, ...")


# ------------------------------------------------------------------ tagged unions
def _tagged(c, prog, encs, decs):
    # dynafed::Params: tag byte 0/1/2
    t = "dynafed::Params"
    W = writer_list(encs[t])
    per = {}
    for x in W:
        v = [l for d, l in x["conds"] if d == "discr(arg1)"]
        per.setdefault(v[0] if v else "?", []).append((x["recv"], x["ty"]))
    want = {
        "Null": [("0", "u8")],
        "Compact": [("1", "u8"), ("arg1.signblockscript", "script::Script"), ("arg1.signblock_witness_limit", "u32"),
                    ("dynafed::ElidedRoot::to_byte_array(arg1.elided_root)", "[u8; 32]")],
        "Full": [("2", "u8"), ("arg1.0", "dynafed::FullParams")],
    }
    c.inst("R3.params-writer", "Null=0, Compact=1[script, limit, elided root], Full=2[FullParams]", per == want, "writer %s" % per, encs[t].where(), encs[t].path)
    R, ret = reader_list(decs[t])
    TAG = "<u8 as encode::Decodable>::consensus_decode(arg1)"
    rper = {}
    for x in R[1:]:
        v = [l for d, l in x["conds"] if d.startswith(TAG.split("(")[0])]
        rper.setdefault(v[0] if v else "?", []).append((x["field"], x["ty"]))
    wantr = {"=1": [("signblockscript", "script::Script"), ("signblock_witness_limit", "u32"), ("elided_root", "[u8; 32]")],
             "=2": [("0", "dynafed::FullParams")]}
    rper2 = {k: [(f if f is not None else "0", ty) for f, ty in v] for k, v in rper.items()}
    c.inst("R3.params-reader", "tag 1 => Compact fields in writer order, tag 2 => FullParams", rper2 == wantr and R[0]["ty"] == "u8",
           "reader %s" % rper2, decs[t].where(), decs[t].path)
    # outcome per tag value (decision table on the tag switch)
    _tag_table(c, decs[t], "R2.params-tags", {0: "dynafed::Params::Null", 1: "dynafed::Params::Compact", 2: "dynafed::Params::Full"},
               "encode::Error::ParseFailed")
    # confidential values
    for ty, payload_ty, conf_ty, conf_prefixes, explicit_recv in (
            ("confidential::Value", "u64", "secp256k1_zkp::PedersenCommitment", (8, 9), "core::num::swap_bytes(arg1.0)"),
            ("confidential::Asset", "issuance::AssetId", "secp256k1_zkp::Generator", (10, 11), "arg1.0"),
            ("confidential::Nonce", "[u8; 32]", "secp256k1_zkp::PublicKey", (2, 3), "arg1.0")):
        W = writer_list(encs[ty])
        per = {}
        for x in W:
            v = [l for d, l in x["conds"] if d == "discr(arg1)"]
            per.setdefault(v[0] if v else "?", []).append((x["recv"], x["ty"]))
        want = {"Null": [("0", "u8")], "Explicit": [("1", "u8"), (explicit_recv, payload_ty)], "Confidential": [("arg1.0", conf_ty)]}
        c.inst("R3.confidential-writer", ty, per == want, "writer %s" % per, encs[ty].where(), encs[ty].path)
        _confidential_reader(c, prog, decs[ty], ty, payload_ty, conf_ty, conf_prefixes)
    # explicit value byte order: big-endian on the wire in both directions
    fdv = decs["confidential::Value"]
    rt = show(Prov(fdv.body).local(0), -9)
    c.inst("R3.value-byte-order", "Explicit(v): writer emits swap_bytes(v), reader applies swap_bytes to the decoded u64",
           "confidential::Value::Explicit{core::num::swap_bytes(<u64 as encode::Decodable>::consensus_decode(arg1))}" in rt, "reader returns %s" % rt[:300], fdv.where(), fdv.path)
    # the 33-byte writers of the three curve types emit exactly their serialization
    for cty in ("secp256k1_zkp::PedersenCommitment", "secp256k1_zkp::Generator", "secp256k1_zkp::PublicKey"):
        fe = encs.get(cty)
        if fe is None:
            c.inst("R3.point-writer", cty, False, "encoder not found", None, cty)
            continue
        b = fe.body
        p = Prov(b)
        wa = [(bi, t) for bi, t in b.calls(lambda t: callee_name(t).endswith("Write::write_all"))]
        rt = p.local(0)
        ok = len(wa) == 1 and re.search(r"::serialize\(arg1\)", show(p.operand(wa[0][1]["args"][1])))
        lit = [x[2] for x in walk_term(rt) if x[0] == "const"]
        c.inst("R3.point-writer", cty, bool(ok) and 33 in lit, "writes %s returns %s" % ([show(p.operand(t["args"][1])) for _, t in wa], show(rt)), fe.where(), fe.path)


def byte_table(fd, tag_show="<u8 as encode::Decodable>::consensus_decode(arg1)"):
    """exhaustive decision table of a decoder over the 256 values of its tag byte:
    value -> set of outcomes (Ok variant / Err variant / err:propagated)"""
    from ..analysis import predicate_walk
    b = fd.body
    prov = Prov(b)
    outcome = {}
    for (bi, kind, rv) in ret_assignments(b):
        if kind == "ok" and rv.get("k") == "agg":
            v = prov.operand(rv["ops"][0])
            outcome[bi] = "ok:" + (v[1] if v[0] == "agg" else show(v)[:60])
        elif kind == "err" and rv.get("k") == "agg":
            v = prov.operand(rv["ops"][0])
            outcome[bi] = "err:" + (v[1] if v[0] == "agg" else show(v)[:60])
        elif kind == "err":
            outcome[bi] = "err:propagated"
        elif kind == "call":
            outcome[bi] = "call:" + callee_name(rv)
    # start after the tag has been read: the block of the first switch on the tag value
    start = None
    for bi in b.rpo():
        t = b.term(bi)
        if t["k"] == "switch" and show(prov.operand(t["d"])) == tag_show:
            start = bi
            break
    if start is None:
        return None
    table = {}
    for v in range(256):
        def val(kind, bb, t, v=v):
            if kind == "switchval":
                return v if show(t) == tag_show else None
            if kind == "switch":
                if t[0] == "bin" and t[1] in ("Eq", "Ne", "Lt", "Le", "Gt", "Ge") and show(t[2]) == tag_show and t[3][0] == "const":
                    k = t[3][2]
                    return {"Eq": v == k, "Ne": v != k, "Lt": v < k, "Le": v <= k, "Gt": v > k, "Ge": v >= k}[t[1]]
                return None
            return True

        def classify(bb, path):
            return outcome.get(bb)
        table[v] = frozenset(predicate_walk(b, start, val, classify))
    return table


def _tag_table(c, fd, rule, want_variants, err_variant):
    tab = byte_table(fd)
    ok = tab is not None
    bad = {}
    if ok:
        for v in range(256):
            outs = tab[v]
            oks = {o for o in outs if o.startswith("ok:")}
            if v in want_variants:
                good = oks == {"ok:" + want_variants[v]} and not any(o.startswith("err:") and err_variant in o for o in outs)
            else:
                good = not oks and any(err_variant in o for o in outs)
            if not good:
                bad[v] = sorted(outs)
    c.inst(rule, "exhaustive over 256 tag values: %s, every other value is an error" % want_variants, ok and not bad,
           "tag values with a wrong outcome: %s" % dict(list(bad.items())[:6]), fd.where(), fd.path)
    if ok:
        c.sample({"rule": rule, "table": {str(v): sorted(tab[v]) for v in sorted(set(want_variants) | {max(want_variants) + 1, 255})}})


def _confidential_reader(c, prog, fd, ty, payload_ty, conf_ty, conf_prefixes):
    b = fd.body
    g = Guards(b)
    prov = Prov(b)
    TAG = "<u8 as encode::Decodable>::consensus_decode(arg1)"
    short = ty.split("::")[-1]
    want = {0: "%s::Null" % ty, 1: "%s::Explicit" % ty}
    for pfx in conf_prefixes:
        want[pfx] = "%s::Confidential" % ty
    _tag_table(c, fd, "R2.confidential-prefixes:" + short, want, "InvalidConfidentialPrefix")
    # explicit payload wire type and the confidential path: 32 more bytes after the prefix, prefix kept as byte 0
    R, _ = reader_list(fd)
    exp = [x for x in R if any(d == TAG and l == "=1" for d, l in x["conds"])]
    c.inst("R3.confidential-reader", "%s explicit payload" % short, len(exp) == 1 and exp[0]["ty"] == payload_ty,
           "explicit-branch decodes %s" % [(x["ty"]) for x in exp], fd.where(), fd.path)
    rs = [(bi, t) for bi, t in b.calls(lambda t: callee_name(t).endswith("ReadExt::read_slice") or callee_name(t).endswith("read_exact"))]
    okc = False
    detail = "no read of the remaining 32 bytes"
    for bi, t in rs:
        a = show(prov.operand(t["args"][1]))
        cd = cond_desc(b, g.conds(bi))
        if "RangeFrom{1}" in a and "'33'" in a:
            okc = True
        detail = "read_slice(%s) under %s" % (a, cd)
    p0 = False
    for bi in sorted(b.reachable()):
        for st in b.stmts(bi):
            if st["k"] == "assign" and st["pl"]["p"] and isinstance(st["pl"]["p"][-1], dict) and ("cidx" in st["pl"]["p"][-1] or "idx" in st["pl"]["p"][-1]):
                if show(prov._rvalue(st["rv"], True)) == TAG:
                    p0 = True
    c.inst("R3.confidential-reader", "%s confidential payload" % short, okc and p0,
           detail + "; prefix stored as byte 0: %s" % p0, fd.where(), fd.path)
    fs = [show(prov._call(t, True)) for bi, t in b.calls(lambda t: callee_name(t).endswith("::from_slice"))]
    c.inst("R3.confidential-reader", "%s point validation" % short, any(conf_ty + "::from_slice" in s for s in fs), "from_slice calls %s" % fs, fd.where(), fd.path)


# ------------------------------------------------------------------ special codecs
def _txin(c, prog, encs, decs):
    fe, fd = encs["transaction::TxIn"], decs["transaction::TxIn"]
    W = writer_list(fe)
    ISS = ("transaction::TxIn::has_issuance(arg1)", "true")
    w = [(x["recv"], x["ty"], tuple(x["conds"])) for x in W]
    okw = (len(w) == 5 and w[0] == ("arg1.previous_output.txid", "hash_types::Txid", ()) and w[1][1] == "u32" and w[1][2] == ()
           and w[2] == ("arg1.script_sig", "script::Script", ()) and w[3] == ("arg1.sequence", "transaction::Sequence", ())
           and w[4] == ("arg1.asset_issuance", "transaction::AssetIssuance", (ISS,)))
    c.inst("R3.txin-writer", "[txid, vout|flags, script_sig, sequence, issuance if has_issuance()]", okw, "writer %s" % w, fe.where(), fe.path)
    # flag folding: vout |= 1<<30 under is_pegin, |= 1<<31 under has_issuance()
    b = fe.body
    g = Guards(b)
    p = Prov(b)
    ors = set()
    for bi in sorted(b.reachable()):
        for s in b.stmts(bi):
            if s["k"] == "assign" and s["rv"]["k"] == "bin" and s["rv"]["op"] == "BitOr":
                o = show(p.operand(s["rv"]["b"]))
                ors.add((o, tuple(cond_desc(b, g.conds(bi)))))
    want = {("(1 Shl 30)", (("arg1.is_pegin", "true"),)), ("(1 Shl 31)", (ISS,))}
    c.inst("R3.txin-flag-folding", "bit 30 iff is_pegin, bit 31 iff has_issuance()", ors == want, "ORs %s" % sorted(ors), fe.where(), fe.path)
    # reader
    R, ret = reader_list(fd)
    r = [(x["field"], x["ty"]) for x in R]
    okr = r[:3] == [("previous_output", "transaction::OutPoint"), ("script_sig", "script::Script"), ("sequence", "transaction::Sequence")] \
        and len(r) == 4 and r[3] == ("asset_issuance", "transaction::AssetIssuance")
    c.inst("R3.txin-reader", "[outpoint, script_sig, sequence, issuance?] into the same fields", okr, "reader %s" % r, fd.where(), fd.path)
    bd = fd.body
    gd = Guards(bd)
    pd = Prov(bd)
    VOUT = "<transaction::OutPoint as encode::Decodable>::consensus_decode(arg1).vout"
    MASK = "Not(((1 Shl 30) BitOr (1 Shl 31)))"
    PHI = "phi(%s | (%s BitAnd %s))" % (VOUT, VOUT, MASK)

    def normv(x):
        return x.replace(PHI, "VOUT").replace(VOUT, "VOUT")
    # the coinbase switch
    coin_edge = norm_edge = None
    for (sb, tb, vals, excl) in gd.switch_edges():
        d = normv(show(pd.operand(bd.term(sb)["d"]), -9))
        lab = cond_desc(bd, [(sb, pd.operand(bd.term(sb)["d"]), vals, excl)])
        if d == "(VOUT Eq 4294967295)" and lab:
            if lab[0][1] == "true":
                coin_edge = (sb, tb)
            else:
                norm_edge = (sb, tb)
        if d == "(VOUT Ne 4294967295)" and lab:
            if lab[0][1] == "false":
                coin_edge = (sb, tb)
            else:
                norm_edge = (sb, tb)
    c.inst("R2.txin-coinbase-exemption", "decoder branches on vout == 0xffffffff before touching the flag bits", coin_edge is not None and norm_edge is not None,
           "no comparison of the decoded vout with 0xffffffff found", fd.where(), fd.path)
    vals_n, vals_c = set(), set()
    if coin_edge and norm_edge:
        for bi in sorted(bd.reachable()):
            inn = gd.edge_dominates(norm_edge[0], norm_edge[1], bi)
            inc = gd.edge_dominates(coin_edge[0], coin_edge[1], bi)
            for s in bd.stmts(bi):
                if s["k"] != "assign" or s["rv"]["k"] not in ("bin", "use"):
                    continue
                val = normv(show(pd._rvalue(s["rv"], True), -9))
                if inn and ("BitAnd" in val):
                    vals_n.add(val)
                if inc and s["rv"]["k"] == "use" and val in ("0", "1"):
                    vals_c.add(val)
        # mask use anywhere outside the normal region would be a violation
        stray = set()
        for bi in sorted(bd.reachable()):
            if gd.edge_dominates(norm_edge[0], norm_edge[1], bi):
                continue
            for s in bd.stmts(bi):
                if s["k"] == "assign" and s["rv"]["k"] == "bin" and s["rv"]["op"] == "BitAnd":
                    stray.add(normv(show(pd._rvalue(s["rv"], True), -9)))
        want_vals = {"(VOUT BitAnd (1 Shl 30))", "(VOUT BitAnd (1 Shl 31))", "(VOUT BitAnd %s)" % MASK}
        c.inst("R2.txin-flag-extraction", "flags read with masks 1<<30 / 1<<31 and cleared with !((1<<30)|(1<<31)) only when vout != 0xffffffff",
               want_vals <= vals_n and vals_c <= {"0"} and not stray,
               "non-coinbase mask operations %s; coinbase assignments %s; mask operations outside the non-coinbase branch %s" % (sorted(vals_n), sorted(vals_c), sorted(stray)),
               fd.where(), fd.path)
        # the cleared value is stored back into outp.vout
        stored = [e for e in __import__("vflib.analysis", fromlist=["effects"]).effects(bd) if e["kind"] == "assign" and e["target"][0] == "fld" and e["target"][3] == "vout"]
        c.inst("R2.txin-flags-cleared", "outp.vout &= !((1<<30)|(1<<31))", len(stored) == 1 and normv(show(stored[0]["value"], -9)) == "(VOUT BitAnd %s)" % MASK,
               "stores %s" % [normv(show(e["value"], -9)) for e in stored], fd.where(), fd.path)
    errs = err_returns(bd)
    sup = [e for e in errs if "superfluous asset issuance" in e[1]]
    oks = len(sup) == 1 and any(d.startswith("transaction::AssetIssuance::is_null(") and l == "true" for d, l in sup[0][2])
    c.inst("R2.txin-null-issuance", "decoded issuance that is_null() => error", oks, "errors %s" % [(e[1][:60], e[2][-2:]) for e in errs], fd.where(), fd.path)
    # issuance decode is guarded by the has_issuance flag derived from bit 31
    iss = [x for x in R if x["ty"] == "transaction::AssetIssuance"]
    c.inst("R2.txin-issuance-guard", "issuance decoded iff flag bit 31", len(iss) == 1 and any("(1 Shl 31)" in d and l == "true" for d, l in iss[0]["conds"]),
           "guards %s" % (iss[0]["conds"] if iss else None), fd.where(), fd.path)


def _transaction(c, prog, encs, decs):
    fd = decs["transaction::Transaction"]
    R, ret = reader_list(fd)
    r = [(x["ty"], tuple(l for d, l in x["conds"] if d == "<u8 as encode::Decodable>::consensus_decode(arg1)")) for x in R]
    want = [("u32", ()), ("u8", ()), ("std::vec::Vec<transaction::TxIn>", ()), ("std::vec::Vec<transaction::TxOut>", ()), ("locktime::LockTime", ()),
            ("transaction::TxInWitness", ("=1",)), ("transaction::TxOutWitness", ("=1",))]
    c.inst("R3.transaction-reader", "[version, flag, inputs, outputs, lock_time] then witnesses iff flag == 1", r == want, "reader %s" % r, fd.where(), fd.path)
    b = fd.body
    g = Guards(b)
    prov = Prov(b)
    TAG = "<u8 as encode::Decodable>::consensus_decode(arg1)"
    rows = {}
    for (bi, kind, rv) in ret_assignments(b):
        cd = cond_desc(b, g.conds(bi))
        tag = [l for d, l in cd if d == TAG]
        if not tag:
            continue
        if kind in ("ok", "err") and rv.get("k") == "agg":
            rows.setdefault(tag[0], []).append((kind, show(prov.operand(rv["ops"][0]))[:70], [x for x in cd if "all(" in x[0]]))
    ok0 = [x for x in rows.get("=0", []) if x[0] == "ok"]
    oth = rows.get("not in 0,1", [])
    one = rows.get("=1", [])
    ok = len(ok0) == 1 and len(rows.get("=0", [])) == 1 and len(oth) == 1 and oth[0][0] == "err" and \
        any(x[0] == "err" for x in one) and any(x[0] == "ok" for x in one)
    c.inst("R2.transaction-flag-table", "flag 0 => no witness; 1 => witnesses, all-empty => error; other => error", ok, "rows %s" % rows, fd.where(), fd.path)
    # the all-empty rejection: error under all(input witness empty) && all(output witness empty)
    e1 = [x for x in one if x[0] == "err"]
    okw = len(e1) == 1 and len(e1[0][2]) == 2 and all(l == "true" for d, l in e1[0][2])
    c.inst("R2.transaction-empty-witness", "flag 1 with only empty witnesses => error", okw, "error row %s" % e1, fd.where(), fd.path)
    # closures test is_empty() of the witness
    cl = prog.closures_of(fd.path)
    tests = sorted(show(Prov(x.body).local(0)) for x in cl)
    c.inst("R2.transaction-empty-witness-test", "all() predicates are TxInWitness::is_empty / TxOutWitness::is_empty",
           tests == ["transaction::TxInWitness::is_empty(arg2.witness)", "transaction::TxOutWitness::is_empty(arg2.witness)"], "closures %s" % tests, fd.where(), fd.path)


def _block_header(c, prog, encs, decs):
    fe, fd = encs["block::BlockHeader"], decs["block::BlockHeader"]
    W = writer_list(fe)
    w = [(x["recv"], x["ty"]) for x in W]
    okw = w == [("phi((arg1.version BitOr 2147483648) | arg1.version)", "u32"), ("arg1.prev_blockhash", "hash_types::BlockHash"),
                ("arg1.merkle_root", "hash_types::TxMerkleNode"), ("arg1.time", "u32"), ("arg1.height", "u32"), ("arg1.ext", "block::ExtData")]
    c.inst("R3.header-writer", "[version|marker, prev, merkle root, time, height, ext]", okw, "writer %s" % w, fe.where(), fe.path)
    # marker iff Dynafed
    b = fe.body
    g = Guards(b)
    p = Prov(b)
    rows = set()
    for bi in sorted(b.reachable()):
        for s in b.stmts(bi):
            if s["k"] == "assign" and not s["pl"]["p"]:
                v = show(p._rvalue(s["rv"], True))
                if v in ("(arg1.version BitOr 2147483648)", "arg1.version") and b.local_ty(s["pl"]["l"]) == "u32":
                    cd = tuple(cond_desc(b, g.conds(bi)))
                    if cd:
                        rows.add((v, cd))
    D = "discr(arg1.ext)"
    marked = {cd for v, cd in rows if v == "(arg1.version BitOr 2147483648)"}
    plain_proof = ("arg1.version", ((D, "Proof"),)) in rows
    c.inst("R3.header-marker-writer", "0x80000000 iff ExtData::Dynafed", marked == {((D, "Dynafed"),)} and plain_proof,
           "rows %s" % sorted(rows), fe.where(), fe.path)
    fx = encs["block::ExtData"]
    Wx = writer_list(fx)
    per = {}
    for x in Wx:
        v = [l for d, l in x["conds"] if d == "discr(arg1)"]
        per.setdefault(v[0] if v else "?", []).append((x["recv"], x["ty"]))
    want = {"Proof": [("arg1.challenge", "script::Script"), ("arg1.solution", "script::Script")],
            "Dynafed": [("arg1.current", "dynafed::Params"), ("arg1.proposed", "dynafed::Params"), ("arg1.signblock_witness", "std::vec::Vec<std::vec::Vec<u8>>")]}
    c.inst("R3.extdata-writer", "Proof[challenge, solution] / Dynafed[current, proposed, signblock_witness]", per == want, "writer %s" % per, fx.where(), fx.path)
    R, ret = reader_list(fd)
    bd = fd.body
    r = [(x["field"], x["ty"]) for x in R]
    head = r[:5] == [("version", "u32"), ("prev_blockhash", "hash_types::BlockHash"), ("merkle_root", "hash_types::TxMerkleNode"), ("time", "u32"), ("height", "u32")] or \
        [x[1] for x in r[:5]] == ["u32", "hash_types::BlockHash", "hash_types::TxMerkleNode", "u32", "u32"]
    tail = sorted(x[1] for x in r[5:])
    c.inst("R3.header-reader", "same five fields then Proof[2 scripts] | Dynafed[2 params, witness]", head and tail == sorted(
        ["dynafed::Params", "dynafed::Params", "std::vec::Vec<std::vec::Vec<u8>>", "script::Script", "script::Script"]), "reader %s" % r, fd.where(), fd.path)
    # marker extraction: version >> 31 == 1 selects Dynafed, version masked with 0x7fffffff
    pd = Prov(bd)
    txt = set()
    for bi in sorted(bd.reachable()):
        for s in bd.stmts(bi):
            if s["k"] == "assign" and s["rv"]["k"] == "bin":
                txt.add(show(pd._rvalue(s["rv"], True)).replace("<u32 as encode::Decodable>::consensus_decode(arg1)", "V"))
    okm = any(re.search(r"Shr 31", x) for x in txt) and any(re.search(r"BitAnd 2147483647", x) for x in txt)
    c.inst("R3.header-marker-reader", "dynafed iff version >> 31 == 1; version &= 0x7fffffff", okm, "binary ops %s" % sorted(txt)[:8], fd.where(), fd.path)
    ret_s = show(ret, -9)
    c.inst("R3.header-variant-by-marker", "reader builds ExtData::Dynafed under the marker and ExtData::Proof otherwise",
           "block::ExtData::Dynafed{" in ret_s and "block::ExtData::Proof{" in ret_s, "return %s" % ret_s[:200], fd.where(), fd.path)


def _box_option(c, prog, encs, decs):
    for inner in ("secp256k1_zkp::RangeProof", "secp256k1_zkp::SurjectionProof"):
        t = "std::option::Option<std::boxed::Box<%s>>" % inner
        fe, fd = encs.get(t), decs.get(t)
        if fe is None or fd is None:
            c.inst("R2.box-option", inner, False, "codec for %s not found" % t, None, t)
            continue
        W = writer_list(fe)
        per = {}
        for x in W:
            v = [l for d, l in x["conds"] if d == "discr(arg1)"]
            per[v[0] if v else "?"] = (x["recv"], x["ty"])
        okw = per.get("None", ("", ""))[1] in ("std::vec::Vec<u8>", "[u8]", "encode::VarInt", "u8") and "Some" in per
        b = fd.body
        g = Guards(b)
        p = Prov(b)
        rows = {}
        for (bi, kind, rv) in ret_assignments(b):
            cd = cond_desc(b, g.conds(bi))
            em = [l for d, l in cd if d.startswith("std::vec::Vec::is_empty(")]
            if em and kind == "ok":
                rows[em[0]] = show(p.operand(rv["ops"][0]))[:60]
        okr = rows.get("true") == "std::option::Option::None{}" and rows.get("false", "").startswith("std::option::Option::Some{")
        c.inst("R2.box-option", inner, okw and okr, "writer %s reader %s" % (per, rows), fd.where(), fd.path)


# ------------------------------------------------------------------ varints
def _range_table(fn, what):
    """decision rows for a match on an integer argument with range patterns: [(lo, hi, outcome)]"""
    b = fn.body
    g = Guards(b)
    return b, g


def _varints(c, prog):
    # read_varint: tag -> (read width, minimality bound)
    fr = prog.fn("<R as ext::ReadExt>::read_varint")
    b = fr.body
    g = Guards(b)
    p = Prov(b)
    errs = err_returns(b)
    nm = [e for e in errs if "NonMinimalVarInt" in e[1]]
    got = set()
    TAG = "ext::ReadExt::read_u8(arg1)"
    for e in nm:
        tag = [l for d, l in e[2] if d == TAG]
        cmp_ = [(d, l) for d, l in e[2] if " Lt " in d]
        if tag and cmp_:
            m = re.match(r"\(ext::ReadExt::read_(u\d+)\(arg1\) Lt (\d+)\)", cmp_[0][0])
            if m and cmp_[0][1] == "true":
                got.add((tag[0], m.group(1), int(m.group(2))))
    want = {("=255", "u64", 0x1_0000_0000), ("=254", "u32", 0x10000), ("=253", "u16", 0xFD)}
    c.inst("R2.varint-minimal", "0xFF/u64 >= 2^32, 0xFE/u32 >= 2^16, 0xFD/u16 >= 0xFD else NonMinimalVarInt", got == want, "guards %s" % sorted(got), fr.where(), fr.path)
    # emit_varint: range -> (tag byte, payload width, returned size)
    fw = prog.fn("<W as ext::WriteExt>::emit_varint")
    bw = fw.body
    gw = Guards(bw)
    pw = Prov(bw)
    rows = []
    for (bi, kind, rv) in ret_assignments(bw):
        if kind != "ok":
            continue
        cd = cond_desc(bw, gw.conds(bi))
        size = show(pw.operand(rv["ops"][0]))
        rng = sorted((d, l) for d, l in cd if "arg2" in d)
        emits = []
        for e in events(bw, lambda t: re.search(r"WriteExt::emit_u\d+$", callee_name(t)) is not None):
            if bw.dominates(e["bb"], bi):
                emits.append((callee_name(e["t"]).split("::")[-1], show(e["args"][1])))
        rows.append((size, tuple(emits), tuple(rng)))
    sizes = sorted((r[0], r[1]) for r in rows)
    want_rows = sorted([("1", (("emit_u8", "(arg2 as u8)"),)), ("3", (("emit_u8", "253"), ("emit_u16", "(arg2 as u16)"))),
                        ("5", (("emit_u8", "254"), ("emit_u32", "(arg2 as u32)"))), ("9", (("emit_u8", "255"), ("emit_u64", "arg2")))])
    c.inst("R6.emit-varint-table", "1:[v] 3:[FD,u16] 5:[FE,u32] 9:[FF,u64]", sizes == want_rows, "rows %s" % sizes, fw.where(), fw.path)
    # range boundaries: constants compared against arg2
    consts = set()
    for bi in sorted(bw.reachable()):
        for s in bw.stmts(bi):
            if s["k"] == "assign" and s["rv"]["k"] == "bin" and s["rv"]["op"] in ("Le", "Lt", "Ge", "Gt"):
                t = pw._rvalue(s["rv"], True)
                for x in (t[2], t[3]):
                    if x[0] == "const":
                        consts.add((s["rv"]["op"], x[2]))
    want_c = {("Le", 0xFC), ("Le", 0xFFFF), ("Le", 0xFFFFFFFF)}
    have_hi = {k for k in consts if k[0] == "Le"}
    c.inst("R6.emit-varint-bounds", "upper bounds 0xFC, 0xFFFF, 0xFFFFFFFF", want_c <= consts, "comparisons %s" % sorted(consts), fw.where(), fw.path)
    fs = prog.fn("encode::VarInt::size")
    bs = fs.body
    ps = Prov(bs)
    consts2 = set()
    for bi in sorted(bs.reachable()):
        for s in bs.stmts(bi):
            if s["k"] == "assign" and s["rv"]["k"] == "bin" and s["rv"]["op"] in ("Le", "Lt", "Ge", "Gt"):
                t = ps._rvalue(s["rv"], True)
                for x in (t[2], t[3]):
                    if x[0] == "const":
                        consts2.add((s["rv"]["op"], x[2]))
    rets = sorted(show(ps._rvalue(pay["rv"], True)) for (bi, si, kind, pay) in bs.defs().get(0, []) if kind == "assign")
    c.inst("R6.varint-size-table", "VarInt::size boundaries equal emit_varint's and sizes are 1/3/5/9", {k for k in consts2 if k[0] == "Le"} == have_hi and rets == ["1", "3", "5", "9"],
           "size() comparisons %s returns %s; emit comparisons %s" % (sorted(consts2), rets, sorted(consts)), fs.where(), fs.path)


# ------------------------------------------------------------------ R1 trailing data
def _trailing(c, prog):
    f = prog.fn("encode::deserialize")
    b = f.body
    g = Guards(b)
    p = Prov(b)
    oks = [(bi, cond_desc(b, g.conds(bi))) for (bi, kind, rv) in ret_assignments(b) if kind == "ok"]
    EQ = "(encode::deserialize_partial(arg1).1 Eq core::slice::len(arg1))"
    NE = EQ.replace(" Eq ", " Ne ")
    ok = len(oks) == 1 and ((EQ, "true") in oks[0][1] or (NE, "false") in oks[0][1])
    c.inst("R1.trailing-data-gate", "deserialize: Ok only if consumed == data.len()", ok, "Ok guards %s" % oks, f.where(), f.path)
    errs = err_returns(b)
    c.inst("R1.trailing-data-error", "otherwise ParseFailed", any("data not consumed entirely" in e[1] and ((EQ, "false") in e[2] or (NE, "true") in e[2]) for e in errs),
           "errors %s" % [(e[1][:50], e[2]) for e in errs], f.where(), f.path)
    fp = prog.fn("encode::deserialize_partial")
    t = show(Prov(fp.body).local(0), -9)
    okp = ("std::io::Cursor::new(arg1)" in t or "std::io::Cursor::<T>::new(arg1)" in t) and "Cursor::<T>::position" in t or "position(" in t
    ev = events(fp.body, is_decode_call)
    same = len(ev) == 1 and "Cursor" in show(ev[0]["args"][0])
    c.inst("R1.consumed-is-cursor-position", "deserialize_partial returns the position of the cursor it decoded from", bool(okp) and same,
           "returns %s; decode from %s" % (t[:200], [show(e["args"][0]) for e in ev]), fp.where(), fp.path)


# ------------------------------------------------------------------ R4 length accounting
def _flatten_addends(t, out, depth=0):
    if depth > 30 or not isinstance(t, tuple) or not t:
        return
    k = t[0]
    if k == "phi":
        for a in t[1]:
            _flatten_addends(a, out, depth + 1)
    elif k == "bin" and t[1] in ("Add", "AddWithOverflow"):
        _flatten_addends(t[2], out, depth + 1)
        _flatten_addends(t[3], out, depth + 1)
    elif k == "fld" and t[3] == "0" and t[1][0] == "bin":
        _flatten_addends(t[1], out, depth + 1)
    elif k in ("ok", "some"):
        _flatten_addends(t[1], out, depth + 1)
    elif k == "agg" and t[1] == "std::result::Result::Ok":
        _flatten_addends(t[3][0], out, depth + 1)
    elif k == "cyc":
        return
    elif k == "err" or (k == "call" and re.search(r"FromResidual<.*>>::from_residual$|FromResidual::from_residual$", t[1])):
        return  # error propagation path, not a length
    else:
        out.append(t)


def _length_accounting(c, prog, encs):
    n = 0
    for ty, fe in sorted(encs.items()):
        b = fe.body
        prov = Prov(b, site_tag=r"consensus_encode$|emit_slice$|emit_varint$|Write::write$|consensus_encode_with_size$|ControlBlock::encode$")
        ret = prov.local(0)
        addends = []
        _flatten_addends(ret, addends)
        sites = {x[5] for a in addends for x in walk_term(a) if x[0] == "call" and len(x) > 5 and x[5] is not None}
        consts = [a[2] for a in addends if a[0] == "const"]
        evs = events(b, lambda t: is_encode_call(t) or re.search(r"emit_slice$|emit_varint$|consensus_encode_with_size$", callee_name(t)) is not None, prov=prov)
        if not evs:
            continue
        for e in evs:
            n += 1
            counted = e["bb"] in sites
            how = "result added to the returned length"
            if not counted:
                w = FIXED.get(e["self_ty"] or "")
                if w is None and re.search(r"emit_slice$", e["name"]):
                    # slice of a fixed-size array receiver: `w.emit_slice(&self[..])?; Ok(N)`
                    m = re.match(r"^\[u8; (\d+)\]$", ty)
                    if m and show(e["args"][1]).endswith("::index(arg1, std::ops::RangeFull::RangeFull{})"):
                        w = int(m.group(1))
                if w is not None and w in consts:
                    counted = True
                    how = "fixed-width value, literal %d added" % w
                    consts.remove(w)
            c.inst("R4.length-accounting", "%s: %s" % (ty, show(e["args"][0])[:70]), counted,
                   "bytes written by this nested encode are not part of the returned length (term %s)" % show(ret)[:200], fe.where(e["t"]["sp"]), fe.path)
    c.floor("R4.length-accounting", 60, "hand-written and macro-generated encoders")
    # write_all of fixed arrays in the curve-point writers handled in R3.point-writer


def _primitives(c, prog):
    """R7: the primitive layer every codec (and every hash preimage, size figure and PSET value) is built from: fixed-width
    integers are written as their little-endian bytes with one write_all and read back from exactly that many bytes with
    from_le_bytes; slices are written whole; consensus_encode_with_size is compact size then the bytes; fixed arrays likewise."""
    from ..analysis import effects

    def effs(f):
        return [(e["callee"], [show(a, -30) for a in e.get("args", [])]) for e in effects(f.body) if e["kind"] == "mutarg" and "index_mut" not in (e["callee"] or "")]

    def ret(f):
        return re.sub(r"@#\d+", "", show(Prov(f.body).local(0), -30))
    W, R = "<W as ext::WriteExt>::", "<R as ext::ReadExt>::"
    for ty, n in (("u16", 2), ("u32", 4), ("u64", 8), ("i16", 2), ("i32", 4), ("i64", 8)):
        f = prog.fn(W + "emit_" + ty)
        c.inst("R7.primitive-writer", "emit_%s = write_all(le bytes)" % ty, effs(f) == [("std::io::Write::write_all", ["arg1", "core::num::to_le_bytes(arg2)"])],
               "effects %s" % effs(f), f.where(), f.path)
        f = prog.fn(R + "read_" + ty)
        r = ret(f)
        e = effs(f)
        buf = "repeat(('const', 'u8', 0), '%d')" % n
        c.inst("R7.primitive-reader", "read_%s = from_le_bytes(exactly %d bytes)" % (ty, n),
               len(set(map(str, e))) == 1 and e[0][0] == "std::io::Read::read_exact" and e[0][1][0] == "arg1" and buf in e[0][1][1]
               and "std::result::Result::Ok{core::num::from_le_bytes(%s)}" % buf in r, "effects %s; returns %s" % (e[:1], r[-120:]), f.where(), f.path)
    for nm, val in (("emit_u8", ("array{arg2}",)), ("emit_i8", ("array{(arg2 as u8)}",)), ("emit_bool", ("array{std::convert::num::<impl std::convert::From<bool> for u8>::from(arg2)}", "array{(arg2 as u8)}"))):
        f = prog.fn(W + nm)
        e = effs(f)
        c.inst("R7.primitive-writer", "%s = write_all([v])" % nm, len(e) == 1 and e[0][0] == "std::io::Write::write_all" and e[0][1][0] == "arg1" and e[0][1][1] in val,
               "effects %s" % e, f.where(), f.path)
    f = prog.fn(W + "emit_slice")
    c.inst("R7.primitive-writer", "emit_slice = write_all(v), Ok(v.len())", effs(f) == [("std::io::Write::write_all", ["arg1", "arg2"])] and "std::result::Result::Ok{core::slice::len(arg2)}" in ret(f),
           "effects %s; returns %s" % (effs(f), ret(f)[-80:]), f.where(), f.path)
    f = prog.fn(R + "read_slice")
    c.inst("R7.primitive-reader", "read_slice = read_exact(slice)", ret(f) == "std::io::Read::read_exact(arg1, arg2)", "returns %s" % ret(f), f.where(), f.path)
    f = prog.fn(R + "read_u8")
    one = "repeat(('const', 'u8', 0), '1')"
    c.inst("R7.primitive-reader", "read_u8 = one byte", "std::result::Result::Ok{%s[0]}" % one in ret(f) and all(x[0] == "std::io::Read::read_exact" and x[1] == ["arg1", one] for x in effs(f)),
           "returns %s" % ret(f)[-80:], f.where(), f.path)
    # integer impls of Encodable/Decodable delegate to the writer/reader of their own width
    n_int = 0
    for ty in ("u8", "u16", "u32", "u64", "i32", "i64"):
        pe, pd = "<%s as encode::Encodable>::consensus_encode" % ty, "<%s as encode::Decodable>::consensus_decode" % ty
        if not prog.has_fn(pe):
            continue
        n_int += 1
        f = prog.fn(pe)
        c.inst("R7.int-codec", "%s writer" % ty, effs(f) == [("ext::WriteExt::emit_" + ty, ["arg2", "arg1"])], "effects %s" % effs(f), f.where(), f.path)
        if prog.has_fn(pd):
            f = prog.fn(pd)
            c.inst("R7.int-codec", "%s reader" % ty, ret(f) == "ext::ReadExt::read_%s(arg1)" % ty, "returns %s" % ret(f), f.where(), f.path)
    f = prog.fn("encode::consensus_encode_with_size")
    e = effs(f)
    c.inst("R7.with-size", "compact size of the length, then the bytes, nothing else",
           e == [("<encode::VarInt as encode::Encodable>::consensus_encode", ["encode::VarInt::VarInt{(core::slice::len(arg1) as u64)}", "arg2"]), ("ext::WriteExt::emit_slice", ["arg2", "arg1"])],
           "effects %s" % e, f.where(), f.path)
    # endian::u32_to_array_le (trailing hash type of the legacy sighash, xpub derivation paths of the PSET global map): for i in 0..4
    # res[i] = (val >> 8 i) & 0xff — one loop over the range 0..4 with exactly that store, result returned
    from .c15 import Fn as _Fn, sh as _sh
    EL = _Fn(prog, "endian::u32_to_array_le")
    NXT = "some(std::iter::range::<impl std::iter::Iterator for std::ops::Range<A>>::next(std::ops::Range::Range{0, 4}))"
    stores = [(_sh(s_[1]), _sh(s_[2])) for cx, s_ in EL.flat if s_[0] in ("set", "store") and cx and cx[-1][0] == "while"]
    loops = [_sh(s_[1]) for s_ in EL.L if s_[0] == "while"]
    want_store = ("var('v0',)[%s]" % NXT, "(((arg1 Shr (%s MulWithOverflow 8).0) BitAnd 255) as u8)" % NXT)
    rets_ = [_sh(s_[1]) for cx, s_ in EL.flat if s_[0] == "ret"]
    c.inst("R7.primitive-writer", "u32_to_array_le: byte i = (val >> 8i) & 0xff for i in 0..4", len(loops) == 1 and "Range{0, 4}" in loops[0] and stores == [want_store] and rets_ == ["var('v0',)"],
           "loops %s; stores %s; returns %s" % (loops, stores, rets_), EL.f.where(), EL.f.path)
    # encoders never refuse a value: the only way a consensus_encode fails is a failing write of its sink (hash engines and Vec
    # sinks never fail, and the id/root/sighash code unwraps on that basis); an explicit Err return in an encoder makes some
    # in-memory value unserialisable
    n_enc = 0
    for pth in sorted(prog.fns):
        if not re.search(r"Encodable(<.*>)?>::consensus_encode$|impl encode::Encodable for .*>::consensus_encode$", pth):
            continue
        n_enc += 1
        er = err_returns(prog.fns[pth].body)
        c.inst("R7.encoder-infallible", pth.split(" as ")[0].lstrip("<")[:90], not er, "explicit error returns %s" % [str(e[1])[:80] for e in er[:2]], prog.fns[pth].where(), pth)
    c.floor("R7.encoder-infallible", 50)
    # the generic slice encoder: byte slices through the with-size helper, everything else as compact size of the element count
    # followed by every element; nothing else is written and the count has no second form
    fsl = prog.fn("<[T] as encode::Encodable>::consensus_encode")
    evs = []
    for e in events(fsl.body, lambda t: is_encode_call(t) or re.search(r"consensus_encode_with_size$|emit_\w+$|write_all$", callee_name(t)) is not None):
        cds = [("TypeId==u8" if "TypeId" in d else d, l) for d, l in cond_desc(fsl.body, e["conds"])]
        evs.append((callee_name(e["t"]).split("::")[-1] if "with_size" in callee_name(e["t"]) or "emit_" in callee_name(e["t"]) else (e.get("self_ty") or "?"),
                    show(e["args"][0], -12)[:60], cds))
    want_sl = [("consensus_encode_with_size", evs[0][1] if evs else "", [("TypeId==u8", "true")]),
               ("encode::VarInt", "encode::VarInt::VarInt{(core::slice::len(arg1) as u64)}", [("TypeId==u8", "false")]),
               ("T", "elem(arg1)", [("TypeId==u8", "false"), ("discr(next(arg1))", "Some")])]
    c.inst("R7.slice-encoder", "[T]: bytes via the with-size helper; otherwise VarInt(len) then each element", evs == want_sl and "from_raw_parts" in (evs[0][1] if evs else ""),
           "events %s" % evs, fsl.where(), fsl.path)
    # encoders that are "the bytes with their length": exactly one unconditional call of the helper on the whole byte view
    WS = {"<bitcoin::ScriptBuf as encode::Encodable>::consensus_encode": "bitcoin::Script::as_bytes(bitcoin::ScriptBuf::as_script(arg1))",
          "<sighash::Annex<'_> as encode::Encodable>::consensus_encode": "arg1.0"}
    for fnp, view in WS.items():
        f = prog.fn(fnp)
        r = ret(f).replace("sighash::Annex::as_bytes(arg1)", "arg1.0").replace("bitcoin::ScriptBuf::as_bytes(arg1)", view)
        c.inst("R7.with-size-user", fnp.split(" as ")[0].lstrip("<"), r == "encode::consensus_encode_with_size(%s, arg2)" % view,
               "returns %s" % r[:200], f.where(), fnp)
    c.floor("R7.with-size-user", 2)
    for fnp in sorted(prog.fns):
        m = re.match(r"^<\[u8; (\d+)\] as encode::(Encodable|Decodable)>::consensus_(en|de)code$", fnp)
        if not m:
            continue
        f = prog.fn(fnp)
        n = m.group(1)
        if m.group(2) == "Encodable":
            want = [("ext::WriteExt::emit_slice", ["arg2", "std::array::<impl std::ops::Index<I> for [T; N]>::index(arg1, std::ops::RangeFull::RangeFull{})"])]
            c.inst("R7.array-codec", "[u8; %s] writer" % n, effs(f) == want and "std::result::Result::Ok{%s}" % n in ret(f), "effects %s; returns %s" % (effs(f), ret(f)[:60]), f.where(), f.path)
        else:
            buf = "repeat(('const', 'u8', 0), '%s')" % n
            e = effs(f)
            c.inst("R7.array-codec", "[u8; %s] reader" % n, len(set(map(str, e))) == 1 and e[0] == ("ext::ReadExt::read_slice", ["arg1", buf]) and "std::result::Result::Ok{%s}" % buf in ret(f),
                   "effects %s; returns %s" % (e[:1], ret(f)[:60]), f.where(), f.path)
    c.floor("R7.primitive-writer", 10, "6 little-endian writers, u8/i8/bool, slice")
    c.floor("R7.primitive-reader", 8, "6 little-endian readers, u8, slice")
    c.floor("R7.int-codec", 6)
    c.floor("R7.array-codec", 4)


def _newtype_views(c, prog):
    """R7.newtype-view: the byte views of the hash/root newtypes are the identity on the wrapped bytes: as/to_byte_array
    project field 0 (through the inner hash type's own view), from_byte_array wraps its argument (through the inner type's own
    constructor), from_midstate takes the midstate's bytes. Every id, root and hash the other properties compare passes through them."""
    n = 0
    for path in sorted(prog.fns):
        m = re.match(r"^((?:[a-z_0-9]+::)+)([A-Z]\w+)::(as_byte_array|to_byte_array|from_byte_array|from_midstate)$", path)
        if not m or m.group(2) in ("RangeProofMessage", "AssetBlindingFactor", "ValueBlindingFactor"):
            continue
        f = prog.fn(path)
        r = show(Prov(f.body).local(0), -30)
        T = m.group(1) + m.group(2)
        kind = m.group(3)
        if kind in ("as_byte_array", "to_byte_array"):
            ok = r == "arg1.0" or re.match(r"^hashes::[A-Za-z0-9_:]+::%s\(arg1\.0\)$" % kind, r) is not None
        elif kind == "from_byte_array":
            ok = re.match(r"^%s::%s\{(arg1|hashes::[A-Za-z0-9_:]+::from_byte_array\(arg1\))\}$" % (re.escape(T), m.group(2)), r) is not None
        else:
            ok = r == "%s::%s{hashes::sha256::Midstate::to_parts(arg1).0}" % (T, m.group(2))
        n += 1
        c.inst("R7.newtype-view", "%s::%s" % (m.group(2), kind), ok, "returns %s" % r[:160], f.where(), path)
    c.floor("R7.newtype-view", 50, "as/to/from_byte_array of 17 newtypes, from_midstate of 5")


def _locktime(c, prog):
    """R7.locktime: a lock time is one u32 on the wire; below 500,000,000 it is a height, from there on a time, and the value is
    carried unchanged in both directions (decision tables of the six conversion functions, evaluated at the threshold)."""
    from .c15 import Fn, sh, decide
    L = "locktime::"
    rows = {}
    F = Fn(prog, L + "LockTime::to_consensus_u32")
    for cx, s_ in F.flat:
        if s_[0] == "ret":
            rows[tuple((sh(cn), a) for k, cn, a in cx if k == "if")] = sh(s_[1])
    c.inst("R7.locktime", "to_consensus_u32: Blocks(h) -> h, Seconds(t) -> t",
           rows == {(("discr(arg1)", "=0"),): L + "Height::to_consensus_u32(arg1.0)", (("discr(arg1)", "=1"),): L + "Time::to_consensus_u32(arg1.0)"}
           and all(show(Prov(prog.fn(L + t + "::to_consensus_u32").body).local(0), -9) == "arg1.0" for t in ("Height", "Time")),
           "rows %s" % rows, F.f.where(), F.f.path)
    for fnp, lo_ok in ((L + "is_block_height", True), (L + "is_block_time", False)):
        G = Fn(prog, fnp)
        bad = []
        from ..ieval import ieval, NoEval
        rets_ = [s_[1] for cx, s_ in G.flat if s_[0] == "ret"]
        for v in (0, 1, 499999999, 500000000, 500000001, 0xFFFFFFFF):
            want = (v < 500000000) == lo_ok
            try:
                got = bool(ieval(rets_[0], {"n": v}, {"arg1": "n"})) if len(rets_) == 1 else None
            except NoEval:
                got = None
            if got is not want:
                bad.append((v, got))
        c.inst("R7.locktime", fnp.split("::")[-1] + ": threshold 500000000", not bad, "deviations %s" % bad[:3], G.f.where(), G.f.path)
    for ty, pred in (("Height", "is_block_height"), ("Time", "is_block_time")):
        G = Fn(prog, L + ty + "::from_consensus")
        rr = {}
        for cx, s_ in G.flat:
            if s_[0] == "ret":
                rr[tuple((sh(cn), a) for k, cn, a in cx if k == "if")] = sh(s_[1])
        oks = {k: v for k, v in rr.items() if v.startswith("std::result::Result::Ok")}
        c.inst("R7.locktime", "%s::from_consensus: Ok(%s(n)) exactly when %s(n)" % (ty, ty, pred),
               len(rr) == 2 and list(oks.values()) == ["std::result::Result::Ok{%s%s::%s{arg1}}" % (L, ty, ty)]
               and list(oks)[0] in (((L + pred + "(arg1)", "otherwise"),), ((L + pred + "(arg1)", "=1"),)), "rows %s" % rr, G.f.where(), G.f.path)
    G = Fn(prog, L + "LockTime::from_consensus")
    rr = {}
    for cx, s_ in G.flat:
        if s_[0] == "ret":
            rr[tuple((sh(cn), a) for k, cn, a in cx if k == "if")] = sh(s_[1])
    H, T = L + "LockTime::Blocks{%sHeight::from_consensus(arg1)}" % L, L + "LockTime::Seconds{%sTime::from_consensus(arg1)}" % L
    good = (rr in ({((L + "is_block_height(arg1)", "=0"),): T, ((L + "is_block_height(arg1)", "otherwise"),): H},
                   {((L + "is_block_height(arg1)", "=1"),): H, ((L + "is_block_height(arg1)", "otherwise"),): T},
                   {((L + "is_block_time(arg1)", "=0"),): H, ((L + "is_block_time(arg1)", "otherwise"),): T}))
    c.inst("R7.locktime", "LockTime::from_consensus: height below the threshold, time from it on", good, "rows %s" % rr, G.f.where(), G.f.path)
    for ty, var in (("Height", "Blocks"), ("Time", "Seconds")):
        ff = prog.fn("<locktime::LockTime as std::convert::From<locktime::%s>>::from" % ty)
        t = show(Prov(ff.body).local(0), -9)
        c.inst("R7.locktime", "LockTime::from(%s) = %s(h)" % (ty, var), t == "locktime::LockTime::%s{arg1}" % var, "returns %s" % t, ff.where(), ff.path)
    fe = prog.fn("<locktime::LockTime as encode::Encodable>::consensus_encode")
    fd = prog.fn("<locktime::LockTime as encode::Decodable>::consensus_decode")
    re_, rd = show(Prov(fe.body).local(0), -30), show(Prov(fd.body).local(0), -30)
    c.inst("R7.locktime", "wire form: the u32 of to_consensus_u32 / from_consensus of a u32",
           re_ == "<u32 as encode::Encodable>::consensus_encode(locktime::LockTime::to_consensus_u32(arg1), arg2)"
           and rd in ("std::result::Result::map(<u32 as encode::Decodable>::consensus_decode(arg1), fnitem('locktime::LockTime::from_consensus',))",),
           "writer %s; reader %s" % (re_, rd), fe.where(), fe.path)
    c.floor("R7.locktime", 7)


def _defaults(c, prog):
    """R7.null-values: the "null"/default values that canonicity guards, coinbase tests, blanking in the legacy sighash and the
    PSET converters compare against or start from: confidential fields default to Null, witnesses to empty, issuance to the
    all-null issuance, the outpoint to (zero txid, 0xffffffff), the sequence to 0xffffffff."""
    D = " as std::default::Default>::default"

    def term(fnp):
        return re.sub(r"@[\w]*#\d+", "", show(Prov(prog.fn(fnp).body).local(0), -30))
    table = {
        "<confidential::Value" + D: ("confidential::Value::Null{}",),
        "<confidential::Asset" + D: ("confidential::Asset::Null{}",),
        "<confidential::Nonce" + D: ("confidential::Nonce::Null{}",),
        "<dynafed::Params" + D: ("dynafed::Params::Null{}",),
        "<transaction::TxOutWitness" + D: ("transaction::TxOutWitness::empty()", "transaction::TxOutWitness::TxOutWitness{std::option::Option::None{}, std::option::Option::None{}}"),
        "transaction::TxOutWitness::empty": ("transaction::TxOutWitness::TxOutWitness{std::option::Option::None{}, std::option::Option::None{}}",),
        "<transaction::TxInWitness" + D: ("transaction::TxInWitness::empty()",),
        "transaction::TxInWitness::empty": ("transaction::TxInWitness::TxInWitness{std::option::Option::None{}, std::option::Option::None{}, std::vec::Vec::new(), std::vec::Vec::new()}",),
        "<transaction::AssetIssuance" + D: ("transaction::AssetIssuance::null()",),
        "transaction::AssetIssuance::null": ("transaction::AssetIssuance::AssetIssuance{secp256k1_zkp::ZERO_TWEAK, repeat(('const', 'u8', 0), '32'), confidential::Value::Null{}, confidential::Value::Null{}}",),
        "<transaction::OutPoint" + D: ("transaction::OutPoint::null()",),
        "transaction::OutPoint::null": ("transaction::OutPoint::OutPoint{hash_types::Txid::COINBASE_PREVOUT, 4294967295}",),
        "<transaction::Sequence" + D: ("transaction::Sequence::MAX", "transaction::Sequence::Sequence{4294967295}"),
        "<transaction::TxIn" + D: ("transaction::TxIn::TxIn{<transaction::OutPoint as std::default::Default>::default(), 0, script::Script::new(), transaction::Sequence::MAX, "
                                   "<transaction::AssetIssuance as std::default::Default>::default(), <transaction::TxInWitness as std::default::Default>::default()}",),
        "<pset::map::global::TxData" + D: ("pset::map::global::TxData::TxData{2, std::option::Option::None{}, 0, 0, std::option::Option::None{}}",),
        "<block::ExtData" + D: ("block::ExtData::Dynafed{dynafed::Params::Null{}, dynafed::Params::Null{}, std::vec::Vec::new()}",),
    }
    for fnp, wants in table.items():
        t = term(fnp)
        c.inst("R7.null-values", fnp.replace(D, "::default").lstrip("<"), t in wants, "returns %s" % t[:200], prog.fn(fnp).where(), fnp)
    v = (prog.consts.get("transaction::Sequence::MAX") or {}).get("val") or ""
    c.inst("R7.null-values", "Sequence::MAX = 0xffffffff", v in ("transaction::Sequence(u32::MAX)", "transaction::Sequence(4294967295_u32)"), "evaluated %s" % v, None, "transaction::Sequence::MAX")
    v = (prog.consts.get("hash_types::Txid::COINBASE_PREVOUT") or {}).get("val") or ""
    body = re.search(r'\*b"((?:\\x[0-9a-f]{2})*)"', v)
    c.inst("R7.null-values", "Txid::COINBASE_PREVOUT = 32 zero bytes", body is not None and body.group(1) == "\\x00" * 32,
           "evaluated %s" % v[:80], None, "hash_types::Txid::COINBASE_PREVOUT")
    c.floor("R7.null-values", 16)


def run(c, prog, ctx):
    c.explanation = (
        "Static decision of the structural clauses that make the consensus codec a bijection: (R1) deserialize returns Ok only "
        "under consumed == data.len(), where consumed is the position of the cursor that was decoded from; (R2) every canonicity "
        "guard exists with an error edge — minimal varints, witness flag table incl. the all-empty rejection, superfluous null "
        "issuance, flag-bit extraction with the 0xffffffff exemption, confidential prefix tables, dynafed tag table, empty vector "
        "<=> absent proof; (R3) for every type with both impls the ordered (field, wire type) lists of writer and reader are equal "
        "(generic structs, newtypes, the tagged unions, TxIn, Transaction, BlockHeader/ExtData); (R4) the length returned by every "
        "encoder accounts for every nested encode; (R5) = C10.R2 bounded allocation; (R6) the three varint tables agree. Byte "
        "identity of secp256k1 point/proof parse->serialize is trusted.")
    c.assume("secp256k1-zkp from_slice/serialize of points and proofs are mutually inverse on accepted inputs")
    encs, decs = codecs(prog)
    c.stats["encoders"] = len(encs)
    c.stats["decoders"] = len(decs)
    _trailing(c, prog)
    _struct_agreement(c, prog, encs, decs)
    _tagged(c, prog, encs, decs)
    _txin(c, prog, encs, decs)
    _transaction(c, prog, encs, decs)
    _block_header(c, prog, encs, decs)
    _box_option(c, prog, encs, decs)
    _varints(c, prog)
    _primitives(c, prog)
    _newtype_views(c, prog)
    _locktime(c, prog)
    _defaults(c, prog)
    _length_accounting(c, prog, encs)
    # guard predicates the codec branches on (witness flag, issuance flag, null-ness)
    run_predicates(c, prog, "R3.guard-predicates")
    # R5: bounded allocation on decoder paths (shared implementation with C10.R2)
    reach = {}
    for ty, fd in decs.items():
        for d in prog.inst_defs(prog.inst_reach(fd.path)):
            reach.setdefault(d, fd.path)
    before = len(c.instances)
    c10._alloc(c, prog, reach)
    c.floors.pop("R2.bounded-allocation", None)
    c.stats["decoder_reachable_fns"] = len(reach)

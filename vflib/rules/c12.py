"""C12 — size, weight, vsize, discount: encoded_length tables versus encoder arms, scale
constants, term/field coverage of the hand-written size formula against the encoder's field
lists, discount constants, block size/weight."""
import re

from ..analysis import events, cond_desc, is_encode_call
from ..mir import Prov, Guards, show, callee_name, walk_term
from . import c01
from .predicates import run_predicates

T = "transaction::Transaction::"
FIXED = dict(c01.FIXED)
FIXED.update({"hash_types::Txid": 32, "transaction::Sequence": 4, "locktime::LockTime": 4, "secp256k1_zkp::Tweak": 32, "issuance::AssetId": 32,
              "secp256k1_zkp::PedersenCommitment": 33, "secp256k1_zkp::Generator": 33, "secp256k1_zkp::PublicKey": 33})
ENCLEN = {"confidential::Value", "confidential::Asset", "confidential::Nonce"}
BYTES = {"script::Script", "std::vec::Vec<u8>", "std::option::Option<std::boxed::Box<secp256k1_zkp::RangeProof>>",
         "std::option::Option<std::boxed::Box<secp256k1_zkp::SurjectionProof>>"}
VECVEC = {"std::vec::Vec<std::vec::Vec<u8>>"}


def flatten(t, scaled, scale_terms, out, cond=None):
    """collect the leaves of a sum; a product with the scale factor marks its leaves as scaled; phi(X | 0) marks X's leaves conditional"""
    k = t[0]
    if k == "fld" and t[3] == "0" and t[1][0] == "bin":
        return flatten(t[1], scaled, scale_terms, out, cond)
    if k == "bin" and t[1] in ("Add", "AddWithOverflow"):
        flatten(t[2], scaled, scale_terms, out, cond)
        flatten(t[3], scaled, scale_terms, out, cond)
        return
    if k == "bin" and t[1] in ("Mul", "MulWithOverflow"):
        if show(t[2]) in scale_terms:
            return flatten(t[3], True, scale_terms, out, cond)
        if show(t[3]) in scale_terms:
            return flatten(t[2], True, scale_terms, out, cond)
    if k == "phi":
        alts = [a for a in t[1] if not (a[0] == "const" and a[2] == 0)]
        if len(alts) == 1 and len(t[1]) == 2:
            return flatten(alts[0], scaled, scale_terms, out, show(alts[0], -30))
    out.append((t, scaled, cond))


def leaf_key(prog, t, fn_path):
    s = show(t, -30)
    if t[0] == "const":
        return ("c", t[2])
    if t[0] == "call":
        n = t[1]
        if n.endswith("VarInt::size") and t[2] and t[2][0][0] == "agg":
            inner = t[2][0][3][0]
            while inner[0] == "cast":
                inner = inner[1]
            k = leaf_key(prog, inner, fn_path)
            return ("varint",) + k[1:] if k[0] == "len" else ("varint", show(inner, -30))
        if re.search(r"(script::Script::len|std::vec::Vec::<T, A>::len)$", n):
            return ("len", show(t[2][0], -30))
        if n.endswith("::encoded_length"):
            return ("enclen", show(t[2][0], -30))
        if n.endswith("Option::<T>::map_or") and len(t[2]) == 3 and t[2][1] == ("const", "usize", 0) or (n.endswith("Option::<T>::map_or") and show(t[2][1]) == "0"):
            cl = t[2][2]
            if cl[0] == "agg" and cl[1].startswith("closure:"):
                cf = prog.fns.get(cl[1][len("closure:"):])
                if cf is not None:
                    rt = show(Prov(cf.body).local(0))
                    if re.match(r"^secp256k1_zkp::(RangeProof|SurjectionProof)::len\(arg2\)$", rt):
                        return ("len", show(t[2][0], -30))
            return ("?", s)
        if n in ("transaction::TxOutWitness::surjectionproof_len", "transaction::TxOutWitness::rangeproof_len"):
            hf = prog.fn(n)
            rt = Prov(hf.body).local(0)
            k = leaf_key(prog, rt, n)
            if k[0] == "len":
                return ("len", k[1].replace("arg1", show(t[2][0], -30)))
            return ("?", s)
        if n.endswith("Iterator::sum") and t[2] and t[2][0][0] == "call" and t[2][0][1].endswith("Iterator::map"):
            coll, cl = t[2][0][2][0], t[2][0][2][1]
            if cl[0] == "agg" and cl[1].startswith("closure:"):
                cf = prog.fns.get(cl[1][len("closure:"):])
                if cf is not None:
                    rt = show(Prov(cf.body).local(0), -30)
                    if rt == "(bitcoin::VarInt::size(bitcoin::VarInt::VarInt{(std::vec::Vec::len(arg2) as u64)}) AddWithOverflow std::vec::Vec::len(arg2)).0":
                        return ("sumvec", show(coll, -30))
                    return ("sum", show(coll, -30), cl[1])
            if cl[0] == "fnitem":
                return ("sumfn", show(coll, -30), cl[1])
        return ("?", s)
    return ("?", s)


def expected_from_encoder(prog, encs, ty, base, skip=()):
    """leaves the encoder of `ty` implies for a value located at `base`: (uncond, {cond_label: leaves})"""
    W = c01.writer_list(encs[ty])
    un, cond = [], {}
    for x in W:
        if x["field"] in skip:
            continue
        recv = x["recv"].replace("arg1", base, 1)
        wt = x["ty"]
        leaves = []
        if wt in FIXED:
            leaves = [("c", FIXED[wt])]
        elif wt in ENCLEN:
            leaves = [("enclen", recv)]
        elif wt in BYTES:
            leaves = [("varint", recv), ("len", recv)]
        elif wt in VECVEC:
            leaves = [("varint", recv), ("sumvec", recv)]
        elif wt in encs and ty != wt:
            u2, c2 = expected_from_encoder(prog, encs, wt, recv)
            leaves = u2
        else:
            leaves = [("?", "%s: %s" % (recv, wt))]
        if x["conds"]:
            cond.setdefault(tuple(x["conds"]), []).extend(leaves)
        else:
            un.extend(leaves)
    return un, cond


def summarize(leaves):
    consts = sum(l[1] for l in leaves if l[0] == "c")
    rest = sorted(l for l in leaves if l[0] != "c")
    return consts, rest


def run(c, prog, ctx):
    c.explanation = (
        "Static decision of the structural clauses of C12: (R1) the encoded_length tables of Value/Asset/Nonce equal the byte "
        "counts of the corresponding encoder arms; (R3) size/weight/vsize/discount_vsize are scaled_size(1), scaled_size(4) and "
        "div_ceil(4) of the weights; (R4) the leaves of the hand-written size formula (per input, per output, header), split into "
        "scaled/unscaled and conditional parts, equal the leaves implied by the encoders' field lists under a size model per wire "
        "type (fixed widths, varint+len for byte strings and proofs, count varint + per-element varint+len for witness stacks, "
        "encoded_length for confidential fields); conditions are has_issuance() and the witness flag; (R5) discount constants; "
        "(R6) block size/weight. The varint tables are C01.R6 (elements) and the bitcoin crate's VarInt::size (dependency). "
        "Numerical equality for concrete transactions is not executed; it follows from the structural match under the size model.")
    c.assume("bitcoin::VarInt::size returns the compact-size length (dependency)")
    c.assume("RangeProof::len / SurjectionProof::len equal the length of their serialization")
    encs, decs = c01.codecs(prog)

    # ---- R1 encoded_length tables
    for ty, payload in (("confidential::Value", 8), ("confidential::Asset", 32), ("confidential::Nonce", 32)):
        f = prog.fn(ty + "::encoded_length")
        b = f.body
        g = Guards(b)
        p = Prov(b)
        rows = {}
        for (bi, si, kind, pay) in b.defs().get(0, []):
            if kind == "assign":
                lab = [l for d, l in cond_desc(b, g.conds(bi)) if d == "discr(arg1)"]
                v = p._rvalue(pay["rv"], True)
                rows[lab[0] if lab else "?"] = v[2] if v[0] == "const" else show(v)
        # encoder arms
        W = c01.writer_list(encs[ty])
        arm = {}
        for x in W:
            v = [l for d, l in x["conds"] if d == "discr(arg1)"]
            arm[v[0] if v else "?"] = arm.get(v[0] if v else "?", 0) + FIXED.get(x["ty"], 10 ** 6)
        c.inst("R1.encoded-length-table", ty, rows == arm and rows == {"Null": 1, "Explicit": 1 + payload, "Confidential": 33},
               "encoded_length %s, encoder arms write %s bytes" % (rows, arm), f.where(), f.path)
        c.sample({"rule": "R1", "type": ty, "encoded_length": rows, "encoder": arm})

    # ---- R3 scale constants
    for name, want in (("size", "transaction::Transaction::scaled_size(arg1, 1)"), ("weight", "transaction::Transaction::scaled_size(arg1, 4)"),
                       ("vsize", "core::num::div_ceil(transaction::Transaction::weight(arg1), 4)"),
                       ("discount_vsize", "core::num::div_ceil(transaction::Transaction::discount_weight(arg1), 4)")):
        f = prog.fn(T + name)
        t = show(Prov(f.body).local(0), -30)
        c.inst("R3.scale", name, t == want, "returns %s" % t, f.where(), f.path)

    # ---- R4 formula vs encoders
    fs = prog.fn(T + "scaled_size")
    top = Prov(fs.body).local(0)
    leaves = []
    flatten(top, False, {"arg2"}, leaves)
    keys = [(leaf_key(prog, t, fs.path), sc, cd) for t, sc, cd in leaves]
    scaled = [k for k, sc, cd in keys if sc]
    unscaled = [k for k, sc, cd in keys if not sc]
    # header: version 4, flag 1, locktime 4, two count varints
    ec, er = summarize(scaled)
    c.inst("R4.header-terms", "scale * (4 + 4 + 1 + varint(inputs) + varint(outputs))", ec == 9 and er == [("varint", "arg1.input"), ("varint", "arg1.output")],
           "scaled header leaves: constants sum %d, %s" % (ec, er), fs.where(), fs.path)
    sums = sorted(k for k in unscaled)
    cl_in = "transaction::Transaction::scaled_size::{closure#0}"
    cl_out = "transaction::Transaction::scaled_size::{closure#1}"
    c.inst("R4.sum-terms", "+ sum over inputs + sum over outputs (not scaled again)", sums == [("sum", "arg1.input", "closure:" + cl_in), ("sum", "arg1.output", "closure:" + cl_out)], "unscaled leaves %s" % sums, fs.where(), fs.path)
    # captured values of the two closures: (scale_factor, witness_flag = has_witness())
    caps_ok = True
    for cl in (cl_in, cl_out):
        cf = prog.fn(cl)
        caps = [show(cf.captured(i)) for i in range(2)]
        caps_ok = caps_ok and caps == ["arg2", "transaction::Transaction::has_witness(arg1)"]
    c.inst("R4.closure-captures", "closures capture (scale_factor, has_witness())", caps_ok, "", fs.where(), fs.path)

    for cl, ty, wit_ty, base, skip in ((cl_in, "transaction::TxIn", "transaction::TxInWitness", "arg2", ("witness",)),
                                       (cl_out, "transaction::TxOut", "transaction::TxOutWitness", "arg2", ("witness",))):
        cf = prog.fn(cl)
        b = cf.body
        g = Guards(b)
        p = Prov(b)
        leaves = []
        flatten(p.local(0), False, {"^arg2"}, leaves)
        keys = [(leaf_key(prog, t, cl), sc, cd) for t, sc, cd in leaves]
        bad = [k for k, sc, cd in keys if k[0] == "?"]
        c.inst("R4.leaves-recognised", cl.split("::")[-1], not bad, "unrecognised size terms %s" % bad[:3], cf.where(), cl)
        s_un = [k for k, sc, cd in keys if sc and cd is None]
        s_cond = [k for k, sc, cd in keys if sc and cd is not None]
        u_cond = [k for k, sc, cd in keys if not sc and cd is not None]
        u_un = [k for k, sc, cd in keys if not sc and cd is None]
        eu, econd = expected_from_encoder(prog, encs, ty, base, skip)
        ew, _ = expected_from_encoder(prog, encs, wit_ty, base + ".witness")
        what = ty.split("::")[-1]
        c.inst("R4.base-terms", what, summarize(s_un) == summarize(eu),
               "scaled unconditional terms: formula %s, encoder of %s implies %s" % (summarize(s_un), what, summarize(eu)), cf.where(), cl)
        exp_cond = [l for v in econd.values() for l in v]
        c.inst("R4.conditional-base-terms", what, summarize(s_cond) == summarize(exp_cond),
               "scaled conditional terms: formula %s, encoder implies %s under %s" % (summarize(s_cond), summarize(exp_cond), list(econd)), cf.where(), cl)
        c.inst("R4.witness-terms", what, summarize(u_cond) == summarize(ew) and not u_un,
               "unscaled witness terms: formula %s, encoder of %s implies %s; unconditional unscaled terms %s" % (summarize(u_cond), wit_ty.split("::")[-1], summarize(ew), u_un), cf.where(), cl)
        # guards of the conditional parts
        labels = {}
        for bi in sorted(b.reachable()):
            for s in b.stmts(bi):
                if s["k"] == "assign" and not s["pl"]["p"]:
                    v = show(p._rvalue(s["rv"], True), -30)
                    for k, sc, cd in keys:
                        if cd is not None and cd == v:
                            labels[(sc, cd[:40])] = cond_desc(b, g.conds(bi))
        okg = True
        for (sc, _), cd in labels.items():
            if sc:
                okg = okg and ("transaction::TxIn::has_issuance(arg2)", "true") in cd
            else:
                okg = okg and ("^transaction::Transaction::has_witness(arg1)", "true") in cd
        # ... and the encoder writes its conditional part under exactly the same condition (sibling agreement, both directions)
        enc_conds = sorted(econd)
        want_enc = [(("transaction::TxIn::has_issuance(arg1)", "true"),)] if what == "TxIn" else []
        c.inst("R4.encoder-condition", what, enc_conds == want_enc,
               "the encoder of %s writes conditional parts under %s; the size formula counts them under %s" % (what, enc_conds, want_enc), cf.where(), cl)
        c.inst("R4.condition-guards", what, okg and (len(labels) == (2 if what == "TxIn" else 1)),
               "issuance part must be under has_issuance(), witness part under the witness flag; found %s" % {str(k): v for k, v in labels.items()}, cf.where(), cl)
        c.sample({"rule": "R4", "closure": cl.split("::")[-1], "scaled": [summarize(s_un), summarize(s_cond)], "witness": summarize(u_cond)})
    # Transaction encoder itself: version, flag, inputs, outputs, locktime (+ witnesses)
    Wt = c01.writer_list(encs["transaction::Transaction"])
    tys = [x["ty"] for x in Wt]
    # the encoder writes the witness part under exactly the predicate the formula's closures capture (has_witness(self)):
    # every non-loop condition of the encoder's conditional items is that predicate
    HWP = "transaction::Transaction::has_witness(arg1)"
    wconds = sorted({cd for x in Wt for cd in x["conds"] if not cd[0].startswith("discr(next(")})
    c.inst("R4.encoder-condition", "Transaction", wconds == [(HWP, "false"), (HWP, "true")],
           "the Transaction encoder conditions its flag and witness part on %s; the size formula on has_witness() alone" % wconds, encs["transaction::Transaction"].where(), encs["transaction::Transaction"].path)
    c.inst("R4.transaction-shape", "Transaction encoder = [u32, flag u8, inputs, outputs, lock_time, input witnesses, output witnesses]",
           tys == ["u32", "u8", "u8", "std::vec::Vec<transaction::TxIn>", "std::vec::Vec<transaction::TxOut>", "locktime::LockTime", "transaction::TxInWitness", "transaction::TxOutWitness"],
           "wire types %s" % tys, encs["transaction::Transaction"].where(), encs["transaction::Transaction"].path)
    run_predicates(c, prog, "R4.guard-predicates")

    # ---- R5 discount
    fd = prog.fn(T + "discount_weight")
    b = fd.body
    g = Guards(b)
    p = Prov(b)
    subs = []
    for bi in sorted(b.reachable()):
        for s in b.stmts(bi):
            if s["k"] == "assign" and s["rv"]["k"] == "bin" and s["rv"]["op"] in ("Sub", "SubWithOverflow"):
                rhs = p.operand(s["rv"]["b"])
                from ..analysis import const_eval
                cv = const_eval(rhs)
                cd = [x for x in cond_desc(b, g.conds(bi)) if "is_confidential" in x[0]]
                if cv is not None and cv > 10:
                    subs.append((cv, tuple(cd)))
                elif cv is None:
                    subs.append((show(rhs, -30)[:200], tuple(cd)))
    E = "elem(arg1.output)"
    want = {(96, (("confidential::Value::is_confidential(%s.value)" % E, "true"),)),
            (128, (("confidential::Nonce::is_confidential(%s.nonce)" % E, "true"),))}
    got_c = {x for x in subs if isinstance(x[0], int)}
    c.inst("R5.discount-constants", "(33-9)*4 under value.is_confidential(), (33-1)*4 under nonce.is_confidential()", got_c == want, "subtractions %s" % sorted(map(str, subs)), fd.where(), fd.path)
    # the witness term: saturating_sub(sum of four addends, 2); the addends are compared as a multiset (order of a sum is immaterial)
    wterms = []
    for bi in sorted(b.reachable()):
        for s_ in b.stmts(bi):
            if s_["k"] == "assign" and s_["rv"]["k"] == "bin" and s_["rv"]["op"] in ("Sub", "SubWithOverflow"):
                rhs = p.operand(s_["rv"]["b"])
                if const_eval(rhs) is None:
                    wterms.append((rhs, tuple(x for x in cond_desc(b, g.conds(bi)) if "is_confidential" in x[0])))
    good = len(wterms) == 1 and wterms[0][1] == ()
    det = "witness subtractions %s" % [show(t, -30)[:160] for t, _ in wterms]
    if good:
        t = wterms[0][0]
        good = t[0] == "call" and t[1].endswith("saturating_sub") and len(t[2]) == 2 and const_eval(t[2][1]) == 2
        if good:
            leaves = []
            flatten(t[2][0], False, set(), leaves)
            got = sorted(show(x[0], -30) for x in leaves)
            SP = "transaction::TxOutWitness::surjectionproof_len(%s.witness)" % E
            RP = "transaction::TxOutWitness::rangeproof_len(%s.witness)" % E
            want_l = sorted([SP, RP, "bitcoin::VarInt::size(bitcoin::VarInt::VarInt{(%s as u64)})" % SP, "bitcoin::VarInt::size(bitcoin::VarInt::VarInt{(%s as u64)})" % RP])
            good = got == want_l
            det = "addends %s" % got
    c.inst("R5.discount-witness", "witness bytes saturating_sub(2) subtracted per output", good, det, fd.where(), fd.path)
    start = [show(p._call(t, True)) for bi, t in b.calls(lambda t: callee_name(t) == T + "scaled_size")]
    c.inst("R5.discount-base", "starts from scaled_size(4)", start == ["transaction::Transaction::scaled_size(arg1, 4)"], "base %s" % start, fd.where(), fd.path)

    # ---- R6 block
    # the crate's own VarInt::size (used by Block::size/weight) as a function of the value: exact at every boundary
    from .c15 import Fn as _Fn, decide as _decide
    VS = _Fn(prog, "encode::VarInt::size")
    pts = [0, 1, 0xFB, 0xFC, 0xFD, 0xFE, 0xFF, 0x100, 0xFFFE, 0xFFFF, 0x10000, 0x10001, 0xFFFFFFFE, 0xFFFFFFFF, 0x100000000, 0x100000001, (1 << 64) - 1]
    bad = []
    for v in pts:
        r = _decide(VS.L, {"v": v}, {"arg1.0": "v"})
        exp = 1 if v <= 0xFC else 3 if v <= 0xFFFF else 5 if v <= 0xFFFFFFFF else 9
        if r != ("ret", str(exp)):
            bad.append((hex(v), r, exp))
    c.inst("R6.varint-size", "VarInt::size(v) = 1 / 3 / 5 / 9 with boundaries 0xFC, 0xFFFF, 0xFFFFFFFF (the encoder's, C01.R6)", not bad, "deviations %s" % bad[:4], VS.f.where(), VS.f.path)
    # ... and the writer every encoder uses for lengths and counts switches form at the same boundaries: C01's emit_varint table
    # (the size formulas use VarInt::size, the serialization uses emit_varint; they are two implementations of one table)
    c.borrow(c01, "C01", prog, ctx, lambda rule, k: rule in ("R6.emit-varint-bounds", "R6.emit-varint-table"), "R6.varint-writer", 2)
    fb = prog.fn("block::Block::size")
    t = show(Prov(fb.body).local(0), -30)
    H = "(std::vec::Vec::len(encode::serialize(arg1.header)) AddWithOverflow encode::VarInt::size(encode::VarInt::VarInt{(std::vec::Vec::len(arg1.txdata) as u64)})).0"
    c.inst("R6.block-size", "header bytes + count varint + sum of tx sizes",
           t == "(%s AddWithOverflow std::iter::Iterator::sum(std::iter::Iterator::map(arg1.txdata, fnitem('transaction::Transaction::size',)))).0" % H, "returns %s" % t, fb.where(), fb.path)
    fw = prog.fn("block::Block::weight")
    t = show(Prov(fw.body).local(0), -30)
    c.inst("R6.block-weight", "4 * (header bytes + count varint) + sum of tx weights",
           t == "((4 MulWithOverflow %s).0 AddWithOverflow std::iter::Iterator::sum(std::iter::Iterator::map(arg1.txdata, fnitem('transaction::Transaction::weight',)))).0" % H, "returns %s" % t, fw.where(), fw.path)

"""C02 — txid / wtxid / block hash: exact preimage event sequences, commitment
coverage (all fields minus the declared witness set), clear_witness write set."""
from ..analysis import events, is_encode_call, cond_desc, ret_assignments, fields_read_transitively
from ..mir import Prov, show, field_accesses, callee_name, callee_matches, walk_term

ENGINE = "hashes::Sha256d::engine()"

WITNESS_SET = {("transaction::TxIn", "witness"), ("transaction::TxOut", "witness")}
HEADER_EXEMPT = {("block::ExtData", "solution"), ("block::ExtData", "signblock_witness")}


def _ev_list(body):
    out = []
    for e in events(body, is_encode_call):
        out.append((show(e["args"][0]), show(e["args"][1]).split("@")[0] if len(e["args"]) > 1 else None,
                    tuple(cond_desc(body, e["conds"])), e))
    return out


def _all_fields(prog, owner):
    t = prog.ty(owner)
    out = set()
    for v in t["variants"]:
        for f in v["fields"]:
            out.add((owner, f["name"]))
    return out


def _hash_result(c, rule, fn, wrapper):
    """return value is <wrapper>(finalize(engine)) of the same sha256d engine"""
    b = fn.body
    p = Prov(b)
    t = p.local(0)
    ok = (t[0] == "agg" and t[1] == wrapper and len(t[3]) == 1 and t[3][0][0] == "call"
          and t[3][0][1].endswith("as hashes::HashEngine>::finalize")
          and show(t[3][0][2][0]).split("@")[0] == ENGINE)
    c.inst(rule, "returns %s(sha256d.finalize(engine))" % wrapper.split("::")[-1], ok,
           "return value is %s" % show(t), fn.where(), fn.path)


def run(c, prog, ctx):
    c.explanation = (
        "Static decision of the structural clauses of C02 on the MIR of /repo: (R1) the ordered list of values "
        "fed to the single sha256d engine in Transaction::txid / wtxid; (R2) the (type, field) read-set of every "
        "function instance reachable from txid/wtxid on the monomorphic call graph covers all serialized fields "
        "minus/plus the declared witness set; (R3) the non-witness branch of Transaction::consensus_encode "
        "equals the txid sequence; (R4) the event list and field coverage of BlockHeader::block_hash; (R5) the "
        "write set of clear_witness equals the fields outside the hash. Digest equality itself (SHA256) is trusted.")
    c.assume("bitcoin_hashes sha256d engine and finalize implement double SHA256")
    c.assume("consensus_encode impls of dependencies' primitive types are correct")

    # ---------------- R1 txid / wtxid event sequences
    txid = prog.fn("transaction::Transaction::txid")
    ev = _ev_list(txid.body)
    got = [(r, s, cd) for (r, s, cd, _) in ev]
    want = [("arg1.version", ENGINE, ()), ("0", ENGINE, ()), ("arg1.input", ENGINE, ()),
            ("arg1.output", ENGINE, ()), ("arg1.lock_time", ENGINE, ())]
    c.inst("R1.txid-sequence", "txid preimage = [version, 0u8, input, output, lock_time]", got == want,
           "extracted %s" % [g[0] + ("" if not g[2] else " if %s" % (g[2],)) for g in got], txid.where(), txid.path)
    c.sample({"rule": "R1", "fn": txid.path, "events": [g[0] for g in got]})
    # type of the literal flag must be u8
    flag_ty = [e["self_ty"] for (_, _, _, e) in ev if show(e["args"][0]) == "0"]
    c.inst("R1.txid-flag-byte", "literal flag is one u8", flag_ty == ["u8"], "types %s" % flag_ty, txid.where(), txid.path)
    _hash_result(c, "R1.txid-result", txid, "hash_types::Txid::Txid")
    # every event unconditional: block dominates the return block
    rets = [bi for bi in txid.body.reachable() if txid.body.term(bi)["k"] == "return"]
    for (r, s, cd, e) in ev:
        c.inst("R1.txid-unconditional", r, all(txid.body.dominates(e["bb"], rb) for rb in rets),
               "encode of %s must lie on every path" % r, txid.where(e["t"]["sp"]), txid.path)

    wtxid = prog.fn("transaction::Transaction::wtxid")
    ev = _ev_list(wtxid.body)
    got = [(r, s, cd) for (r, s, cd, _) in ev]
    c.inst("R1.wtxid-sequence", "wtxid preimage = [self]", got == [("arg1", ENGINE, ())] and ev[0][3]["self_ty"] == "transaction::Transaction",
           "extracted %s" % got, wtxid.where(), wtxid.path)
    _hash_result(c, "R1.wtxid-result", wtxid, "hash_types::Wtxid::Wtxid")

    # ---------------- R2 coverage
    owners = ["transaction::Transaction", "transaction::TxIn", "transaction::OutPoint", "transaction::AssetIssuance",
              "transaction::TxOut", "transaction::TxInWitness", "transaction::TxOutWitness"]
    allf = set()
    for o in owners:
        allf |= _all_fields(prog, o)
    wit_fields = _all_fields(prog, "transaction::TxInWitness") | _all_fields(prog, "transaction::TxOutWitness")
    reads_t, defs_t = fields_read_transitively(prog, txid.path, set(owners))
    expected_txid = allf - WITNESS_SET - wit_fields
    for (o, f) in sorted(expected_txid):
        c.inst("R2.txid-covers", "%s.%s" % (o, f), (o, f) in reads_t,
               "non-witness field %s.%s is not read by anything reachable from txid()" % (o, f), txid.where(), txid.path)
    for (o, f) in sorted(WITNESS_SET | wit_fields):
        c.inst("R2.txid-excludes", "%s.%s" % (o, f), (o, f) not in reads_t,
               "witness field %s.%s is read on a path from txid()" % (o, f), txid.where(), txid.path)
    reads_w, defs_w = fields_read_transitively(prog, wtxid.path, set(owners))
    for (o, f) in sorted(allf):
        c.inst("R2.wtxid-covers", "%s.%s" % (o, f), (o, f) in reads_w,
               "field %s.%s is not read by anything reachable from wtxid()" % (o, f), wtxid.where(), wtxid.path)
    c.stats["txid_reachable_fns"] = len(defs_t)
    c.stats["wtxid_reachable_fns"] = len(defs_w)
    # confidential values: every variant payload encoded
    for root, tag in ((txid, "txid"), (wtxid, "wtxid")):
        reads, _ = fields_read_transitively(prog, root.path, {"confidential::Value", "confidential::Asset", "confidential::Nonce"})
        for o in ("confidential::Value", "confidential::Asset", "confidential::Nonce"):
            for v in prog.ty(o)["variants"]:
                for f in v["fields"]:
                    c.inst("R2.%s-covers" % tag, "%s::%s.%s" % (o, v["name"], f["name"]), (o, f["name"]) in reads,
                           "payload of %s::%s not read" % (o, v["name"]), root.where(), root.path)
    # sibling: has_witness inspects exactly the witness set
    hw = prog.fn("transaction::Transaction::has_witness")
    r_hw, _ = fields_read_transitively(prog, hw.path, {"transaction::TxIn", "transaction::TxOut"})
    c.inst("R2.has_witness-set", "has_witness reads exactly TxIn.witness, TxOut.witness", r_hw == WITNESS_SET,
           "has_witness reads %s" % sorted(r_hw), hw.where(), hw.path)
    for fnp, owner in (("transaction::TxInWitness::is_empty", "transaction::TxInWitness"),
                       ("transaction::TxOutWitness::is_empty", "transaction::TxOutWitness")):
        fe = prog.fn(fnp)
        r, _ = fields_read_transitively(prog, fnp, {owner})
        c.inst("R2.witness-is_empty", fnp, r == _all_fields(prog, owner),
               "%s inspects %s, expected all fields of %s" % (fnp, sorted(r), owner), fe.where(), fe.path)

    # guard predicates that decide what is committed (issuance flag/body, witness set)
    from .predicates import run_predicates
    run_predicates(c, prog, "R2.commitment-guards")

    # the read-set rules above say which fields reach the hash, not how: that the TxIn writer folds *both* flag bits into the
    # index independently and writes every non-witness field, and that TxOut/AssetIssuance/confidential writers write all of
    # theirs, are C01's writer rules, evaluated here (a field folded away under some flag combination is not committed)
    from . import c01 as _c01
    c.borrow(_c01, "C01", prog, ctx,
             lambda rule, k: rule in ("R3.txin-writer", "R3.txin-flag-folding", "R3.confidential-writer")
             or (rule == "R3.struct-all-fields" and k.split("|")[1] in ("<transaction::TxOut as encode::Encodable>::consensus_encode",
                                                                         "<transaction::AssetIssuance as encode::Encodable>::consensus_encode")),
             "R2.writer-exact", 7)

    # ---------------- R3 Transaction::consensus_encode
    enc = prog.fn("<transaction::Transaction as encode::Encodable>::consensus_encode")
    ev = _ev_list(enc.body)
    HW = "transaction::Transaction::has_witness(arg1)"
    nonwit = [(r, cd) for (r, s, cd, _) in ev if (HW, "true") not in cd]
    want_nw = [("arg1.version", ()), ("0", ((HW, "false"),)), ("arg1.input", ()), ("arg1.output", ()), ("arg1.lock_time", ())]
    c.inst("R3.encode-nonwitness-branch", "events without has_witness = txid sequence", nonwit == want_nw,
           "extracted %s" % nonwit, enc.where(), enc.path)
    wit = [(r, cd) for (r, s, cd, _) in ev if (HW, "true") in cd]
    wit_recv = [r for r, cd in wit]
    ok = (len(wit) == 3 and wit_recv[0] == "1"
          and wit_recv[1] == "elem(arg1.input).witness" and wit_recv[2] == "elem(arg1.output).witness")
    c.inst("R3.encode-witness-branch", "flag 1 and both witness sections only under has_witness", ok,
           "extracted %s" % wit_recv, enc.where(), enc.path)
    sinks = {s for (_, s, _, _) in ev}
    c.inst("R3.encode-single-sink", "all events write to the caller's writer", sinks == {"arg2"}, "sinks %s" % sinks, enc.where(), enc.path)
    c.sample({"rule": "R3", "fn": enc.path, "events": [(r, list(map(list, cd))) for (r, s, cd, _) in ev]})

    # ---------------- R4 block_hash
    bh = prog.fn("block::BlockHeader::block_hash")
    ev = _ev_list(bh.body)
    got = [(r, cd) for (r, s, cd, _) in ev]
    D = "discr(arg1.ext)"
    want_prefix = [("phi((arg1.version BitOr 2147483648) | arg1.version)", ()), ("arg1.prev_blockhash", ()),
                   ("arg1.merkle_root", ()), ("arg1.time", ()), ("arg1.height", ())]
    c.inst("R4.block_hash-prefix", "version(with marker), prev, merkle root, time, height", got[:5] == want_prefix,
           "extracted %s" % got[:5], bh.where(), bh.path)
    tail = sorted(got[5:])
    want_tail = sorted([("arg1.ext.challenge", ((D, "Proof"),)), ("arg1.ext.current", ((D, "Dynafed"),)),
                        ("arg1.ext.proposed", ((D, "Dynafed"),))])
    c.inst("R4.block_hash-ext", "Proof: challenge | Dynafed: current, proposed", tail == want_tail,
           "extracted %s" % tail, bh.where(), bh.path)
    # order current before proposed
    dyn = [r for (r, cd) in got[5:] if (D, "Dynafed") in cd]
    c.inst("R4.block_hash-dynafed-order", "current before proposed", dyn == ["arg1.ext.current", "arg1.ext.proposed"],
           "order %s" % dyn, bh.where(), bh.path)
    c.inst("R4.block_hash-single-sink", "one engine", {s for (_, s, _, _) in ev} == {ENGINE}, "", bh.where(), bh.path)
    _hash_result(c, "R4.block_hash-result", bh, "hash_types::BlockHash::BlockHash")
    # marker bit chosen by the variant: the version term's defining blocks are guarded by discr(ext)
    _version_marker(c, bh)
    # coverage
    hdr_owners = {"block::BlockHeader", "block::ExtData", "dynafed::Params", "dynafed::FullParams"}
    reads_b, defs_b = fields_read_transitively(prog, bh.path, hdr_owners)
    allh = set()
    for o in hdr_owners:
        allh |= _all_fields(prog, o)
    for (o, f) in sorted(allh - HEADER_EXEMPT):
        c.inst("R4.block_hash-covers", "%s.%s" % (o, f), (o, f) in reads_b,
               "header field %s.%s is not read on any path from block_hash()" % (o, f), bh.where(), bh.path)
    for (o, f) in sorted(HEADER_EXEMPT):
        c.inst("R4.block_hash-excludes", "%s.%s" % (o, f), (o, f) not in reads_b,
               "%s.%s must stay outside the block hash" % (o, f), bh.where(), bh.path)
    c.stats["block_hash_reachable_fns"] = len(defs_b)
    # Block::block_hash delegates
    bbh = prog.fn("block::Block::block_hash")
    t = Prov(bbh.body).local(0)
    c.inst("R4.block-delegates", "Block::block_hash = header.block_hash()",
           t[0] == "call" and t[1] == "block::BlockHeader::block_hash" and show(t[2][0]) == "arg1.header",
           "returns %s" % show(t), bbh.where(), bbh.path)

    # ---------------- R5 clear_witness
    cw = prog.fn("block::BlockHeader::clear_witness")
    _clear_witness(c, prog, cw)
    c.floor("R2.txid-covers", 20, "counted: 4+6+2+4+4 fields + confidential payloads")
    c.floor("R4.block_hash-covers", 15, "BlockHeader 6 + ExtData 3 + Params/FullParams fields")


def _version_marker(c, bh):
    """`version | 0x8000_0000` is assigned on the Dynafed edge, plain version on the other"""
    from ..mir import Guards
    b = bh.body
    g = Guards(b)
    p = Prov(b)
    found = {}
    for bi in b.reachable():
        for s in b.stmts(bi):
            if s["k"] != "assign" or s["pl"]["p"]:
                continue
            rv = s["rv"]
            t = p._rvalue(rv, True)
            sh = show(t)
            if sh == "(arg1.version BitOr 2147483648)":
                found["marked"] = tuple(cond_desc(b, g.conds(bi)))
            elif sh == "arg1.version" and rv["k"] == "use" and b.local_name(s["pl"]["l"]) == "version":
                found["plain"] = tuple(cond_desc(b, g.conds(bi)))
    D = "discr(arg1.ext)"
    ok = found.get("marked") == ((D, "Dynafed"),) and found.get("plain") == ((D, "Proof"),)
    c.inst("R4.block_hash-marker-guard", "0x80000000 OR-ed iff ExtData::Dynafed", ok, "guards %s" % found, bh.where(), bh.path)


def _clear_witness(c, prog, cw):
    from ..analysis import effects
    b = cw.body
    touched = {}
    for e in effects(b):
        t = e["target"]
        if t[0] != "fld" or not t[2].startswith("block::"):
            continue
        # base must be self
        touched.setdefault((t[2], t[3]), []).append((e["kind"], show(e["value"]) if e["value"] else e["callee"]))
    want = {("block::ExtData::Proof", "solution"), ("block::ExtData::Dynafed", "signblock_witness")}
    c.inst("R5.clear_witness-write-set", "writes exactly {Proof.solution, Dynafed.signblock_witness}",
           set(touched) == want, "touched %s" % sorted(touched), cw.where(), cw.path)
    sol = touched.get(("block::ExtData::Proof", "solution"), [])
    wit = touched.get(("block::ExtData::Dynafed", "signblock_witness"), [])
    ok_sol = any(k == "assign" and v.split("@")[0] == "script::Script::new()" for k, v in sol)
    ok_wit = any(k == "mutarg" and v == "std::vec::Vec::<T, A>::clear" for k, v in wit)
    c.inst("R5.clear_witness-empties", "solution := Script::new(), signblock_witness.clear()", ok_sol and ok_wit,
           "operations %s" % {"solution": sol, "signblock_witness": wit}, cw.where(), cw.path)
    c.sample({"rule": "R5", "fn": cw.path, "ops": {"%s.%s" % k: v for k, v in touched.items()}})

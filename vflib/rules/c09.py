"""C09 — multi-party PSET blinding: the scalar bookkeeping that carries imbalance between parties.

Decided: the *bookkeeping shape* — what is published, what is consumed, when the list is cleared,
which outputs a party blinds, which fields a blinded output receives, in which order the
surjection domain is built — and the algebraic helpers' case tables. Not decided: that the
resulting commitments balance and proofs verify (curve arithmetic, randomness)."""
import re
from itertools import product

from ..facts import CannotDecide
from ..mir import show
from .c15 import Fn, sh, detag

P = "pset::PartiallySignedTransaction::"
VBF = "confidential::ValueBlindingFactor"
SCAL = "arg1.global.scalars"


def dos(F, pat):
    return [(cx, s) for cx, s in F.flat if s[0] == "do" and re.search(pat, s[1])]


def in_loop(cx):
    return [sh(c) for k, c, a in cx if k == "while"]


def labels(cx):
    return [(sh(c), a) for k, c, a in cx if k == "if"]


def check_last(c, prog, rule):
    """ValueBlindingFactor::last hands inputs as the positive and outputs as the negative set, triple by triple, unfiltered"""
    L = Fn(prog, VBF + "::last")
    r = [sh(s[1]) for cx, s in L.flat if s[0] == "ret"]
    pat = (r"^%s::ValueBlindingFactor\{secp256k1_zkp::compute_adaptive_blinding_factor\(arg1, arg2, arg3\.0, "
           r"std::iter::Iterator::collect\(std::iter::Iterator::map\(arg4, closure:((?:[^{}]|\{closure#\d+\})+)\{\}\)\), "
           r"std::iter::Iterator::collect\(std::iter::Iterator::map\(arg5, closure:((?:[^{}]|\{closure#\d+\})+)\{\}\)\)\)\}$" % re.escape(VBF))
    m = re.match(pat, r[0]) if len(r) == 1 else None
    c.inst(rule, "last(): inputs form the first (positive) set, outputs the second", m is not None, "returns %s" % r, L.f.where(), L.f.path)
    if m is None:
        return
    for i, cl in enumerate(m.groups()):
        CF = Fn(prog, cl)
        rr = [(sh(s[1]), [k for k, cn, a in cx]) for cx, s in CF.flat if s[0] == "ret"]
        c.inst(rule, "triple (value, abf, vbf) -> CommitmentSecrets{value, value_blinding_factor: vbf, generator_blinding_factor: abf}, every triple unchanged (%s set)" % ("positive", "negative")[i],
               rr == [("secp256k1_zkp::CommitmentSecrets::CommitmentSecrets{arg2.0, arg2.2.0, confidential::AssetBlindingFactor::into_inner(arg2.1)}", [])],
               "closure %s returns %s" % (cl.rsplit("::", 1)[-1], rr), CF.f.where(), CF.f.path)


def check_surjection_target(c, prog, rule):
    """the domain entry a blinder builds for an input: for an input it does not own, the input's asset generator whatever its
    form (commitment as is, explicit asset as the unblinded generator; only Null is an error) with zero tag and tweak; for an
    owned input the generator recomputed from (asset, abf) together with that tag and factor. Asset::into_asset_gen's table."""
    F = Fn(prog, "blind::SurjectionInput::surjection_target")
    rows = {}
    for cx, s_ in F.flat:
        if s_[0] == "ret":
            lab = tuple((sh(cn), a) for k, cn, a in cx if k == "if")
            rows[lab] = re.sub(r"@#\d+", "", sh(s_[1]))
    GEN = "confidential::Asset::into_asset_gen(arg1.0, arg2)"
    # grouped by the variant of self only: how the None case of the generator is turned into the error is free
    by_variant = {}
    for k, v in rows.items():
        if v.startswith("std::result::Result::Ok"):
            v = re.sub(r"\b(some|ok)\((%s)\)" % re.escape(GEN), r"\2", v)
            by_variant.setdefault(k[:1], set()).add(v)
    want = {
        (("discr(arg1)", "=0"),):
            {"std::result::Result::Ok{tuple{%s, <secp256k1_zkp::Tag as std::default::Default>::default(), secp256k1_zkp::ZERO_TWEAK}}" % GEN},
        (("discr(arg1)", "=1"),):
            {"std::result::Result::Ok{tuple{secp256k1_zkp::Generator::new_blinded(arg2, issuance::AssetId::into_tag(arg1.asset), confidential::AssetBlindingFactor::into_inner(arg1.asset_bf)), "
             "issuance::AssetId::into_tag(arg1.asset), confidential::AssetBlindingFactor::into_inner(arg1.asset_bf)}}"},
    }
    errs = [(k, v) for k, v in rows.items() if not v.startswith("std::result::Result::Ok")]
    c.inst(rule, "surjection_target: Unknown(asset) -> (asset generator of any non-null form, zero tag, zero tweak); Known -> (new_blinded(tag, abf), tag, abf)",
           by_variant == want and len(errs) == 1 and errs[0][0][:1] == (("discr(arg1)", "=0"),) and ("UnExpectedNullAsset" in errs[0][1] or "from_residual(err(%s))" % GEN in errs[0][1]),
           "rows %s" % {str(k): v[:160] for k, v in rows.items()}, F.f.where(), F.f.path)
    # secrets the caller supplies always become a Known entry (asset and factor as given, zero factor included): an explicit
    # spent output is a commitment with factor zero, and the prover needs its tag to prove membership
    for fnp in ("<blind::SurjectionInput as std::convert::From<blind::TxOutSecrets>>::from",):
        H = Fn(prog, fnp)
        rr = [(sh(s_[1]), [k for k, cn, a in cx]) for cx, s_ in H.flat if s_[0] == "ret"]
        c.inst(rule, "SurjectionInput from TxOutSecrets: Known{asset, asset_bf} for every value", rr == [("blind::SurjectionInput::Known{arg1.asset, arg1.asset_bf}", [])],
               "returns %s" % rr, H.f.where(), fnp)
    H = Fn(prog, "blind::SurjectionInput::from_txout_secrets")
    rr = [sh(s_[1]) for cx, s_ in H.flat if s_[0] == "ret"]
    c.inst(rule, "SurjectionInput::from_txout_secrets = the same conversion", rr in (["arg1"], ["blind::SurjectionInput::Known{arg1.asset, arg1.asset_bf}"]), "returns %s" % rr, H.f.where(), H.f.path)
    G = Fn(prog, "confidential::Asset::into_asset_gen")
    grows = {}
    for cx, s_ in G.flat:
        if s_[0] == "ret":
            lab = tuple((sh(cn), a) for k, cn, a in cx if k == "if")
            grows[lab] = sh(s_[1])
    gwant = {(("discr(arg1)", "=0"),): "std::option::Option::None{}",
             (("discr(arg1)", "=1"),): "std::option::Option::Some{secp256k1_zkp::Generator::new_unblinded(arg2, issuance::AssetId::into_tag(arg1.0))}",
             (("discr(arg1)", "=2"),): "std::option::Option::Some{arg1.0}"}
    c.inst(rule, "Asset::into_asset_gen: Null -> None, Explicit(id) -> unblinded generator of id, Confidential(g) -> g", grows == gwant,
           "rows %s" % {str(k): v for k, v in grows.items()}, G.f.where(), G.f.path)


def run(c, prog, ctx):
    c.explanation = (
        "Static decision of the bookkeeping clauses of C09. (R1) blind_non_last collects (amount, abf, vbf) of exactly the outputs it blinds "
        "from the blinding call's own results, and every successful exit that blinded something publishes one scalar "
        "last(v_k, abf_k, own inputs, other outputs) + (-vbf_k) into global.scalars; (R2) blind_last computes its value blinder as "
        "last(value, abf, inputs, explicit outputs), adds every published scalar, uses that blinder for the commitment and the value proof, "
        "and clears the list on the only successful exit; (R3) when the last party blinds several outputs it hides the last output's "
        "blinder_index around the nested non-last call, restores it, and empties its input list so inputs are counted once; (R4) the "
        "algebra helpers: last() maps (value, abf, vbf) triples into CommitmentSecrets with inputs as the positive and outputs as the "
        "negative set, AddAssign/Neg case tables; (R5) the selection predicate of blind_checks as an exhaustive decision table; (R6) the "
        "surjection domain lists per input [utxo, issued asset, reissuance token] under the same presence conditions and in the same order "
        "as verify_tx_amt_proofs; (R7) every field Output::is_fully_blinded reads is written for each blinded output on both paths.")
    c.assume("secp256k1-zkp compute_adaptive_blinding_factor, SecretKey::add_tweak/negate and the proof constructors are correct (dependencies)")
    NL = Fn(prog, P + "blind_non_last")
    BL = Fn(prog, P + "blind_last")
    CHK = P + "blind_checks(arg1, arg4)"
    # ------------------------------------------------------------- R1 publish
    OUTSEC = "std::vec::Vec::new()"   # detagged out_secrets
    pops = [(cx, s) for cx, s in dos(NL, r"Vec::<T, A>::pop$")]
    pushes_scal = [(cx, s) for cx, s in dos(NL, r"Vec::<T, A>::push$") if sh(s[2][0]) == SCAL]
    adds = dos(NL, r"AddAssign>::add_assign$")
    POP = "std::vec::Vec::pop(%s)" % OUTSEC
    IDX = "<std::vec::Vec<T, A> as std::ops::Index<I>>::index"
    FULL = "%s(%s, std::ops::RangeTo::RangeTo{std::vec::Vec::len(%s)})" % (IDX, OUTSEC, OUTSEC)   # &v[..v.len()] is v
    LASTX = "%s::last(arg3, %s.0, %s.1, %s.0, %s)" % (VBF, POP, POP, CHK, OUTSEC)
    good = (len(pushes_scal) == 1 and len(adds) == 1 and not in_loop(pushes_scal[0][0]) and not in_loop(adds[0][0]))
    det = ""
    if good:
        a = [sh(x).replace(FULL, OUTSEC) for x in adds[0][1][2]]
        p = [sh(x).replace(FULL, OUTSEC) for x in pushes_scal[0][1][2]]
        det = "add_assign(%s); push(%s)" % (a, p)
        good = (a == [LASTX, "<%s as std::ops::Neg>::neg(%s.2)" % (VBF, POP)] and p == [SCAL, "%s::into_inner(%s)" % (VBF, LASTX)]
                and NL.flat.index(adds[0]) < NL.flat.index(pushes_scal[0]))
    c.inst("R1.published-scalar", "scalar = last(v_k, abf_k, own inputs, other blinded outputs) + (-vbf_k), pushed once", good,
           det or "pushes to scalars %d, add_assign %d" % (len(pushes_scal), len(adds)), NL.f.where(), NL.f.path)
    oks = [(cx, s) for cx, s in NL.flat if s[0] == "ret" and sh(s[1]).startswith("std::result::Result::Ok")]
    EMPTY = "std::vec::Vec::is_empty(%s.1)" % CHK
    bad = []
    for cx, s in oks:
        if (EMPTY, "otherwise") in labels(cx):
            continue
        if not pushes_scal or NL.flat.index((cx, s)) < NL.flat.index(pushes_scal[0]) or in_loop(cx):
            bad.append(labels(cx))
    c.inst("R1.publish-on-every-success", "each Ok exit either blinded nothing (no outputs selected) or follows the scalar push", not bad and len(oks) == 2, "Ok exits %d, unguarded %s" % (len(oks), bad), NL.f.where(), NL.f.path)
    CONF = None
    secpush = [(cx, s) for cx, s in dos(NL, r"Vec::<T, A>::push$") if sh(s[2][0]) == OUTSEC]
    good = len(secpush) == 1 and in_loop(secpush[0][0]) == ["discr(next(%s.1))" % CHK]
    det = ""
    if good:
        t = secpush[0][1][2][1]
        det = sh(t)
        m = re.match(r"^tuple\{%s\(arg1\.outputs, elem\(%s\.1\)\)\.amount, (.*)\.1, (.*)\.2\}$" % (re.escape(IDX), re.escape(CHK)), det)
        good = (m is not None and m.group(1) == m.group(2)
                and m.group(1).startswith("blind::to_non_last_confidential(pset::map::output::Output::to_txout(%s(arg1.outputs, elem(%s.1))), arg2, arg3, " % (IDX, CHK)))
        CONF = m.group(1) if m else None
    c.inst("R1.collected-factors", "per blinded output: (its amount, abf, vbf returned by the blinding call itself)", good, det[:400], NL.f.where(), NL.f.path)
    # ------------------------------------------------------------- R2 consume
    LASTOUT = "%s(arg1.outputs, std::vec::Vec::pop(%s.1))" % (IDX, CHK)
    # the input list handed to last(): a (re)assignable variable in today's code (reset to empty in the several-outputs path, R3)
    from ..mir import walk_term
    lasts = {}
    for cx, s in BL.flat:
        for t in ([s[2]] if s[0] in ("set", "store") else list(s[2]) if s[0] == "do" else [s[1]] if s[0] == "ret" else []):
            for x in walk_term(t):
                if isinstance(x, tuple) and x and x[0] == "call" and x[1].endswith("ValueBlindingFactor::last") and len(x[2]) == 5:
                    lasts[sh(x)] = x
    if len(lasts) != 1:
        raise CannotDecide("blind_last: expected one distinct call to ValueBlindingFactor::last, found %d" % len(lasts))
    FINAL, LT = list(lasts.items())[0]
    la = [sh(a) for a in LT[2]]
    INP = la[3]
    ABF = "confidential::AssetBlindingFactor::new(arg2)"
    # the explicit outputs: a vector filled by the loop checked below (R2.explicit-outputs), or the same thing as an iterator chain
    EXPL = la[4]
    chain = re.match(r"^std::iter::Iterator::collect\(std::iter::Iterator::map\(std::iter::Iterator::filter\((?:enum\()?arg1\.outputs\)?, closure:(\S+?)\{\}\), closure:(\S+?)\{\}\)\)$", EXPL)
    c.inst("R2.last-arguments", "last(secp, amount of the last output, fresh abf, own inputs, explicit outputs)",
           la[:3] == ["arg3", "%s.amount" % LASTOUT, ABF] and (EXPL == "std::vec::Vec::new()" or chain is not None), "arguments %s" % [x[:160] for x in la], BL.f.where(), BL.f.path)
    adds = dos(BL, r"AddAssign>::add_assign$")
    good = bool(adds)
    dets = set()
    for cx, s in adds:
        a = [sh(x) for x in s[2]]
        dets.add(str(a)[:300])
        if a != [FINAL, "%s::ValueBlindingFactor{elem(%s)}" % (VBF, SCAL)] or in_loop(cx) != ["discr(next(%s))" % SCAL]:
            good = False
    c.inst("R2.consumed-scalars", "final vbf = last(value, abf, inputs, explicit outputs) + every element of global.scalars", good, "; ".join(sorted(dets)), BL.f.where(), BL.f.path)
    blinds = [(cx, s) for cx, s in BL.flat if s[0] == "if" or True]
    vb = set()
    for cx, s in BL.flat:
        for t in ([s[2]] if s[0] in ("set", "store") else []):
            txt = sh(t)
            pre = "blind::blind(confidential::Value::Explicit{%s.amount}, arg3, " % LASTOUT
            i = txt.find(pre)
            if i >= 0:
                rest = txt[i + len(pre):]
                vb.add(rest[:len(FINAL)] if rest.startswith(FINAL) else rest[:120])
    c.inst("R2.final-vbf-used", "the value commitment is blinded with that final vbf", vb == {FINAL}, "vbf arguments of Value::blind: %s" % sorted(x[:200] for x in vb), BL.f.where(), BL.f.path)
    bvp = {tuple(sh(a) for a in s[2])[-1] for cx, s in dos(BL, r"BlindValueProofs>::blind_value_proof$")}
    c.inst("R2.final-vbf-used", "the explicit-value proof uses the same final vbf", bvp == {FINAL}, "vbf arguments %s" % sorted(x[:200] for x in bvp), BL.f.where(), BL.f.path)
    clears = dos(BL, r"Vec::<T, A>::clear$")
    oks = [(cx, s) for cx, s in BL.flat if s[0] == "ret" and sh(s[1]).startswith("std::result::Result::Ok")]
    good = bool(oks) and all(sh(s[2][0]) == SCAL for cx, s in clears)
    for cx, s in oks:
        i = BL.flat.index((cx, s))
        prev = BL.flat[i - 1]
        if not (prev[1][0] == "do" and prev[1][1].endswith("::clear") and prev[0] == cx):
            good = False
    c.inst("R2.cleared-on-success", "global.scalars.clear() immediately precedes every Ok exit", good and len(clears) == len(oks), "Ok exits %d, clears %d" % (len(oks), len(clears)), BL.f.where(), BL.f.path)
    errs = [sh(s[1]) for cx, s in BL.flat if s[0] == "ret" and [l for l in labels(cx) if l[0] == EMPTY] == [(EMPTY, "otherwise")]]
    c.inst("R2.needs-an-output", "no output to blind => AtleastOneOutputBlind", errs == ["std::result::Result::Err{pset::error::PsetBlindError::AtleastOneOutputBlind{}}"], "returns %s" % errs, BL.f.where(), BL.f.path)
    exp = [(labels(cx)[-2:], [sh(a) for a in s[2]][1]) for cx, s in dos(BL, r"Vec::<T, A>::push$") if "enext(arg1.outputs)" in "".join(in_loop(cx))]
    ZT = "confidential::AssetBlindingFactor::zero(), %s::zero()" % VBF
    if chain is not None:
        F1 = Fn(prog, chain.group(1))
        F2 = Fn(prog, chain.group(2))
        r1 = [sh(s_[1]) for cx, s_ in F1.flat if s_[0] == "ret"]
        r2 = [sh(s_[1]) for cx, s_ in F2.flat if s_[0] == "ret" and "Ok{" in sh(s_[1])]
        good = (len(r1) == 1 and re.match(r"^std::option::Option::is_none\(arg2(\.1)?\.blinding_key\)$", r1[0]) is not None
                and len(r2) == 1 and re.match(r"^std::result::Result::Ok\{tuple\{(ok\()?.*amount.*, %s\}\}$" % re.escape(ZT), r2[0]) is not None)
        det = "filter %s; map %s" % (r1, r2)
    else:
        good = bool(exp) and all(lab[0] == ("std::option::Option::is_none(elem(arg1.outputs).blinding_key)", "otherwise")
                                 and v == "tuple{elem(arg1.outputs).amount, %s}" % ZT for lab, v in exp)
        det = "pushes %s" % exp[:2]
    c.inst("R2.explicit-outputs", "only outputs without a blinding key enter as explicit (amount, 0, 0)", good, det, BL.f.where(), BL.f.path)
    # ------------------------------------------------------------- R3 nested call
    nested = dos(BL, r"PartiallySignedTransaction::blind_non_last$")
    stores = [(cx, s) for cx, s in BL.flat if s[0] == "store" and sh(s[1]).endswith(".blinder_index")]
    resets = [(cx, s) for cx, s in BL.flat if s[0] == "set" and sh(s[1]) == INP and sh(s[2]) == "std::vec::Vec::new()"]
    good = len(nested) == 1 and len(stores) == 2 and len(resets) == 1 and INP.startswith("var(")
    det = "nested calls %d, blinder_index stores %d, input resets %d; inputs handed to last(): %s" % (len(nested), len(stores), len(resets), INP)
    if good:
        i_n = BL.flat.index(nested[0])
        i_s0, i_s1 = BL.flat.index(stores[0]), BL.flat.index(stores[1])
        i_r = BL.flat.index(resets[0])
        v0, v1 = sh(stores[0][1][2]), sh(stores[1][1][2])
        det = "store#1 %s (pos %d); nested call (pos %d); store#2 %s (pos %d); inputs := [] (pos %d)" % (v0, i_s0, i_n, v1[:120], i_s1, i_r)
        guard = (EMPTY, "=0")
        good = (i_s0 < i_n < i_s1 and i_n < i_r and v0 == "std::option::Option::None{}" and v1 == "%s.blinder_index" % LASTOUT
                and all(labels(x[0]).count(guard) >= 2 for x in (stores[0], nested[0], stores[1], resets[0]))
                and [sh(a) for a in nested[0][1][2]] == ["arg1", "arg2", "arg3", "arg4"])
    c.inst("R3.nested-non-last", "several outputs: hide last output's blinder_index, blind the rest as non-last, restore it, and drop own inputs (already in the published scalar)", good, det, BL.f.where(), BL.f.path)
    # ------------------------------------------------------------- R4 algebra helpers
    check_last(c, prog, "R4.last")
    A = Fn(prog, "<%s as std::ops::AddAssign>::add_assign" % VBF)
    ZERO = "repeat(('const', 'u8', 0), '32')"
    EQ = "std::cmp::impls::<impl std::cmp::PartialEq<&B> for &A>::eq(%s.0, %s)"
    rows = {}
    for cx, s in A.flat:
        if s[0] == "store":
            rows[tuple(labels(cx))] = sh(s[2])
        if s[0] == "ret" and tuple(labels(cx)) not in rows:
            rows.setdefault(tuple(labels(cx)), "unchanged")
    SUM = "secp256k1_zkp::SecretKey::add_tweak(secp256k1_zkp::SecretKey::from_slice(%s::into_inner(arg2)), secp256k1_zkp::SecretKey::from_slice(%s::into_inner(arg1)))" % (VBF, VBF)
    want = {((EQ % ("arg1", ZERO), "otherwise"),): "arg2",
            ((EQ % ("arg1", ZERO), "=0"), (EQ % ("arg2", ZERO), "otherwise")): "unchanged",
            ((EQ % ("arg1", ZERO), "=0"), (EQ % ("arg2", ZERO), "=0"), ("discr(%s)" % SUM, "=0")): "%s::from_slice(ok(%s))" % (VBF, SUM),
            ((EQ % ("arg1", ZERO), "=0"), (EQ % ("arg2", ZERO), "=0"), ("discr(%s)" % SUM, "=1")): "%s::zero()" % VBF}
    c.inst("R4.add-assign", "a += b: 0 + b = b; a + 0 = a; otherwise the scalar sum, which is 0 exactly when add_tweak refuses", rows == want, "rows %s" % rows, A.f.where(), A.f.path)
    N = Fn(prog, "<%s as std::ops::Neg>::neg" % VBF)
    rows = {tuple(labels(cx)): sh(s[1]) for cx, s in N.flat if s[0] == "ret"}
    want = {((EQ % ("arg1", ZERO), "otherwise"),): "arg1",
            ((EQ % ("arg1", ZERO), "=0"),): "%s::from_slice(secp256k1_zkp::SecretKey::negate(secp256k1_zkp::SecretKey::from_slice(%s::into_inner(arg1))))" % (VBF, VBF)}
    c.inst("R4.neg", "-0 = 0; otherwise the negated scalar", rows == want, "rows %s" % rows, N.f.where(), N.f.path)
    # ------------------------------------------------------------- R5 selection table
    BC = Fn(prog, P + "blind_checks")
    OUT = "%s(arg1.outputs, index(arg1.outputs))" % IDX
    BI = "(some(%s.blinder_index) as usize)" % OUT
    atoms = {"std::option::Option::is_none(elem(arg1.outputs).blinding_key)": "nokey", "discr(%s.blinder_index)" % OUT: "hasidx",
             "(%s Ge std::vec::Vec::len(arg1.inputs))" % BI: "oob", "std::option::Option::is_none(std::collections::HashMap::get(arg2, %s))" % BI: "nosecret"}
    # `contains_key(k)` is `!get(k).is_none()`
    atoms["std::collections::HashMap::contains_key(arg2, %s)" % BI] = "!nosecret"
    loops = [s for s in BC.L if s[0] == "while" and sh(s[1]) == "discr(enext(arg1.outputs))"]
    if len(loops) != 1:
        raise CannotDecide("blind_checks: output loop not found")

    def walk(stmts, val):
        for s in stmts:
            if s[0] == "do" and s[1].endswith("Vec::<T, A>::push"):
                return "select:" + sh(s[2][1])
            if s[0] == "ret":
                return sh(s[1])[:90]
            if s[0] == "if":
                a = atoms.get(sh(s[1]))
                if a is None:
                    return "?" + sh(s[1])
                v = (1 - val[a[1:]]) if a.startswith("!") else val[a]
                arm = "=%d" % v if "=%d" % v in s[2] else "otherwise"
                if arm not in s[2]:
                    continue
                r = walk(s[2][arm], val)
                if r is not None:
                    return r
        return None

    bad = []
    for nokey, hasidx, oob, nosecret in product([0, 1], repeat=4):
        got = walk(loops[0][3], {"nokey": nokey, "hasidx": hasidx, "oob": oob, "nosecret": nosecret})
        if nokey or not hasidx:
            exp = None
        elif oob:
            exp = "std::result::Result::Err{pset::error::PsetBlindError::BlinderIndexOutOfBounds{"
        elif nosecret:
            exp = None
        else:
            exp = "select:index(arg1.outputs)"
        if (got or "")[:len(exp or "")] != (exp or "") or (exp is None and got is not None):
            bad.append(((nokey, hasidx, oob, nosecret), got))
    c.inst("R5.selection-table", "an output is blinded by this party iff it has a blinding key, a blinder_index in range and the party holds that input's secrets (16 cases)", not bad, "deviations %s" % bad[:3], BC.f.where(), BC.f.path)
    r = [sh(s[1]) for cx, s in BC.flat if s[0] == "ret" and not cx]
    c.inst("R5.input-secrets", "returned input factors are exactly the supplied secrets", r == ["std::result::Result::Ok{tuple{std::iter::Iterator::collect(std::iter::Iterator::map(std::collections::HashMap::values(arg2), closure:%sblind_checks::{closure#0}{})), std::vec::Vec::new()}}" % P],
           "returns %s" % r, BC.f.where(), BC.f.path)
    CC = Fn(prog, P + "blind_checks::{closure#0}")
    r = [sh(s[1]) for cx, s in CC.flat if s[0] == "ret"]
    c.inst("R5.input-secrets", "each secret contributes (value, asset_bf, value_bf)", r == ["tuple{arg2.value, arg2.asset_bf, arg2.value_bf}"], "returns %s" % r, CC.f.where(), CC.f.path)
    # ------------------------------------------------------------- R6 surjection domain
    SI = Fn(prog, P + "surjection_inputs")
    INPS = "elem(%sinputs(arg1))" % P
    seq = []
    for cx, s in SI.flat:
        if s[0] == "do" and s[1].endswith("Vec::<T, A>::push"):
            v = sh(s[2][1])
            lab = [l for l in labels(cx) if "is_some" in l[0] or "has_issuance" in l[0]]
            kind = "utxo" if v.startswith("var(") else ("asset" if "issuance_ids(%s).0" % INPS in v else "token" if "issuance_ids(%s).1" % INPS in v else "?")
            seq.append((kind, tuple((re.sub(r".*\)\.(\w+)\)$", r"\1", l[0]), l[1]) for l in lab)))
    want = [("utxo", ()),
            ("asset", (("pset::map::input::Input::has_issuance(%s)" % INPS, "otherwise"), ("issuance_value_amount", "=0"), ("issuance_value_comm", "otherwise"))),
            ("asset", (("pset::map::input::Input::has_issuance(%s)" % INPS, "otherwise"), ("issuance_value_amount", "otherwise"))),
            ("token", (("pset::map::input::Input::has_issuance(%s)" % INPS, "otherwise"), ("issuance_inflation_keys", "=0"), ("issuance_inflation_keys_comm", "otherwise"))),
            ("token", (("pset::map::input::Input::has_issuance(%s)" % INPS, "otherwise"), ("issuance_inflation_keys", "otherwise")))]
    norm = [(k, tuple((re.sub(r"^std::option::Option::is_some\(.*\.(\w+)\)$", r"\1", a), b) for a, b in labs)) for k, labs in seq]
    c.inst("R6.domain-order", "per input: utxo, then the issued asset iff an issuance amount (explicit or committed) is present, then the token iff inflation keys are present",
           norm == want, "pushes %s" % norm, SI.f.where(), SI.f.path)
    sets = {sh(s[2]) for cx, s in SI.flat if s[0] == "set"}
    c.inst("R6.domain-entry", "known secrets => Known entry, otherwise the utxo's asset commitment", sets == {"blind::SurjectionInput::Unknown{%s.witness_utxo.asset}" % INPS, "blind::SurjectionInput::from_txout_secrets(some(std::collections::HashMap::get(arg2, index(%sinputs(arg1)))))" % P},
           "entries %s" % sorted(sets), SI.f.where(), SI.f.path)
    VF = Fn(prog, "blind::<impl transaction::Transaction>::verify_tx_amt_proofs")
    vseq = []
    for cx, s in VF.flat:
        if s[0] == "do" and s[1].endswith("Vec::<T, A>::push") and "enext(arg1.input)" in "".join(in_loop(cx)):
            tgt = sh(s[2][0])
            val = sh(s[2][1])
            vseq.append((len(in_loop(cx)), val[:60], [l for l in labels(cx) if "has_issuance" in l[0] or l[0].startswith("discr(elem(array")]))
    dom = [x for x in vseq if "get_asset_gen" in x[1] or "new_unblinded" in x[1]]
    order_ok = len(dom) >= 3 and dom[0][0] == 1 and "get_asset_gen" in dom[0][1] and all(d[0] == 2 for d in dom[1:])
    arr = None
    for cx, s in VF.flat:
        for t in ([s[1]] if s[0] in ("loop",) else []):
            txt = sh(t)
            if "array{tuple{" in txt:
                arr = txt
    pair_ok = arr is not None and re.search(r"array\{tuple\{elem\(arg1\.input\)\.asset_issuance\.amount, transaction::TxIn::issuance_ids\(elem\(arg1\.input\)\)\.0\}, tuple\{elem\(arg1\.input\)\.asset_issuance\.inflation_keys, transaction::TxIn::issuance_ids\(elem\(arg1\.input\)\)\.1\}\}", arr) is not None
    c.inst("R6.verify-sibling", "verify_tx_amt_proofs builds its domain in the same order: utxo generator, then (amount -> asset id), then (inflation keys -> token id), skipping Null amounts", order_ok and pair_ok,
           "domain pushes %s; pseudo-input array %s" % ([(d[0], d[1]) for d in dom], (arr or "")[:200]), VF.f.where(), VF.f.path)
    # the issuance pseudo-inputs of the domain carry the ids computed by Input::issuance_ids; its rules are C11's (R2.pset-*),
    # evaluated here because a wrong id makes the surjection proof of an issued asset impossible
    from . import c11 as _c11
    from ..report import Check as _Check
    sub = _Check("C11", c.tier)
    _asked = set(prog.asked)
    try:
        _c11.run(sub, prog, dict(ctx, no_deps=True))
    finally:
        prog.asked = _asked
    n_b = 0
    for (rule, k, okk, detail, where) in sub.instances:
        if rule.startswith("R2.pset") or rule.startswith("R3.flag"):
            parts = k.split("|")
            c.instances.append(("R6.issuance-ids", "|".join(["R6.issuance-ids"] + parts[1:]), okk, "[C11 %s] %s" % (rule, detail), where))
            n_b += 1
    if n_b == 0:
        raise CannotDecide("C11's PSET issuance-id rules produced no instance")
    # ------------------------------------------------------------- R7 fields written
    FB = prog.fn("pset::map::output::Output::is_fully_blinded")
    from ..mir import field_accesses
    reads, _, _ = field_accesses(FB.body)
    need = sorted(f for o, f in reads if o == "pset::map::output::Output" and f != "blinding_key")
    for F, name in ((NL, "blind_non_last"), (BL, "blind_last")):
        written = sorted({sh(s[1]).rsplit(".", 1)[1] for cx, s in F.flat if s[0] == "store" and re.match(r"^var\('v\d+',\)\.\w+$", sh(s[1]))} - {"blinder_index"})
        c.inst("R7.fully-blinded-fields", name, set(need) <= set(written) and {"blind_value_proof", "blind_asset_proof"} <= set(written),
               "is_fully_blinded reads %s; written per blinded output %s" % (need, written), F.f.where(), F.f.path)
    check_surjection_target(c, prog, "R6.surjection-target")
    # "with the PSET serialized and passed on between them": the published scalars are the one piece of state this flow adds to
    # a PSET; that the writer's pair (proprietary subtype 0, 32-byte key data, empty value) is what the reader accepts is C07's rule
    if not ctx.get("no_deps"):
        from . import c07 as _c07
        c.borrow(_c07, "C07", prog, ctx, lambda rule, k: rule in ("R1.global-scalar-writer", "R1.global-scalar-reader"), "R8.scalars-survive-hop", 2)
    c.floor("R7.fully-blinded-fields", 2)
    c.floor("R4.last", 3)

"""C20 — serde and textual forms: writer/reader table agreement.

Round-trip equality quantifies over values; what is decided here are the finite tables both
directions are driven by: field-name tables (writer keys vs reader keys, duplicates, flattening),
variant selection by present fields, tag tables of the confidential types, human-readable polarity
of paired (de)serializers, string tables of the sighash types, byte-order flags of reversed-hex
types, and literal prefix/offset agreement of the outpoint text form."""
import re
from itertools import product

from ..facts import CannotDecide
from ..ieval import ieval, NoEval
from ..mir import Prov, show, callee_name
from ..structured import listing, fmt, flat, Unstructured
from ..analysis import events, cond_desc, drop_error_guards


def detag(s):
    return re.sub(r"@[A-Za-z_0-9]*#\d+", "", s)


def sh(t, d=-30):
    return detag(show(t, d))


def strlit(t):
    """python string of a &str constant term, else None"""
    s = show(t, -3)
    m = re.match(r'^"(.*)"$', s, re.S)
    return m.group(1) if m else None


class Fn:
    def __init__(self, prog, path):
        self.f = prog.fn(path)
        try:
            self.L, self.names = listing(self.f.body)
        except Unstructured as e:
            raise CannotDecide("%s is not a while/if program: %s" % (path, e))
        self.flat = flat(self.L)

    def text(self, n=40):
        return "\n".join(detag(l) for l in fmt(self.L, lambda t: show(t, -20))[:n])


def ser_fns(prog):
    out = {}
    for k in prog.fns:
        m = re.search(r"^(?:.*::_::<impl serde::Serialize for (.+)>::serialize|<(.+) as serde::Serialize>::serialize)$", k)
        if m and "__SerializeWith" not in k:
            out[m.group(1) or m.group(2)] = k
    return out


def de_fns(prog):
    out = {}
    for k in prog.fns:
        m = re.search(r"^(?:.*::_::<impl serde::Deserialize<'de> for (.+)>::deserialize|<(.+) as serde::Deserialize<'de>>::deserialize)$", k)
        if m and "__DeserializeWith" not in k and "::deserialize::" not in (m.group(1) or m.group(2)):
            out[m.group(1) or m.group(2)] = k
    return out


KEYED = r"ser::(SerializeStruct::serialize_field|SerializeMap::serialize_entry|SerializeStructVariant::serialize_field)$"


def writer_rows(prog, path, _seen=()):
    """[(arm, key, value-term, via)] and [(arm, flattened field term)]; arm = variant name of the discr(arg1) arm or ''"""
    f = prog.fn(path)
    body = f.body
    rows, flats = [], []
    for e in events(body, lambda t: True):
        arm = ""
        for d, lab in cond_desc(body, e["conds"]):
            if d == "discr(arg1)":
                arm = lab
        name = e["name"]
        args = e["args"]
        # a key written only under some further condition (other than the variant, and other than error exits) is optional:
        # the reader has to cope with its absence
        extra = [(d, lab) for d, lab in cond_desc(body, drop_error_guards(body, e["conds"])) if d != "discr(arg1)"]
        if re.search(KEYED, name):
            rows.append((arm, strlit(args[1]), sh(args[2]), path if not extra else path + " [only if %s]" % extra[:1]))
        elif re.search(r"Serialize for &'a T>::serialize$|serde::Serialize::serialize$", name) and len(args) == 2 and "FlatMapSerializer" in sh(args[1]):
            flats.append((arm, sh(args[0])))
        elif name.endswith("::serde_serialize") and name not in _seen:
            sub, _ = writer_rows(prog, name, _seen + (path,))
            rows += [(arm, k, v.replace("arg1.", sh(args[0]) + "."), via) for (_, k, v, via) in sub]
    return rows, flats


def str_table(prog, path):
    """[(string, returned term)] of a `match s { "a" => X, ... _ => D }` function, and the default"""
    F = Fn(prog, path)
    rows = []
    default = None
    for cx, s in F.flat:
        if s[0] != "ret":
            continue
        conds = [(cn, a) for k, cn, a in cx if k == "if" and cn[0] == "call" and re.search(r"str::traits::.*eq$|PartialEq.*::eq$", cn[1])]
        taken = [c for c in conds if c[1] != "=0"]
        if len(taken) == 1 and taken[0] == conds[-1]:
            rows.append((strlit(taken[0][0][2][1]), sh(s[1])))
        elif not taken:
            default = sh(s[1])
    return rows, default


def ty_of(prog, name):
    if name is None:
        return None
    if name in prog.types:
        return prog.types[name]
    base = re.sub(r"<[^<>]*>$", "", name)
    return prog.types.get(base)


def variant_of(term_str):
    m = re.search(r"::([A-Za-z_0-9]+)\{\}\}$", term_str)
    return m.group(1) if m else None


def run(c, prog, ctx):
    c.explanation = (
        "Static decision of the table clauses of C20. (R1) for every local type with keyed serde output the writer's keys (including "
        "flattened sub-structs) are duplicate-free and equal the keys its reader recognises; for the hand-written struct readers the chain "
        "key -> field identifier -> accumulator -> constructed field is the identity on field names; (R2) a flattened struct must not "
        "contain an externally tagged enum (such fields go through serde's buffered Content, which cannot decode sequence-encoded enums); "
        "(R3) variant selection by present keys (ExtData, Params) maps each variant's written key set back to that variant, as an exhaustive "
        "table over presence patterns; (R4) confidential Value/Asset/Nonce tag tables agree between writer and reader; (R5) paired "
        "(de)serializers agree on the human-readable polarity and on string vs bytes; (R6) sighash string tables are bijections inverse to "
        "each other, PsbtSighashType composes them with matching numeric tables; (R7) reversed-hex types: Display's backward flag matches "
        "FromStr's reverse; (R8) OutPoint prefix literal length equals the parser's slice offset; PSET text form is base64 over the consensus "
        "codec in both directions. Value-level equality after a round trip is implied by these tables together with C01/C07 and is not evaluated.")
    c.assume("serde, serde_json/serde_cbor and serde_derive behave as documented; derive-generated key -> field plumbing is correct by construction")
    S, D = ser_fns(prog), de_fns(prog)
    # ------------------------------------------------------------- R1 key tables
    keyed = {}
    for ty, path in sorted(S.items()):
        rows, flats = writer_rows(prog, path)
        if rows or flats:
            keyed[ty] = (rows, flats, path)

    def reader_table(ty):
        cands = [k for k in prog.fns if k.endswith("::visit_str") and ("for %s>::deserialize::__FieldVisitor as" % ty in k or "<<%s as serde::Deserialize<'de>>::deserialize::EnumVisitor as" % ty in k)]
        if len(cands) != 1:
            return None, None, cands
        rows, default = str_table(prog, cands[0])
        return rows, default, cands[0]

    def all_keys(ty, arm):
        rows, flats, _ = keyed[ty]
        ks = [k for a, k, v, via in rows if a == arm]
        for a, fld in flats:
            if a != arm:
                continue
            fty = field_type(ty, fld)
            if fty in keyed:
                ks += all_keys(fty, "")
        return ks

    def field_type(ty, fld_term):
        name = fld_term.split(".")[-1]
        t = ty_of(prog, ty)
        for v in (t or {}).get("variants", []):
            for f in v["fields"]:
                if f["name"] == name:
                    return f["ty"]
        return None

    for ty, (rows, flats, path) in sorted(keyed.items()):
        f = prog.fn(path)
        arms = sorted({a for a, k, v, via in rows} | {a for a, _ in flats}) or [""]
        for arm in arms:
            ks = all_keys(ty, arm)
            dup = sorted({k for k in ks if ks.count(k) > 1})
            c.inst("R1.no-duplicate-keys", "%s%s" % (ty, (" arm " + arm) if arm else ""), not dup and None not in ks,
                   "keys written into one map (own + flattened): %s; duplicated: %s" % (ks, dup), f.where(), ty)
        if ty not in D:
            continue
        rrows, default, rpath = reader_table(ty)
        if rrows is None:
            if isinstance(rpath, list) and not rpath and not any(a for a in arms):
                c.note("%s: no field-name visitor found (reader is not key driven)" % ty)
            continue
        wk = sorted({k for a, k, v, via in rows})
        rk = sorted(k for k, _ in rrows)
        c.inst("R1.writer-reader-keys", ty, wk == rk and len(rk) == len(set(rk)), "writer keys %s; reader keys %s" % (wk, rk), f.where(), ty)
    c.floor("R1.writer-reader-keys", 25, "counted: 9 macro structs + ExtData + Params + derived structs")
    # hand-written readers: key -> Enum variant -> accumulator -> constructed field
    HAND = [t for t in D if any(k.startswith("<<%s as serde::Deserialize<'de>>::deserialize::Visitor as" % t) and k.endswith("::visit_map") for k in prog.fns)]
    for ty in sorted(HAND):
        vm = [k for k in prog.fns if k.startswith("<<%s as serde::Deserialize<'de>>::deserialize::Visitor as" % ty) and k.endswith("::visit_map")][0]
        V = Fn(prog, vm)
        rrows, default, rpath = reader_table(ty)
        en = ty_of(prog, "<%s as serde::Deserialize<'de>>::deserialize::Enum" % ty)
        if rrows is None or en is None:
            c.inst("R1.hand-reader", ty, False, "field-name visitor or Enum not found", V.f.where(), ty)
            continue
        idx = {v["name"]: int(v["discr"]) for v in en["variants"]}
        key_to_idx = {k: idx.get(variant_of(r)) for k, r in rrows}
        # accumulator assigned under `discr(some(next_key)) == idx`
        acc = {}
        for cx, s in V.flat:
            if s[0] == "set" and s[2][0] == "agg" and s[2][1].endswith("Option::Some") and "next_value" in sh(s[2]):
                arm = [a for k, cn, a in cx if k == "if" and re.match(r"discr\(some\(serde::de::MapAccess::next_key", sh(cn))]
                if arm:
                    acc[int(arm[-1][1:])] = s[1][1]
        key_to_var = {k: V.names.get(acc.get(i)) for k, i in key_to_idx.items()}
        V.key_to_acc = {k: acc.get(i) for k, i in key_to_idx.items()}
        c.sample({"rule": "R1.hand-reader", "type": ty, "key_to_accumulator": key_to_var})
        complete = all(v is not None for v in key_to_var.values()) and len(set(key_to_var.values())) == len(key_to_var)
        # constructed fields
        built = []
        for cx, s in V.flat:
            if s[0] == "ret" and s[1][0] == "agg" and s[1][1].endswith("Result::Ok") and s[1][3] and s[1][3][0][0] == "agg":
                a = s[1][3][0]
                while len(a[3]) == 1 and a[3][0][0] == "agg" and len(a[3][0][2]) > 1:
                    a = a[3][0]   # Params::Full(FullParams { .. })
                built.append((a[1], dict(zip(a[2], [sh(x) for x in a[3]]))))
        keyed_ok = complete
        detail = []
        var_to_key = {v: k for k, v in V.key_to_acc.items()}
        wrows = keyed.get(ty, ([], [], None))[0]
        wfield = {k: (re.findall(r"\.([A-Za-z_][A-Za-z_0-9]*)", v) or [None])[-1] for a, k, v, via in wrows}
        for name, flds in built:
            for fld, val in flds.items():
                m = re.search(r"var\('(v\d+)',\)", val)
                if not m:
                    continue
                key = var_to_key.get(m.group(1))
                detail.append("%s.%s <- key %r" % (name.split("::")[-1], fld, key))
                # the key that fills field `fld` must be the key the writer emits for `fld`
                if key is None or wfield.get(key) != fld:
                    keyed_ok = False
        c.inst("R1.hand-reader", ty, keyed_ok and bool(built), "; ".join(detail) or "no constructed value found", V.f.where(), ty)
    c.floor("R1.hand-reader", 10, "9 serde_struct_impl types + ExtData (+ Params)")
    # ------------------------------------------------------------- R2 flatten + enum
    enums_derived = {t for t, p in D.items() if "::_::<impl" in p and (ty_of(prog, t) or {}).get("kind") == "enum"}
    nflat = 0
    for ty, (rows, flats, path) in sorted(keyed.items()):
        for arm, fld in flats:
            nflat += 1
            fty = field_type(ty, fld)
            t = ty_of(prog, fty) or {}
            for v in t.get("variants", []):
                for f in v["fields"]:
                    inner = re.sub(r"^std::option::Option<(.*)>$", r"\1", f["ty"])
                    c.inst("R2.flatten-enum", "%s.%s.%s:%s" % (ty.split("::")[-1], fld.split(".")[-1], f["name"], inner), inner not in enums_derived,
                           "field of a flattened struct; externally tagged enums inside flattened structs are decoded from serde's buffered Content, "
                           "which rejects enums encoded as sequences (serde_cbor 0.8 legacy enum encoding)", prog.fn(path).where(), ty)
    c.floor("R2.flatten-enum", 5, "TxData has five fields")
    # ------------------------------------------------------------- R2 representation of derived impls
    # derive(Serialize) and derive(Deserialize) of one type agree on the data-model shape, and an enum is externally tagged
    # (attributes such as serde(untagged) make the reader pick the first variant whose payload parses)
    SK = {"serialize_struct": "struct", "serialize_newtype_struct": "newtype", "serialize_tuple_struct": "tuple", "serialize_map": "map",
          "serialize_newtype_variant": "enum", "serialize_unit_variant": "enum", "serialize_tuple_variant": "enum", "serialize_struct_variant": "enum"}
    DK = {"deserialize_struct": "struct", "deserialize_newtype_struct": "newtype", "deserialize_tuple_struct": "tuple", "deserialize_map": "map",
          "deserialize_enum": "enum"}
    for ty in sorted(set(S) & set(D)):
        if "::_::<impl" not in S[ty] or "::_::<impl" not in D[ty]:
            continue
        sk = sorted({SK[callee_name(t).split("::")[-1]] for bi, t in prog.fn(S[ty]).body.calls(lambda t: callee_name(t).split("::")[-1] in SK)})
        dk = sorted({DK[callee_name(t).split("::")[-1]] for bi, t in prog.fn(D[ty]).body.calls(lambda t: callee_name(t).split("::")[-1] in DK)})
        is_enum = (ty_of(prog, ty) or {}).get("kind") == "enum"
        good = len(sk) == 1 and sk == dk and (not is_enum or sk == ["enum"])
        c.inst("R2.derived-representation", ty, good,
               "writer shape %s, reader shape %s%s" % (sk or "none (delegates to the payload: untagged/transparent)", dk or "none (buffered content, variants tried in order)",
                                                     "; an enum must be externally tagged: its variants carry payloads of the same wire shape" if is_enum else ""),
               prog.fn(D[ty]).where(), ty)
    c.floor("R2.derived-representation", 15, "derived Serialize+Deserialize pairs counted on the pinned tree")
    # ------------------------------------------------------------- R3 variant selection by present keys
    for ty in ("block::ExtData", "dynafed::Params"):
        vm = [k for k in prog.fns if k.startswith("<<%s as serde::Deserialize<'de>>::deserialize::Visitor as" % ty) and k.endswith("::visit_map")]
        if not vm or ty not in keyed:
            c.inst("R3.variant-selection", ty, False, "reader or writer not found", None, ty)
            continue
        V = Fn(prog, vm[0])
        rrows, default, rpath = reader_table(ty)
        en = ty_of(prog, "<%s as serde::Deserialize<'de>>::deserialize::Enum" % ty)
        idx = {v["name"]: int(v["discr"]) for v in en["variants"]}
        acc = {}
        for cx, s in V.flat:
            if s[0] == "set" and s[2][0] == "agg" and s[2][1].endswith("Option::Some") and "next_value" in sh(s[2]):
                arm = [a for k, cn, a in cx if k == "if" and re.match(r"discr\(some\(serde::de::MapAccess::next_key", sh(cn))]
                if arm:
                    acc[int(arm[-1][1:])] = s[1][1]
        key_var = {k: acc.get(idx.get(variant_of(r))) for k, r in rrows}
        # the final decision: the statements under the arm where next_key() returned None
        final = None
        for s in V.L:
            if s[0] == "while":
                for st in s[3]:
                    if st[0] == "if" and re.match(r"discr\(serde::de::MapAccess::next_key", sh(st[1])) and "=0" in st[2]:
                        final = st[2]["=0"]
        if final is None:
            raise CannotDecide("%s: end-of-map arm not found" % ty)

        def outcome(stmts, present):
            for s in stmts:
                if s[0] == "ret":
                    t = s[1]
                    if t[0] == "agg" and t[1].endswith("Result::Ok"):
                        inner = t[3][0]
                        if inner[0] == "agg":
                            return inner[1].split("::")[-1] if not inner[1].endswith("dynafed::Params::Full") else "Full"
                        return sh(inner)
                    return "Err"
                if s[0] == "if":
                    cs = sh(s[1])
                    m = re.match(r"^discr\((?:some\()*var\('(v\d+)',\)\)*$", cs) or re.match(r"^std::option::Option::is_some\(var\('(v\d+)',\)\)$", cs)
                    if not m:
                        # discriminant of a component of an already-unwrapped tuple pattern
                        m = re.search(r"var\('(v\d+)',\)", cs)
                        if not m or not cs.startswith("discr("):
                            return "?%s" % cs
                    v = 1 if m.group(1) in present else 0
                    arm = "=%d" % v if "=%d" % v in s[2] else "otherwise"
                    if arm not in s[2]:
                        return "?arm"
                    r = outcome(s[2][arm], present)
                    if r is not None:
                        return r
            return None

        rows = keyed[ty][0]
        per_variant = {}
        tyinfo = ty_of(prog, ty)
        optional = {}
        for a, k, v, via in rows:
            per_variant.setdefault(a, []).append(k)
            if "[only if" in via:
                optional.setdefault(a, []).append(k)
        names = {v["name"]: v["name"] for v in tyinfo["variants"]}
        table = {}
        bad = []
        allkeys = [k for k, _ in rrows]
        for pat in product([0, 1], repeat=len(allkeys)):
            present_keys = {k for k, b in zip(allkeys, pat) if b}
            present = {key_var[k] for k in present_keys}
            table[tuple(sorted(present_keys))] = outcome(final, present)
        for v in tyinfo["variants"]:
            ks = per_variant.get(v["name"], [])
            opt = optional.get(v["name"], [])
            # every key set the writer can emit for this variant (optional keys present or not) must select it
            for mask in product([0, 1], repeat=len(opt)):
                drop = {k for k, b in zip(opt, mask) if b}
                kk = [k for k in ks if k not in drop]
                got = table.get(tuple(sorted(kk)))
                if got != v["name"]:
                    bad.append((v["name"], kk, got))
        unknown = sorted({r for r in table.values() if r is None or str(r).startswith("?")}, key=str)
        c.inst("R3.variant-selection", ty, not bad and not unknown, "each variant's written key set must select that variant: deviations %s; undecided outcomes %s; table size %d"
               % (bad, unknown, len(table)), V.f.where(), ty)
        c.sample({"rule": "R3", "type": ty, "written_keys_per_variant": {names.get(a, a): ks for a, ks in per_variant.items()},
                  "selected": {",".join(k): v for k, v in list(table.items())[:8]}})
    run_tables(c, prog, S, D)


def hr_table(prog, path, which):
    """{label: sorted(set(method names))} of Serializer/Deserializer method calls under the is_human_readable branch"""
    f = prog.fn(path)
    body = f.body
    out = {}
    saw = False
    pat = r"serde::Serializer::(\w+)$" if which == "ser" else r"serde::Deserializer::(\w+)$"
    for e in events(body, lambda t: True):
        m = re.search(pat, e["name"])
        if not m:
            continue
        if m.group(1) == "is_human_readable":
            saw = True
            continue
        lab = "always"
        for d, l in cond_desc(body, e["conds"]):
            if "is_human_readable" in d:
                lab = l
        out.setdefault(lab, set()).add(m.group(1))
    return saw, {k: sorted(v) for k, v in out.items()}


STR_SER = {"collect_str", "serialize_str"}
BYTES_SER = {"serialize_bytes"}
STR_DE = {"deserialize_str", "deserialize_string"}
BYTES_DE = {"deserialize_bytes", "deserialize_byte_buf"}


def run_tables(c, prog, S, D):
    # ------------------------------------------------------------- R4 confidential tag tables
    for ty, vis in (("confidential::Value", "CommitVisitor"), ("confidential::Asset", "CommitVisitor"), ("confidential::Nonce", "CommitVisitor")):
        sp = S.get(ty)
        vp = [k for k in prog.fns if k.startswith("<<%s as serde::Deserialize<'de>>::deserialize::" % ty) and k.endswith("::visit_seq")]
        if not sp or len(vp) != 1:
            c.inst("R4.tag-table", ty, False, "serializer or visit_seq not found (%s)" % vp, None, ty)
            continue
        f = prog.fn(sp)
        tinfo = ty_of(prog, ty)
        vnames = {int(v["discr"]): v["name"] for v in tinfo["variants"]}
        writer = {}
        for e in events(f.body, lambda t: callee_name(t).endswith("SerializeSeq::serialize_element")):
            arm = None
            for d, l in cond_desc(f.body, e["conds"]):
                if d == "discr(arg1)":
                    arm = l
            writer.setdefault(arm, []).append(sh(e["args"][1]))
        FS = Fn(prog, sp)
        seqlen = {}
        for cx, s in FS.flat:
            if s[0] == "set" and s[2][0] == "const":
                arm = [a for k, cn, a in cx if k == "if" and sh(cn) == "discr(arg1)"]
                if arm:
                    seqlen[vnames.get(int(arm[-1][1:]))] = s[2][2]
        V = Fn(prog, vp[0])
        reader = {}
        for cx, s in V.flat:
            if s[0] == "ret" and s[1][0] == "agg" and s[1][1].endswith("Result::Ok"):
                inner = s[1][3][0]
                tag = [a for k, cn, a in cx if k == "if" and re.match(r"^some\(serde::de::SeqAccess::next_element\(arg2\)\)$", sh(cn))]
                if inner[0] == "agg" and tag:
                    reader[inner[1].split("::")[-1]] = (tag[-1], [sh(x) for x in inner[3]])
        NE = "some(serde::de::SeqAccess::next_element(arg2))"
        bad = []
        for vn in vnames.values():
            w = writer.get(vn)
            r = reader.get(vn)
            if not w or not r:
                bad.append((vn, w, r))
                continue
            if "=%s" % w[0] != r[0]:
                bad.append((vn, "tag", w[0], r[0]))
            wp = [re.sub(r"arg1\.0", "X", x) for x in w[1:]]
            rp = [x.replace(NE, "X") for x in r[1]]
            # payload transforms must be mutually inverse: identity both sides, or the same involution (swap_bytes)
            if wp != rp or any(re.sub(r"core::num::swap_bytes\(X\)", "X", x) != "X" for x in wp):
                bad.append((vn, "payload", wp, rp))
            if seqlen.get(vn) != len(w):
                bad.append((vn, "seq_len", seqlen.get(vn), len(w)))
        c.inst("R4.tag-table", ty, not bad and len(reader) == len(vnames), "writer %s; reader %s; declared lengths %s; deviations %s" % (writer, reader, seqlen, bad), f.where(), ty)
    # ------------------------------------------------------------- R5 human-readable polarity
    def fam(m):
        m = re.sub(r"^(de)?serialize_", "", m)
        if m in ("collect_str", "str", "string"):
            return "str"
        if m in ("bytes", "byte_buf"):
            return "bytes"
        if m.endswith("_variant") or m == "enum":
            return "enum"
        return m

    for ty in sorted(set(S) & set(D)):
        ss, st = hr_table(prog, S[ty], "ser")
        ds, dt = hr_table(prog, D[ty], "de")
        if not st and not dt:
            continue      # both delegate to an inner type
        good = ss == ds
        labs = ("true", "false") if ss or ds else ("always",)
        for lab in labs:
            sm = {fam(m) for m in set(st.get(lab, [])) | (set(st.get("always", [])) if lab != "always" else set())}
            dm = {fam(m) for m in set(dt.get(lab, [])) | (set(dt.get("always", [])) if lab != "always" else set())}
            if sm != dm or not sm:
                good = False
        c.inst("R5.hr-polarity", ty, bool(good), "serializer %s (branches on human-readable: %s); deserializer %s (branches: %s)" % (st, ss, dt, ds), prog.fn(S[ty]).where(), ty)
    c.floor("R5.hr-polarity", 40, "counted: 52 paired types with a direct data-model call")
    # serde_utils helper modules: serialize/deserialize siblings
    for mod in ("serde_utils::btreemap_byte_values", "serde_utils::btreemap_as_seq", "serde_utils::btreemap_as_seq_byte_values", "serde_utils::hex_bytes"):
        sp, dp = mod + "::serialize", mod + "::deserialize"
        if not (prog.has_fn(sp) and prog.has_fn(dp)):
            c.inst("R5.helper-polarity", mod, False, "helper functions not found", None, mod)
            continue
        ss, st = hr_table(prog, sp, "ser")
        ds, dt = hr_table(prog, dp, "de")
        fam = lambda ms: {("map" if "map" in m else "seq" if "seq" in m else "str" if "str" in m else "bytes" if "byte" in m else m) for m in ms}
        good = ss == ds
        for lab in set(st) | set(dt):
            if fam(st.get(lab, [])) != fam(dt.get(lab, [])):
                good = False
        c.inst("R5.helper-polarity", mod, good, "serialize %s; deserialize %s" % (st, dt), prog.fn(sp).where(), mod)
    # ------------------------------------------------------------- R6 sighash string tables
    def display_table(ty):
        p = "<%s as std::fmt::Display>::fmt" % ty
        F = Fn(prog, p)
        tinfo = ty_of(prog, ty)
        vn = {int(v["discr"]): v["name"] for v in tinfo["variants"]}
        tbl = {}
        for cx, s in F.flat:
            if s[0] == "set":
                lit = strlit(s[2])
                arm = [a for k, cn, a in cx if k == "if" and sh(cn) == "discr(arg1)"]
                if lit is not None and arm and arm[-1].startswith("="):
                    tbl[vn.get(int(arm[-1][1:]))] = lit
        return tbl, vn, F

    for ty in ("transaction::EcdsaSighashType", "sighash::SchnorrSighashType"):
        dtab, vn, F = display_table(ty)
        rows, default = str_table(prog, "<%s as std::str::FromStr>::from_str" % ty)
        ptab = {k: variant_of(r) for k, r in rows}
        good = (set(dtab) == set(vn.values()) and len(set(dtab.values())) == len(dtab) and all(ptab.get(s) == v for v, s in dtab.items())
                and set(ptab) == set(dtab.values()) and default is not None and "Err" in default)
        c.inst("R6.sighash-strings", ty, good, "Display %s; FromStr %s; default %s" % (dtab, ptab, default), F.f.where(), ty)
    # PsbtSighashType composition
    dtab, vn, _ = display_table("sighash::SchnorrSighashType")
    FU = Fn(prog, "sighash::SchnorrSighashType::from_u8")
    from_u8 = {}
    for cx, s in FU.flat:
        if s[0] == "ret":
            arm = [a for k, cn, a in cx if k == "if" and sh(cn) == "arg1"]
            v = variant_of(sh(s[1]) + "}") if "Some" in sh(s[1]) else None
            m = re.search(r"SchnorrSighashType::(\w+)\{\}", sh(s[1]))
            if arm and arm[-1].startswith("="):
                from_u8[int(arm[-1][1:])] = m.group(1) if m else None
    inv = {n: k for k, n in vn.items()}
    good = all(v is not None and inv.get(v) == k for k, v in from_u8.items()) and len(from_u8) >= 7
    c.inst("R6.psbt-sighash", "from_u8(k) is the variant whose discriminant is k (so `ty as u32` undoes it)", good, "from_u8 %s; discriminants %s" % (from_u8, inv), FU.f.where(), "sighash::SchnorrSighashType::from_u8")
    PS = Fn(prog, "pset::map::input::PsbtSighashType::schnorr_hash_ty")
    t = [detag(l).strip() for l in fmt(PS.L, lambda t: show(t, -20))]
    c.inst("R6.psbt-sighash", "schnorr_hash_ty: inner > 0xff => None, else from_u8(inner as u8)", t == ["if (arg1.inner Gt 255)", "[=0]", "return sighash::SchnorrSighashType::from_u8((arg1.inner as u8))", "[otherwise]", "return std::option::Option::None{}"],
           "\n".join(t), PS.f.where(), PS.f.path)
    PD = Fn(prog, "<pset::map::input::PsbtSighashType as std::fmt::Display>::fmt")
    rets = [(tuple((sh(cn), a) for k, cn, a in cx if k == "if"), sh(s[1])) for cx, s in PD.flat if s[0] == "ret"]
    SH = "pset::map::input::PsbtSighashType::schnorr_hash_ty(arg1)"
    hexret = [r for cxl, r in rets if "new_lower_hex(arg1.inner)" in r]
    namret = [(cxl, r) for cxl, r in rets if r == "<sighash::SchnorrSighashType as std::fmt::Display>::fmt(some(%s), arg2)" % SH]
    good = (len(rets) == 3 and len(hexret) == 2 and len(namret) == 1 and namret[0][0] == (("discr(%s)" % SH, "=1"), ("discr(some(%s))" % SH, "otherwise"))
            and {cxl for cxl, r in rets if "new_lower_hex" in r} == {(("discr(%s)" % SH, "=0"),), (("discr(%s)" % SH, "=1"), ("discr(some(%s))" % SH, "=255"))})
    c.inst("R6.psbt-sighash", "Display: a named Schnorr type (not Reserved) prints its name, everything else prints inner in hex", good, "returns %s" % rets, PD.f.where(), PD.f.path)
    PF = Fn(prog, "<pset::map::input::PsbtSighashType as std::str::FromStr>::from_str")
    rets = [(tuple((sh(cn), a) for k, cn, a in cx if k == "if"), sh(s[1])) for cx, s in PF.flat if s[0] == "ret"]
    FS_ = "<sighash::SchnorrSighashType as std::str::FromStr>::from_str(arg1)"
    RAD = 'core::num::from_str_radix(core::str::trim_start_matches(arg1, "0x"), 16)'
    want = {((("discr(%s)" % FS_, "=0"), ("discr(ok(%s))" % FS_, "otherwise")), "std::result::Result::Ok{ok(%s)}" % FS_),
            ((("discr(%s)" % FS_, "=1"), ("discr(%s)" % RAD, "=0")), "std::result::Result::Ok{pset::map::input::PsbtSighashType::PsbtSighashType{ok(%s)}}" % RAD)}
    oks = {(cxl, r) for cxl, r in rets if r.startswith("std::result::Result::Ok")}
    c.inst("R6.psbt-sighash", "FromStr: a Schnorr name (not Reserved) converts through `as u32`; otherwise hexadecimal with optional 0x", oks == want, "ok returns %s" % sorted(oks), PF.f.where(), PF.f.path)
    FR = Fn(prog, "<pset::map::input::PsbtSighashType as std::convert::From<sighash::SchnorrSighashType>>::from")
    t = [detag(l).strip() for l in fmt(FR.L, lambda t: show(t, -20))]
    c.inst("R6.psbt-sighash", "From<SchnorrSighashType>: inner = discriminant", t == ["return pset::map::input::PsbtSighashType::PsbtSighashType{(discr(arg1) as u32)}"] or t == ["return pset::map::input::PsbtSighashType::PsbtSighashType{(arg1 as u32)}"],
           "\n".join(t), FR.f.where(), FR.f.path)
    hexlike = [s for s in dtab.values() if re.fullmatch(r"[0-9a-fA-F]+", re.sub(r"^(0x)+", "", s) or "")]
    c.inst("R6.psbt-sighash", "no sighash name is also a hexadecimal literal (the two text namespaces are disjoint)", not hexlike, "names %s" % sorted(dtab.values()), None, "sighash::SchnorrSighashType")
    # ------------------------------------------------------------- R7 reversed hex
    for ty in ("confidential::AssetBlindingFactor", "confidential::ValueBlindingFactor"):
        LH = prog.fn("<%s as std::fmt::LowerHex>::fmt" % ty)
        revs = len([1 for bi, t in LH.body.calls(lambda t: re.search(r"Iterator::rev$|Iterator>::rev$", callee_name(t))) if bi in LH.body.reachable_pruned()]) if hasattr(LH.body, "reachable_pruned") else None
        FL = Fn(prog, "<%s as std::fmt::LowerHex>::fmt" % ty)
        disp_rev = sum(1 for cx, s in FL.flat if s[0] == "ret" and "Iterator::rev(arg1)" in sh(s[1]))
        disp_all = sum(1 for cx, s in FL.flat if s[0] == "ret")
        FD = Fn(prog, "<%s as std::fmt::Display>::fmt" % ty)
        dl = [detag(l).strip() for l in fmt(FD.L, lambda t: show(t, -20)) if l.strip().startswith("return")]
        FSr = Fn(prog, "<%s as std::str::FromStr>::from_str" % ty)
        parse_rev = [tuple(sh(a) for a in s[2]) for cx, s in FSr.flat if s[0] == "do" and s[1].endswith("<impl [T]>::reverse")]
        okr = [sh(s[1]) for cx, s in FSr.flat if s[0] == "ret" and sh(s[1]).startswith("std::result::Result::Ok")]
        n = ty.split("::")[-1]
        good = (disp_all == 1 and dl == ["return <%s as std::fmt::LowerHex>::fmt(arg1, arg2)" % ty]
                and (disp_rev == 1) == (len(parse_rev) == 1) and len(parse_rev) <= 1 and all(a == ("hex::decode_to_array(arg1)",) for a in parse_rev)
                and okr == ["std::result::Result::Ok{%s::%s{secp256k1_zkp::Tweak::from_inner(hex::decode_to_array(arg1))}}" % (ty, n)])
        c.inst("R7.reversed-hex", ty, good, "Display reverses: %s (of %d returns); FromStr reverses: %s; Ok value %s" % (disp_rev, disp_all, parse_rev, okr), FSr.f.where(), ty)
    # binary (non human readable) form of the same two types: bytes written as stored, read as received — no transform on
    # either side, and the string visitor of the human-readable form goes through FromStr (the R7 pair)
    for ty in ("confidential::AssetBlindingFactor", "confidential::ValueBlindingFactor"):
        n = ty.split("::")[-1]
        SF = Fn(prog, S[ty])
        wr = [sh(s_[1]) for cx, s_ in SF.flat if s_[0] == "ret" and "serialize_bytes" in sh(s_[1])]
        BV = "<<%s as serde::Deserialize<'de>>::deserialize::BytesVisitor as serde::de::Visitor<'_>>::visit_bytes" % ty
        HV = "<<%s as serde::Deserialize<'de>>::deserialize::HexVisitor as serde::de::Visitor<'_>>::visit_str" % ty
        good = prog.has_fn(BV) and prog.has_fn(HV)
        det = "visitors not found"
        if good:
            BF = Fn(prog, BV)
            HF = Fn(prog, HV)
            rd = [sh(s_[1]) for cx, s_ in BF.flat if s_[0] == "ret" and sh(s_[1]).startswith("std::result::Result::Ok")]
            muts = [s_[1] for cx, s_ in BF.flat if s_[0] == "do"]
            hs = [sh(s_[1]) for cx, s_ in HF.flat if s_[0] == "ret"]
            TF = "std::array::<impl std::convert::TryFrom<&[T]> for [T; N]>::try_from(arg2)"
            good = (wr == ["serde::Serializer::serialize_bytes(arg2, <secp256k1_zkp::Tweak as std::ops::Index<I>>::index(arg1.0, std::ops::RangeFull::RangeFull{}))"]
                    and rd == ["std::result::Result::Ok{%s::%s{secp256k1_zkp::Tweak::from_inner(ok(%s))}}" % (ty, n, TF)] and not muts
                    and len(hs) == 1 and "core::str::parse(arg2)" in hs[0])
            det = "writes %s; reads %s; in-place mutations %s; string visitor %s" % (wr, rd, muts, hs)
        c.inst("R7.binary-form", ty, good, det, prog.fn(S[ty]).where(), ty)
    for ty in ("hash_types::Txid",):
        v = (prog.consts.get("<%s as hashes::Hash>::DISPLAY_BACKWARD" % ty) or {}).get("val")
        c.inst("R7.reversed-hex", "%s::DISPLAY_BACKWARD (OutPoint text form parses through bitcoin::OutPoint, whose txid is displayed backward)" % ty, v == "true", "evaluated %s" % v, None, ty)
    # ------------------------------------------------------------- R7 leaf readers accept everything the writer emits
    # a hand-written string/bytes visitor may fail because a conversion it calls fails (hex, utf-8, fixed-length array, FromStr);
    # an error return decided by a comparison on the decoded value rejects values the writer serializes without complaint
    from ..analysis import err_returns
    nleaf = 0
    for fnp in sorted(prog.fns):
        if not re.search(r"::visit_(str|bytes|borrowed_str|string|byte_buf|borrowed_bytes)$", fnp) or "::_::<impl" in fnp or "EnumVisitor" in fnp:
            continue
        fv = prog.fn(fnp)
        odd = []
        for e in err_returns(fv.body):
            last = e[2][-1] if e[2] else None
            if last is None or not (last[0].startswith("discr(") and last[1] in ("Err", "None")):
                odd.append((str(e[1])[:80], last))
        nleaf += 1
        c.inst("R7.leaf-reader-total", fnp.rsplit("::", 1)[1], not odd,
               "error returns not caused by a failing conversion: %s" % odd[:2], fv.where(), fnp)
    c.floor("R7.leaf-reader-total", 25, "string/bytes visitors of the hand-written readers")
    # ------------------------------------------------------------- R8 outpoint / pset text
    OD = Fn(prog, "<transaction::OutPoint as std::fmt::Display>::fmt")
    OF = Fn(prog, "<transaction::OutPoint as std::str::FromStr>::from_str")
    pre = [strlit(s[2][1]) for cx, s in OD.flat if s[0] == "do" and s[1].endswith("write_str")]
    fmtargs = [sh(s[1]) for cx, s in OD.flat if s[0] == "ret" and "write_fmt" in sh(s[1])]
    sw = [(strlit(cn[2][1]), a) for cx, s in OF.flat for k, cn, a in cx if k == "if" and cn[0] == "call" and re.search(r"starts_with$", cn[1])]
    cut = [s[2] for cx, s in OF.flat if s[0] == "set" and "RangeFrom" in sh(s[2])]
    off = None
    guard = None
    for cx, s in OF.flat:
        if s[0] == "set" and "RangeFrom" in sh(s[2]):
            m = re.search(r"RangeFrom\{(\d+)\}", sh(s[2]))
            off = int(m.group(1)) if m else None
            guard = [(strlit(cn[2][1]), a) for k, cn, a in cx if k == "if" and cn[0] == "call" and re.search(r"starts_with$", cn[1])]
    good = (len(pre) == 1 and off == len(pre[0].encode()) and guard == [(pre[0], "otherwise")]
            and len(fmtargs) == 1 and re.search(r'Arguments::new\(b"\\xc0\\x01:\\xc0\\x00", array\{core::fmt::rt::Argument::new_display\(arg1\.txid\), core::fmt::rt::Argument::new_display\(arg1\.vout\)\}\)', fmtargs[0]) is not None)
    c.inst("R8.outpoint-text", "Display writes the prefix literal then txid:vout; FromStr strips exactly that literal (its byte length) when present", good,
           "prefix %s; strip guard %s offset %s; format %s" % (pre, guard, off, fmtargs), OF.f.where(), OF.f.path)
    okr = [sh(s[1]) for cx, s in OF.flat if s[0] == "ret" and sh(s[1]).startswith("std::result::Result::Ok")]
    B = "<bitcoin::OutPoint as std::str::FromStr>::from_str(var('v0',))"
    c.inst("R8.outpoint-text", "parsed txid bytes and vout are carried over unchanged", okr == ["std::result::Result::Ok{transaction::OutPoint::OutPoint{hash_types::Txid::from_byte_array(<bitcoin::Txid as bitcoin::bitcoin_hashes::Hash>::to_byte_array(%s.txid)), %s.vout}}" % (B, B)],
           "Ok value %s" % okr, OF.f.where(), OF.f.path)
    if prog.has_fn("pset::str::<impl std::fmt::Display for pset::PartiallySignedTransaction>::fmt"):
        PDs = Fn(prog, "pset::str::<impl std::fmt::Display for pset::PartiallySignedTransaction>::fmt")
        PFs = Fn(prog, "pset::str::<impl std::str::FromStr for pset::PartiallySignedTransaction>::from_str")
        d = [sh(s[1]) for cx, s in PDs.flat if s[0] == "ret"]
        p_ = [sh(s[1]) for cx, s in PFs.flat if s[0] == "ret" and "from_residual" not in sh(s[1])]
        good = (len(d) == 1 and "new_display(bitcoin::base64::display::Base64Display::new(encode::serialize(arg1), bitcoin::base64::prelude::STANDARD))" in d[0]
                and p_ == ["encode::deserialize(bitcoin::base64::Engine::decode(bitcoin::base64::prelude::STANDARD, arg1))"])
        c.inst("R8.pset-text", "Display = standard base64 of the consensus encoding; FromStr = consensus decoding of the standard base64 decoding", good, "display %s; parse %s" % (d, p_), PFs.f.where(), PFs.f.path)
    else:
        c.note("base64 feature not enabled in this configuration: PSET text form not present")
    # locktime / sequence text forms
    for ty, inner in (("locktime::Height", None), ("locktime::Time", None)):
        dp = "<%s as std::fmt::Display>::fmt" % ty
        fp = "<%s as std::str::FromStr>::from_str" % ty
        if prog.has_fn(dp) and prog.has_fn(fp):
            FDm = Fn(prog, dp)
            FPm = Fn(prog, fp)
            d = [sh(s[1]) for cx, s in FDm.flat if s[0] == "ret"]
            p_ = [sh(s[1]) for cx, s in FPm.flat if s[0] == "ret"]
            c.inst("R8.locktime-text", ty, len(d) == 1 and "arg1.0" in d[0] and any("from_consensus" in x or "parse" in x for x in p_), "display %s; parse %s" % (d, p_[:3]), FPm.f.where(), ty)

"""C04 — single-party blinding: factor flow and sibling agreement between blinder, unblinder and verifier.

Decided: where each blinding factor is created, that the factor a function reports is the factor it
committed with, that the last output's value blinder is solved over all inputs and all other outputs,
that blinder / unblinder / verifier hand the same public data (script bytes, asset generator) to the
range proof, that the range-proof message layout is the same in both directions, that sender and
receiver derive the shared secret with the same function, and the shape of the verification
equation. Not decided: that proofs verify and commitments balance (curve arithmetic, randomness)."""
import re
from itertools import product

from ..facts import CannotDecide
from ..mir import show, callee_name
from .c15 import Fn, sh, detag

B = "blind::"
TXO = "blind::<impl transaction::TxOut>::"
RPM = "blind::range_proof_message::RangeProofMessage"
VBF = "confidential::ValueBlindingFactor"
ABF = "confidential::AssetBlindingFactor"


def rets(F, ok_only=True):
    out = []
    for cx, s in F.flat:
        if s[0] == "ret":
            t = sh(s[1])
            if not ok_only or t.startswith("std::result::Result::Ok") or not t.startswith("std::result::Result::") and "from_residual" not in t:
                out.append(t)
    return out


def ncalls(F, pat):
    return len([1 for bi, t in F.f.body.calls(lambda t: re.search(pat, callee_name(t)) is not None)])


def labels(cx):
    return [(sh(c), a) for k, c, a in cx if k == "if"]


def run(c, prog, ctx):
    c.explanation = (
        "Static decision of the factor-flow clauses of C04. (R1) Transaction::blind: the skip predicate and the counting predicate are "
        "complementary; every non-selected output enters the balance with zero factors, every non-last selected output with exactly the "
        "(abf, vbf) its blinding call returned, and those are the factors reported to the caller; the last selected output is solved by "
        "new_last_confidential over the caller's input secrets and all other outputs; (R2) with_secrets_last hands last() the "
        "(value, abf, vbf) triples of inputs and outputs and commits with the solved blinder it returns; new_(not_)last_confidential "
        "draw each random factor once and report the ones they used; (R3) with_txout_secrets commits asset and value with the given "
        "secrets and embeds (asset, asset_bf) as the range-proof message; (R4) blinder, unblinder and verifier hand the range proof the same "
        "script bytes and asset generator; (R5) the message layout asset[0..32] || abf[32..64] is the same in to_byte_array and "
        "from_byte_array, and unblind returns exactly the rewound value, blinder and embedded message; (R6) sender and receiver derive the "
        "shared secret with the same function of (other party's public key, own secret key), and the nonce is the ephemeral public key; "
        "(R7) verify_tx_amt_proofs reaches Ok only through verify_commitments_sum_to_equal over the spent outputs (+ issuance pseudo-inputs) "
        "and all outputs, with a range-proof check per confidential value and a surjection check per confidential asset.")
    c.assume("secp256k1-zkp proof construction/verification, Pedersen commitments and ECDH are correct (dependency)")
    # ------------------------------------------------------------- R1 Transaction::blind
    TB = Fn(prog, "blind::<impl transaction::Transaction>::blind")
    outv = [k for k, v in TB.names.items() if v == "out"]
    OUT = "var('%s',)" % outv[0] if outv else "elem(arg1.output)"
    FEE = "transaction::TxOut::is_fee(%s)" % OUT
    CONF = "confidential::Nonce::is_confidential(%s.nonce)" % OUT
    loops = [s for s in TB.L if s[0] == "while" and "enext(arg1.output)" in sh(s[1])]
    if not loops:
        # the loop may sit under the all-explicit guard
        def find(stmts):
            for s in stmts:
                if s[0] == "while" and "enext(arg1.output)" in sh(s[1]):
                    return s
                if s[0] == "if":
                    for arm in s[2].values():
                        r = find(arm)
                        if r:
                            return r
                if s[0] == "while":
                    r = find(s[3])
                    if r:
                        return r
            return None
        lp = find(TB.L)
        loops = [lp] if lp else []
    if not loops:
        raise CannotDecide("Transaction::blind: output loop not found")
    LOOP = loops[0]

    def classify(stmts, val):
        """'explicit' | 'notlast' | 'last' | other for one valuation of (fee, conf, more)"""
        for s in stmts:
            if s[0] == "do" and s[1].endswith("Vec::<T, A>::push") and "TxOutSecrets::new" in sh(s[2][1]):
                v = sh(s[2][1])
                return "explicit" if "%s::zero()" % ABF in v else "notlast"
            if s[0] == "set" and "Option::Some{index(arg1.output)}" in sh(s[2]):
                return "last"
            if s[0] == "ret":
                return "ret"
            if s[0] == "if":
                cs = sh(s[1])
                if cs == FEE:
                    v = val["fee"]
                elif cs == CONF:
                    v = val["conf"]
                elif re.match(r"^\(\(var\('v\d+',\) AddWithOverflow 1\)\.0 Lt .*count\(.*\)\)$", cs):
                    v = val["more"]
                elif cs.startswith("discr("):
                    v = 0 if "=0" in s[2] else None   # `?` / Option success arm
                    if v is None:
                        return "?" + cs[:60]
                else:
                    return "?" + cs[:80]
                arm = "=%d" % v if "=%d" % v in s[2] else "otherwise"
                if arm in s[2]:
                    r = classify(s[2][arm], val)
                    if r is not None:
                        return r
        return None

    bad = []
    for fee, conf, more in product([0, 1], repeat=3):
        got = classify(LOOP[3], {"fee": fee, "conf": conf, "more": more})
        exp = "explicit" if (fee or not conf) else ("notlast" if more else "last")
        if got != exp:
            bad.append(((fee, conf, more), got, exp))
    c.inst("R1.output-roles", "fee or unmarked => explicit zero-factor entry; marked and more to come => blinded as non-last; otherwise remembered as the last (8 cases)", not bad, "deviations %s" % bad, TB.f.where(), TB.f.path)
    # counting predicate
    cl = [k for k in prog.fns if k.startswith("blind::<impl transaction::Transaction>::blind::{closure#") ]
    cnt = None
    for k in cl:
        F = Fn(prog, k)
        txt = F.text()
        if "is_fee" in txt and "is_confidential" in txt:
            cnt = F
    good = False
    det = "counting closure not found"
    if cnt is not None:
        tbl = {}
        for fee, conf in product([0, 1], repeat=2):
            def ev(stmts):
                for s in stmts:
                    if s[0] == "ret":
                        t = s[1]
                        if t[0] == "const":
                            return t[2]
                        ts = sh(t)
                        if "is_confidential" in ts:
                            return conf if not ts.startswith("std::ops::Not") and "Not" not in ts else 1 - conf
                        if "is_fee" in ts:
                            return 1 - fee if "Not" in ts else fee
                        return None
                    if s[0] == "if":
                        cs = sh(s[1])
                        v = fee if "is_fee" in cs else conf if "is_confidential" in cs else None
                        if v is None:
                            return None
                        arm = "=%d" % v if "=%d" % v in s[2] else "otherwise"
                        r = ev(s[2].get(arm, []))
                        if r is not None:
                            return r
                return None
            tbl[(fee, conf)] = ev(cnt.L)
        good = all(tbl[(f, cf)] == int((not f) and cf) for f, cf in tbl)
        det = "count predicate table %s" % tbl
    c.inst("R1.count-predicate", "num_to_blind counts exactly the outputs the loop treats as selected (not fee and marked)", good, det, TB.f.where(), TB.f.path)
    NOTLAST = None
    for cx, s in TB.flat:
        if s[0] == "do" and s[1].endswith("Vec::<T, A>::push") and "TxOutSecrets::new" in sh(s[2][1]) and "%s::zero()" % ABF not in sh(s[2][1]):
            NOTLAST = sh(s[2][1])
    NL = "blind::new_not_last_confidential(arg2, arg3, confidential::Value::explicit(%s.value), " % OUT
    m = re.match(r"^blind::TxOutSecrets::new\(confidential::Asset::explicit\(%s\.asset\), (.*)\.1, confidential::Value::explicit\(%s\.value\), (.*)\.2\)$" % (re.escape(OUT), re.escape(OUT)), NOTLAST or "")
    good = m is not None and m.group(1) == m.group(2) and m.group(1).startswith(NL) and m.group(1).endswith(", confidential::Asset::explicit(%s.asset), arg4)" % OUT)
    c.inst("R1.non-last-factors", "a non-last output enters the balance with the (abf, vbf) its own blinding call returned, over the caller's input secrets", good, (NOTLAST or "not found")[:500], TB.f.where(), TB.f.path)
    CALL = m.group(1) if m else "?"
    ins = [[sh(a) for a in s[2]] for cx, s in TB.flat if s[0] == "do" and s[1].endswith("BTreeMap::<K, V, A>::insert")]
    rep_nl = [a for a in ins if a[1].startswith("blind::CtLocation::CtLocation{index(arg1.output), ") and a[2] == "tuple{%s.1, %s.2, %s.3}" % (CALL, CALL, CALL)]
    c.inst("R1.reported-factors", "the factors reported for a non-last output are the ones from that same call", len(rep_nl) >= 1, "inserts %s" % [a[1:] for a in ins][:4], TB.f.where(), TB.f.path)
    stores = [(sh(s[1]), sh(s[2])) for cx, s in TB.flat if s[0] == "store"]
    c.inst("R1.replaced-output", "the output is replaced by the blinded output of that same call", any(v == CALL + ".0" for t, v in stores), "stores %s" % [(t, v[:80]) for t, v in stores][:4], TB.f.where(), TB.f.path)
    LASTC = [sh(s[1]) for cx, s in TB.flat if s[0] == "if" and False]
    last_calls = set()
    for cx, s in TB.flat:
        for t in ([s[2]] if s[0] in ("set", "store") else list(s[2]) if s[0] == "do" else [s[1]] if s[0] == "ret" else []):
            for mm in re.finditer(r"blind::new_last_confidential\(arg2, arg3, ", sh(t)):
                last_calls.add(sh(t)[mm.start():mm.start() + 900])
    LIDX = "<std::vec::Vec<T, A> as std::ops::Index<I>>::index(arg1.output, "
    good = bool(last_calls) and all(re.match(r"^blind::new_last_confidential\(arg2, arg3, confidential::Value::explicit\(%s(.*?)\)\.value\), confidential::Asset::explicit\(%s\1\)\.asset\), %s\1\)\.script_pubkey, confidential::Nonce::commitment\(%s\1\)\.nonce\), arg4, std::iter::Iterator::collect\((?:core::slice::iter\()?std::vec::Vec::new\(\)\)?\)" % ((re.escape(LIDX),) * 4), x) for x in last_calls)
    c.inst("R1.last-output", "the last selected output is solved by new_last_confidential over the caller's input secrets and the collected secrets of all other outputs", good, "calls %s" % [x[:420] for x in sorted(last_calls)][:1], TB.f.where(), TB.f.path)
    from ..mir import Prov as _P
    _p = _P(TB.f.body)
    errs = [[sh(_p.operand(a, False)) for a in t["args"]] for bi, t in TB.f.body.calls(lambda t: callee_name(t).endswith("::ok_or"))]
    errs = [e for e in errs if any("TooFewBlindingOutputs" in x for x in e)]
    c.inst("R1.no-output", "no selected output => TooFewBlindingOutputs", len(errs) == 1, "ok_or calls %s" % errs[:1], TB.f.where(), TB.f.path)
    # ------------------------------------------------------------- R2 constructors
    WL = Fn(prog, TXO + "with_secrets_last")
    LAST = ("%s::last(arg2, arg3, arg8, std::iter::Iterator::collect(std::iter::Iterator::map(arg9, fnitem('blind::TxOutSecrets::value_blind_inputs',))), "
            "std::iter::Iterator::collect(std::iter::Iterator::map(arg10, fnitem('blind::TxOutSecrets::value_blind_inputs',))))" % VBF)
    WTS = "blind::with_txout_secrets(arg1, arg2, arg4, arg5, arg7, blind::TxOutSecrets::new(arg6, arg8, arg3, %s), arg9)" % LAST
    r = rets(WL)
    c.inst("R2.with-secrets-last", "vbf = last(value, abf, inputs' triples, other outputs' triples); committed with and returned", r == ["std::result::Result::Ok{tuple{%s, %s}}" % (WTS, LAST)], "returns %s" % [x[:300] for x in r], WL.f.where(), WL.f.path)
    from .c09 import check_last
    check_last(c, prog, "R2.last-formula")
    # "blinding succeeds ... for all value magnitudes the rangeproof parameters admit": the constructors fail only where a callee
    # fails (explicit-value/asset expectations through ok_or, libsecp's proof functions through `?`); none of them returns an
    # error decided by a comparison on the amount, so the admitted range is libsecp's
    from ..analysis import err_returns as _errs
    for fnp in ("blind::<impl confidential::Value>::blind_with_shared_secret", "blind::<impl confidential::Value>::blind", "blind::<impl confidential::Asset>::blind",
                "blind::<impl transaction::TxOut>::with_secrets_last", "blind::<impl transaction::TxOut>::with_txout_secrets",
                "blind::<impl transaction::TxOut>::new_not_last_confidential", "blind::<impl transaction::TxOut>::new_last_confidential"):
        fx = prog.fn(fnp)
        er = [(str(e[1])[:70], [(d[:80], l) for d, l in e[2]][-1:]) for e in _errs(fx.body)]
        c.inst("R4.no-amount-refusal", fnp.split("::")[-1] + " (" + fnp.split("impl ")[1].split(">")[0] + ")", not er, "explicit error returns %s" % er[:2], fx.where(), fnp)
    c.floor("R4.no-amount-refusal", 7)
    from .predicates import confidential_views
    confidential_views(c, prog, "R8.confidential-views")
    c.floor("R8.confidential-views", 21)
    from .c09 import check_surjection_target
    check_surjection_target(c, prog, "R3.surjection-target")
    VI = Fn(prog, "blind::TxOutSecrets::value_blind_inputs")
    c.inst("R2.triples", "value_blind_inputs = (value, asset_bf, value_bf)", rets(VI, False) == ["tuple{arg1.value, arg1.asset_bf, arg1.value_bf}"], "returns %s" % rets(VI, False), VI.f.where(), VI.f.path)
    TN = Fn(prog, "blind::TxOutSecrets::new")
    r = rets(TN, False)
    t = [s[1] for cx, s in TN.flat if s[0] == "ret"]
    flds = dict(zip(t[0][2], [sh(x) for x in t[0][3]])) if t and t[0][0] == "agg" else {}
    c.inst("R2.triples", "TxOutSecrets::new(asset, asset_bf, value, value_bf) stores each argument in its field", flds == {"asset": "arg1", "asset_bf": "arg2", "value": "arg3", "value_bf": "arg4"}, "fields %s" % flds, TN.f.where(), TN.f.path)
    NLc = Fn(prog, TXO + "new_not_last_confidential")
    A1, V1, K1 = "%s::new(arg1)" % ABF, "%s::new(arg1)" % VBF, "secp256k1_zkp::SecretKey::new(arg1)"
    want = ("std::result::Result::Ok{tuple{blind::with_txout_secrets(arg1, arg2, address::Address::script_pubkey(arg4), arg4.blinding_pubkey, %s, blind::TxOutSecrets::new(arg5, %s, arg3, %s), arg6), %s, %s, %s}}"
            % (K1, A1, V1, A1, V1, K1))
    once = (ncalls(NLc, r"AssetBlindingFactor::new$"), ncalls(NLc, r"ValueBlindingFactor::new$"), ncalls(NLc, r"SecretKey::new$"))
    c.inst("R2.not-last", "fresh abf, vbf and ephemeral key, each drawn once, used for the output and reported", rets(NLc) == [want] and once == (1, 1, 1), "returns %s; draws %s" % ([x[:260] for x in rets(NLc)], once), NLc.f.where(), NLc.f.path)
    NLl = Fn(prog, TXO + "new_last_confidential")
    WSL = "blind::with_secrets_last(arg1, arg2, arg3, arg5, arg6, arg4, %s, %s, arg7, arg8)" % (K1, A1)
    once = (ncalls(NLl, r"AssetBlindingFactor::new$"), ncalls(NLl, r"ValueBlindingFactor::new$"), ncalls(NLl, r"SecretKey::new$"))
    c.inst("R2.last", "fresh abf and ephemeral key drawn once; the value blinder is the solved one (none drawn)", rets(NLl) == ["std::result::Result::Ok{tuple{%s.0, %s, %s.1, %s}}" % (WSL, A1, WSL, K1)] and once == (1, 0, 1),
           "returns %s; draws %s" % ([x[:260] for x in rets(NLl)], once), NLl.f.where(), NLl.f.path)
    # ------------------------------------------------------------- R3 with_txout_secrets
    WT = Fn(prog, TXO + "with_txout_secrets")
    AB = "blind::blind(confidential::Asset::Explicit{arg6.asset}, arg1, arg2, arg6.asset_bf, arg7)"
    VB = "blind::blind(confidential::Value::Explicit{arg6.value}, arg2, arg6.value_bf, arg4, arg5, arg3, %s::new(arg6.asset, arg6.asset_bf))" % RPM
    t = [s[1] for cx, s in WT.flat if s[0] == "ret" and sh(s[1]).startswith("std::result::Result::Ok")]
    flds = {}
    if t and t[0][3][0][0] == "agg":
        a = t[0][3][0]
        flds = dict(zip(a[2], [sh(x) for x in a[3]]))
    want = {"asset": AB + ".0", "value": VB + ".0", "nonce": VB + ".1", "script_pubkey": "arg3",
            "witness": "transaction::TxOutWitness::TxOutWitness{std::option::Option::Some{%s.1}, std::option::Option::Some{%s.2}}" % (AB, VB)}
    c.inst("R3.assembled-output", "asset/value committed with the given secrets; message carries (asset, asset_bf); proofs and nonce come from those same calls", flds == want, "fields %s" % {k: v[:160] for k, v in flds.items()}, WT.f.where(), WT.f.path)
    AS = Fn(prog, "blind::<impl confidential::Asset>::blind")
    r = rets(AS)
    DOM = "std::iter::Iterator::collect(std::iter::Iterator::map(enum(arg5), closure:blind::blind::{closure#0}{arg3}))"
    want = ("std::result::Result::Ok{tuple{confidential::Asset::new_confidential(arg3, confidential::Asset::explicit(arg1), arg4), "
            "secp256k1_zkp::zkp::surjection_proof::with_rand::new(arg3, arg2, issuance::AssetId::into_tag(confidential::Asset::explicit(arg1)), %s::into_inner(arg4), %s)}}" % (ABF, DOM))
    c.inst("R3.asset-blind", "asset commitment and surjection proof use the same asset id and the same asset blinder, over the given domain in order", r == [want], "returns %s" % [x[:400] for x in r], AS.f.where(), AS.f.path)
    # the domain handed to the prover is the caller's list, element for element: nothing may mutate the collected vector
    # (the verifier rebuilds the domain from the transaction; positions must correspond)
    muts = [(s_[1], [sh(a) for a in s_[2]][:1]) for cx, s_ in AS.flat if s_[0] == "do" and not s_[1].endswith("SurjectionProof>::new") and "surjection_proof" not in s_[1]]
    c.inst("R3.domain-unmodified", "no in-place change (dedup, sort, retain, truncate, ...) of the surjection domain between collecting and proving", not muts, "mutating calls %s" % muts, AS.f.where(), AS.f.path)
    # ------------------------------------------------------------- R4 range proof public data
    VS = Fn(prog, "blind::<impl confidential::Value>::blind_with_shared_secret")
    GEN = "%s::commitment(arg6, arg2)" % RPM
    COMM = "confidential::Value::new_confidential(arg2, confidential::Value::explicit(arg1), %s, arg3)" % GEN
    RP = ("secp256k1_zkp::RangeProof::new(arg2, 1, confidential::Value::commitment(%s), confidential::Value::explicit(arg1), %s::into_inner(arg3), %s::to_byte_array(arg6), "
          "script::Script::as_bytes(arg5), arg4, 0, 52, %s)" % (COMM, VBF, RPM, GEN))
    r = rets(VS)
    c.inst("R4.rangeproof-create", "commitment and proof share value, vbf and the generator of the message's (asset, abf); proof binds the script bytes and embeds the message", r == ["std::result::Result::Ok{tuple{%s, %s}}" % (COMM, RP)], "returns %s" % [x[:500] for x in r], VS.f.where(), VS.f.path)
    for nm, want in (("RANGEPROOF_MIN_VALUE", "1_u64"), ("RANGEPROOF_EXP_SHIFT", "0_i32"), ("RANGEPROOF_MIN_PRIV_BITS", "52_u8")):
        k = [k for k in prog.consts if k.endswith("::" + nm)]
        v = prog.consts[k[0]].get("val") if k else None
        c.inst("R4.rangeproof-params", nm, v == want, "evaluated %s expected %s" % (v, want), None, nm)
    MC = Fn(prog, RPM + "::commitment")
    c.inst("R4.message-generator", "message.commitment = blinded generator of (asset tag, asset_bf)", rets(MC, False) == ["secp256k1_zkp::Generator::new_blinded(arg2, issuance::AssetId::into_tag(arg1.asset_id), %s::into_inner(arg1.asset_bf))" % ABF], "returns %s" % rets(MC, False), MC.f.where(), MC.f.path)
    UB = Fn(prog, TXO + "unblind")
    REW = "secp256k1_zkp::RangeProof::rewind(arg1.witness.rangeproof, arg2, arg1.value.0, confidential::Nonce::shared_secret(arg1.nonce, arg3), script::Script::as_bytes(arg1.script_pubkey), arg1.asset.0)"
    MSG = "%s::from_byte_array(arg2, <[T] as bitcoin_internals::slice::SliceExt>::split_first_chunk(%s.0.message).0, arg1.asset)" % (RPM, REW)
    t = [s[1] for cx, s in UB.flat if s[0] == "ret" and sh(s[1]).startswith("std::result::Result::Ok")]
    flds = {}
    if t and t[0][3][0][0] == "agg":
        a = t[0][3][0]
        flds = dict(zip(a[2], [sh(x) for x in a[3]]))
    want = {"asset": "%s::asset_id(%s)" % (RPM, MSG), "asset_bf": "%s::blinding_factor(%s)" % (RPM, MSG), "value": REW + ".0.value", "value_bf": "%s::ValueBlindingFactor{%s.0.blinding_factor}" % (VBF, REW)}
    c.inst("R4.unblind", "rewind over (value commitment, shared secret of nonce and receiver key, script bytes, asset generator); secrets = rewound value/blinder and the embedded message checked against the output's asset", flds == want,
           "fields %s" % {k: v[:200] for k, v in flds.items()}, UB.f.where(), UB.f.path)
    guards = [l for cx, s in UB.flat if s[0] == "ret" and sh(s[1]).startswith("std::result::Result::Ok") for l in labels(cx)][:2]
    c.inst("R4.unblind", "only outputs with confidential value and confidential asset are unblinded", guards == [("discr(arg1.value)", "=2"), ("discr(arg1.asset)", "=2")], "guards %s" % guards, UB.f.where(), UB.f.path)
    VF = Fn(prog, "blind::<impl transaction::Transaction>::verify_tx_amt_proofs")
    ver = [[sh(a) for a in s[2]] for cx, s in VF.flat if s[0] == "do" and False]
    rpv = set()
    spv = set()
    for bi, t in VF.f.body.calls(lambda t: callee_name(t).endswith("RangeProof::verify") or callee_name(t).endswith("SurjectionProof::verify")):
        from ..mir import Prov
        p = Prov(VF.f.body)
        args = tuple(sh(p.operand(a)) for a in t["args"])
        (rpv if callee_name(t).endswith("RangeProof::verify") else spv).add(args)
    OUTV = "elem(arg1.output)"
    want = {("%s.witness.rangeproof" % OUTV, "arg2", "some(confidential::Value::commitment(%s.value))" % OUTV, "script::Script::as_bytes(%s.script_pubkey)" % OUTV, "blind::get_asset_gen(%s, arg2)" % OUTV)}
    c.inst("R4.verify-rangeproof", "verifier checks the range proof against the output's own commitment, script bytes and asset generator", rpv == want, "calls %s" % sorted(rpv), VF.f.where(), VF.f.path)
    # ------------------------------------------------------------- R5 message layout
    TBY = Fn(prog, RPM + "::to_byte_array")
    copies = []
    for cx, s in TBY.flat:
        if s[0] == "do" and s[1].endswith("copy_from_slice"):
            copies.append(tuple(sh(a) for a in s[2]))
    IM = "core::array::<impl std::ops::IndexMut<I> for [T; N]>::index_mut"
    good = (len(copies) == 2 and re.search(r"RangeTo\{32\}", copies[0][0]) and "into_tag(arg1.asset_id)" in copies[0][1]
            and re.search(r"RangeFrom\{32\}", copies[1][0]) and "into_inner(arg1.asset_bf)" in copies[1][1])
    c.inst("R5.message-layout", "to_byte_array: [..32] = asset tag, [32..] = asset blinding factor", bool(good), "copies %s" % copies, TBY.f.where(), TBY.f.path)
    FBY = Fn(prog, RPM + "::from_byte_array")
    t = None
    for cx, s in FBY.flat:
        if s[0] == "ret" and sh(s[1]).startswith("std::result::Result::Ok"):
            t = sh(s[1])
    SPL = "<[T; N] as bitcoin_internals::array::ArrayExt>::split_array(arg2)"
    good = t is not None and re.search(r"RangeProofMessage\{issuance::AssetId::from_byte_array\(%s\.0\), (ok\()?%s::from_byte_array\(%s\.1\)\)?\}" % (re.escape(SPL), re.escape(ABF), re.escape(SPL)), t) is not None
    c.inst("R5.message-layout", "from_byte_array: first 32 bytes = asset id, last 32 = asset blinding factor", good, "Ok value %s" % (t or "")[:300], FBY.f.where(), FBY.f.path)
    AT = Fn(prog, "issuance::AssetId::into_tag")
    AF = Fn(prog, "issuance::AssetId::from_byte_array") if prog.has_fn("issuance::AssetId::from_byte_array") else None
    c.inst("R5.message-layout", "asset tag bytes are the asset id bytes (no reordering)", any("arg1.0" in x or "to_byte_array(arg1" in x for x in rets(AT, False)), "into_tag returns %s" % rets(AT, False), AT.f.where(), AT.f.path)
    # ------------------------------------------------------------- R6 shared secret
    WE = Fn(prog, "confidential::Nonce::with_ephemeral_sk")
    SS = Fn(prog, "confidential::Nonce::shared_secret")
    c.inst("R6.shared-secret", "sender: nonce = public key of the ephemeral key; secret = make_shared_secret(receiver public key, ephemeral key)",
           rets(WE, False) == ["tuple{confidential::Nonce::Confidential{secp256k1_zkp::PublicKey::from_secret_key(arg1, arg2)}, confidential::Nonce::make_shared_secret(arg3, arg2)}"], "returns %s" % rets(WE, False), WE.f.where(), WE.f.path)
    rows = {tuple(labels(cx)): sh(s[1]) for cx, s in SS.flat if s[0] == "ret"}
    c.inst("R6.shared-secret", "receiver: secret = make_shared_secret(nonce public key, receiver key) — the same function with the roles swapped",
           rows == {(("discr(arg1)", "=2"),): "std::option::Option::Some{confidential::Nonce::make_shared_secret(arg1.0, arg2)}", (("discr(arg1)", "otherwise"),): "std::option::Option::None{}"}, "rows %s" % rows, SS.f.where(), SS.f.path)
    VBl = Fn(prog, "blind::<impl confidential::Value>::blind")
    WEc = "confidential::Nonce::with_ephemeral_sk(arg2, arg5, arg4)"
    BWS = "blind::blind_with_shared_secret(arg1, arg2, arg3, %s.1, arg6, arg7)" % WEc
    c.inst("R6.shared-secret", "Value::blind proves with the sender-side secret and publishes the matching nonce", rets(VBl) == ["std::result::Result::Ok{tuple{%s.0, %s.0, %s.1}}" % (BWS, WEc, BWS)], "returns %s" % [x[:300] for x in rets(VBl)], VBl.f.where(), VBl.f.path)
    # ------------------------------------------------------------- R7 verification equation
    body = VF.f.body
    bal = [bi for bi, t in body.calls(lambda t: callee_name(t).endswith("verify_commitments_sum_to_equal"))]
    okb = [bi for bi in body.reachable() for st in body.blocks[bi]["s"] if st["k"] == "assign" and st["pl"]["l"] == 0 and not st["pl"]["p"] and st["rv"]["k"] == "agg" and st["rv"].get("variant") == "Ok"]
    good = len(bal) == 1 and bool(okb) and all(body.dominates(bal[0], b) for b in okb)
    args = None
    if bal:
        from ..mir import Prov
        p = Prov(body)
        args = [show(p.operand(a), -20) for a in body.blocks[bal[0]]["t"]["args"]]
    c.inst("R7.balance-check", "Ok is reached only through verify_commitments_sum_to_equal(inputs' commitments, outputs' commitments)", good and args is not None and args[1] != args[2] and "Vec::new()" in args[1],
           "balance calls %s, Ok blocks %s, args %s" % (bal, okb, args), VF.f.where(), VF.f.path)
    # which vector receives what
    pushes = {}
    for cx, s in VF.flat:
        if s[0] == "do" and s[1].endswith("Vec::<T, A>::push"):
            loop = "in" if any("enext(arg1.input)" in sh(cn) for k, cn, a in cx if k == "while") else "out" if any("enext(arg1.output)" in sh(cn) for k, cn, a in cx if k == "while") else "?"
            v = sh(s[2][1])
            pushes.setdefault(loop, set()).add(re.sub(r"^(ok|some)\(", "", v).split("(")[0][:60])
            vec = show(s[2][0], -20)
            pushes.setdefault(loop + "-vec", set()).add(vec + " <- " + re.sub(r"^(ok|some)\(", "", v).split("(")[0])
    c.inst("R7.commit-sources", "input side: spent outputs' value commitments and issuance pseudo-inputs; output side: each output's value commitment",
           "blind::get_value_commit" in pushes.get("in", set()) and pushes.get("out", set()) == {"blind::get_value_commit"}
           and "secp256k1_zkp::PedersenCommitment::new_unblinded" in pushes.get("in", set()) and args is not None
           and {x.split(" <- ")[0] for x in pushes.get("out-vec", set())} == {args[2]}
           and args[1] in {x.split(" <- ")[0] for x in pushes.get("in-vec", set()) if "get_value_commit" in x},
           "pushes %s" % {k: sorted(v) for k, v in pushes.items()}, VF.f.where(), VF.f.path)
    sp = sorted(spv)
    c.inst("R7.surjection-check", "every confidential asset is checked against the input domain", len(sp) == 1 and sp[0][2] == "some(confidential::Asset::commitment(%s.asset))" % OUTV and "Vec::new()" in sp[0][3], "calls %s" % sp, VF.f.where(), VF.f.path)
    lenchk = [sh(s[1]) for cx, s in VF.flat if s[0] == "ret" and "UtxoInputLenMismatch" in sh(s[1])]
    c.inst("R7.length-check", "spent outputs must match the inputs one to one", len(lenchk) == 1, "returns %s" % lenchk, VF.f.where(), VF.f.path)
    # the verifier's domain must be positionally the prover's: C05's rule that the spent output's generator and commitment are
    # pushed for every input (no filter, no de-duplication) is a condition of "the result passes verification" as well
    from . import c05 as _c05
    c.borrow(_c05, "C05", prog, ctx, lambda rule, k: rule in ("R2.push-unconditional",), "R7.domain-unfiltered", 1)
    c.floor("R4.rangeproof-params", 3)

"""C14 — PSET merge: consumption coverage of `other`, no clearing of `self`, id gate,
xpub key-source decision table, scalar/flag/version combination."""
import re

from ..analysis import events, cond_desc, effects, err_returns, predicate_walk, ret_assignments, try_edges_after
from ..mir import Prov, Guards, show, callee_name, walk_term

MERGES = {
    "pset::map::input::Input": ("<pset::map::input::Input as pset::map::Map>::merge",
                                {"previous_txid", "previous_output_index"}),
    "pset::map::output::Output": ("<pset::map::output::Output as pset::map::Map>::merge",
                                  {"script_pubkey", "amount_comm", "asset_comm"}),
    "pset::map::global::Global": ("<pset::map::global::Global as pset::map::Map>::merge", {"tx_data"}),
}
TXDATA_EXEMPT = {"version", "input_count", "output_count"}
EXEMPT_WHY = ("identity fields determined by the unique id (previous outpoint; output script and commitments; tx version "
              "and counts) are equal in both operands whenever the id gate passed")


def _mentions(term, root_arg, field):
    for x in walk_term(term):
        if x[0] == "fld" and x[3] == field:
            # rooted at the right argument
            y = x
            while y[0] == "fld":
                y = y[1]
            while y[0] in ("some", "ok", "elem", "next"):
                y = y[1]
                while y[0] == "fld":
                    y = y[1]
            if y == ("arg", root_arg):
                return True
    return False


def _target_path(t):
    """['f1','f2'] for arg1.f1.f2, else None"""
    path = []
    while t[0] == "fld":
        path.append(t[3])
        t = t[1]
    if t == ("arg", 1):
        return list(reversed(path))
    return None


def _coverage(c, prog, owner, fnp, exempt, prefix=(), fields=None, effs=None, f=None):
    f = f or prog.fn(fnp)
    effs = effs if effs is not None else effects(f.body)
    fields = fields or prog.struct_fields(owner)
    for fld in fields:
        if fld in exempt:
            continue
        want = list(prefix) + [fld]
        ok = False
        how = None
        for e in effs:
            tp = _target_path(e["target"])
            if tp is None or tp[:len(want)] != want:
                continue
            deps = [e["value"]] if e["value"] is not None else e.get("args", [])
            if any(_mentions(d, 2, fld) for d in deps if d is not None):
                ok = True
                how = e["kind"] + ":" + (e["callee"] or show(e["value"]))
                break
        c.inst("R1.other-consumed", "%s.%s" % (owner.split("::")[-1], ".".join(want)), ok,
               "field `%s` of `other` never flows into self.%s in %s: information of the second operand is dropped"
               % (".".join(want), ".".join(want), fnp), f.where(), fnp)
        if ok:
            c.sample({"rule": "R1", "field": "%s.%s" % (owner.split("::")[-1], ".".join(want)), "how": how[:120]})


def _no_clearing(c, fnp, f, effs):
    b = f.body
    g = Guards(b)
    n = 0
    for e in effs:
        if e["kind"] != "assign":
            continue
        tp = _target_path(e["target"])
        if tp is None:
            continue
        n += 1
        # first-present-wins: whether other's value for field X is taken may depend on self.X (is it still empty?),
        # never on a different field of self — otherwise other.X is dropped for reasons unrelated to X
        foreign = []
        for d, lab in cond_desc(b, g.conds(e["bb"])):
            for m in re.finditer(r"arg1((?:\.[A-Za-z_][A-Za-z_0-9]*)*)", d):
                fp = [x for x in m.group(1).strip(".").split(".") if x]
                # a predicate over self as a whole (self.is_marked_for_blinding(), ...) is a test on other fields too
                if not fp or (fp[:len(tp)] != tp and tp[:len(fp)] != fp):
                    foreign.append((d, lab))
        c.inst("R2.guard-same-field", ".".join(tp), not foreign,
               "the assignment to self.%s is guarded by a test on a different field of self: %s" % (".".join(tp), foreign[:2]), f.where(e.get("sp")), fnp)
        v = e["value"]
        dep = any(x[0] == "arg" for x in walk_term(v))
        c.inst("R2.no-clearing", ".".join(tp), dep,
               "self.%s is overwritten with the constant %s inside merge (clears data of self; result becomes order dependent)"
               % (".".join(tp), show(v)), f.where(e.get("sp")), fnp)
    return n


GROW = re.compile(r"(::extend|::insert|::entry|::or_insert\w*|::get_or_insert\w*|::push|::append|::sort\w*|::dedup\w*|::deref_mut|::iter_mut|::as_mut|::merge|::next|::or_default|::and_modify|::reserve)$")
SHRINK = re.compile(r"(::take|::take_if|::replace|::clear|::truncate|::remove|::pop|::retain|::drain|::swap|::split_off|::swap_remove)$")


def _mutation_kinds(c, fnp, f, effs):
    """every call that receives `&mut self.<field>` inside a merge either can only add (extend, insert, entry, ...) or, when it
    can remove data of self (take, replace, clear, ...), is followed on every path to the return by an assignment to that field —
    otherwise a value present in `self` is absent from the result."""
    b = f.body
    assigns = {}
    for e in effs:
        if e["kind"] == "assign":
            tp = _target_path(e["target"])
            if tp is not None and any(x[0] == "arg" for x in walk_term(e["value"])):
                assigns.setdefault(tuple(tp), set()).add(e["bb"])
    rets = {bi for bi in b.reachable() if b.term(bi)["k"] == "return"}
    for e in effs:
        if e["kind"] != "mutarg":
            continue
        tp = _target_path(e["target"])
        if tp is None:
            continue
        name = e["callee"] or ""
        if SHRINK.search(name):
            stop = set()
            for k, bbs in assigns.items():
                if list(k[:len(tp)]) == tp or tp[:len(k)] == list(k):
                    stop |= bbs
            seen, st = set(), [x for x in b.succ(e["bb"]) if not b.blocks[x]["cleanup"]]
            leak = False
            while st:
                x = st.pop()
                if x in seen or x in stop:
                    continue
                seen.add(x)
                if x in rets:
                    leak = True
                    break
                st.extend(y for y in b.succ(x) if not b.blocks[y]["cleanup"])
            c.inst("R2.mutation-kind", "%s(self.%s)" % (name.split("::")[-1], ".".join(tp)), not leak,
                   "%s empties or shrinks self.%s and some path to the return does not assign the field again: a value present in self is lost"
                   % (name, ".".join(tp)), f.where(e.get("sp")), fnp)
        else:
            c.inst("R2.mutation-kind", "%s(self.%s)" % (name.split("::")[-1], ".".join(tp)), True,
                   "adds to / reorders self.%s (%s)" % (".".join(tp), "growing operation" if GROW.search(name) else "not a removing operation"), f.where(e.get("sp")), fnp)


def _map_key_order(c, prog):
    """R6: the union of two key-value maps keeps every pair only if keys that are not equal are not "equal" for the map: for
    every crate-local type that is (part of) a key of a BTreeMap field of Input/Output/Global, Ord/PartialOrd/PartialEq are
    compiler-derived, or a hand-written comparison reads every field of the type (a field it skips collapses distinct keys)."""
    from ..mir import field_accesses

    def split_top(s_):
        out, d, cur = [], 0, ""
        for ch in s_:
            if ch in "<([":
                d += 1
            elif ch in ">)]":
                d -= 1
            if ch == "," and d == 0:
                out.append(cur.strip())
                cur = ""
            else:
                cur += ch
        if cur.strip():
            out.append(cur.strip())
        return out

    def base(t):
        return re.sub(r"<.*>$", "", t.strip())
    todo = []
    for owner in MERGES:
        for fld in prog.types[owner]["variants"][0]["fields"]:
            m = re.match(r"^std::collections::BTreeMap<(.*)>$", fld["ty"])
            if m:
                todo.append(split_top(m.group(1))[0])
    seen = set()
    while todo:
        t = todo.pop().strip()
        if t.startswith("(") and t.endswith(")"):
            todo += split_top(t[1:-1])
            continue
        m = re.match(r"^(?:std::vec::Vec|std::option::Option|std::boxed::Box)<(.*)>$", t)
        if m:
            todo.append(m.group(1))
            continue
        b = base(t)
        if b in seen or b not in prog.types:
            continue
        seen.add(b)
        for v in prog.types[b]["variants"]:
            for fld in v["fields"]:
                todo.append(fld["ty"])
    n = 0
    for ty in sorted(seen):
        fields = {f["name"] for v in prog.types[ty]["variants"] for f in v["fields"]}
        for imp in prog.impls:
            if base(imp["self_ty"]) != ty:
                continue
            tr = (imp.get("trait") or "").split("<")[0]
            if tr not in ("std::cmp::Ord", "std::cmp::PartialOrd", "std::cmp::PartialEq"):
                continue
            mac = (imp.get("sp") or {}).get("mac") or ""
            n += 1
            if "derive" in mac:
                c.inst("R6.map-key-order", "%s: %s derived" % (ty, tr.split("::")[-1]), True, mac, None, ty)
                continue
            read = set()
            for it in imp.get("items", []):
                if it in prog.fns:
                    r, _, _ = field_accesses(prog.fns[it].body)
                    read |= {f for (o, f) in r if o == ty}
            miss = sorted(fields - read)
            c.inst("R6.map-key-order", "%s: hand-written %s compares every field" % (ty, tr.split("::")[-1]), not miss,
                   "fields never read by the comparison: %s (keys differing only there are the same key for the map, one pair is dropped by the union)" % miss,
                   prog.fns[imp["items"][0]].where() if imp.get("items") and imp["items"][0] in prog.fns else None, ty)
    c.floor("R6.map-key-order", 12, "raw::Key, ProprietaryKey, ControlBlock and their field types x three comparison traits")


def run(c, prog, ctx):
    c.explanation = (
        "Static decision of the structural clauses of C14 on the MIR of the four merge functions: (R1) every field of "
        "`other` except the identity fields fixed by the unique id flows into the same field of `self` (resolved write "
        "effects with data dependence on other.<field>); (R2) no field of `self` is assigned a constant inside a merge; "
        "(R3) in PartiallySignedTransaction::merge every mutation is dominated by the unique-id comparison whose unequal "
        "edge returns UniqueIdMismatch, and every sub-merge result is propagated; (R4) predicate-abstraction walk of the "
        "xpub key-source branch over the seven classes of (path, fingerprint) pairs gives the documented table and no "
        "panic; (R5) scalars/flags/version combination. Behaviour on conflicting values under one key is outside the "
        "property's quantifier.")
    c.assume(EXEMPT_WHY)
    for owner, (fnp, exempt) in MERGES.items():
        f = prog.fn(fnp)
        effs = effects(f.body)
        _coverage(c, prog, owner, fnp, exempt, effs=effs, f=f)
        if owner.endswith("Global"):
            _coverage(c, prog, "pset::map::global::TxData", fnp, TXDATA_EXEMPT, prefix=("tx_data",), effs=effs, f=f)
        _no_clearing(c, fnp, f, effs)
        _mutation_kinds(c, fnp, f, effs)
    _id_gate(c, prog)
    _xpub_table(c, prog)
    _global_combination(c, prog)
    _map_key_order(c, prog)
    c.floor("R1.other-consumed", 70, "Input 48-2, Output 20-3, Global 6, TxData 2 counted on the pinned tree")
    c.floor("R2.mutation-kind", 18, "15 map extends, scalars extend/sort/dedup, xpub entry/insert")
    c.floor("R2.no-clearing", 40, "one per merge! expansion and direct assignment")


def _id_gate(c, prog):
    fnp = "pset::PartiallySignedTransaction::merge"
    f = prog.fn(fnp)
    b = f.body
    g = Guards(b)
    ev = events(b, lambda t: re.search(r"as pset::map::Map>::merge$", callee_name(t)) is not None)
    NE = "std::cmp::PartialEq::ne(pset::PartiallySignedTransaction::unique_id(arg1), pset::PartiallySignedTransaction::unique_id(arg2))"
    EQ = NE.replace("PartialEq::ne", "PartialEq::eq")
    want = {
        "<pset::map::global::Global as pset::map::Map>::merge": ["arg1.global", "arg2.global"],
        "<pset::map::input::Input as pset::map::Map>::merge": ["elem(arg1.inputs)", "elem(arg2.inputs)"],
        "<pset::map::output::Output as pset::map::Map>::merge": ["elem(arg1.outputs)", "elem(arg2.outputs)"],
    }
    got = {e["name"]: [show(a) for a in e["args"]] for e in ev}
    c.inst("R3.sub-merges", "global, zip(inputs), zip(outputs) merged pairwise", got == want, "calls %s" % got, f.where(), fnp)
    for e in ev:
        cd = cond_desc(b, e["conds"])
        c.inst("R3.id-gate-dominates", e["name"], (NE, "false") in cd or (EQ, "true") in cd,
               "mutation of self not dominated by the unique-id comparison; guards %s" % cd, f.where(e["t"]["sp"]), fnp)
        te = try_edges_after(b, e["bb"])
        ok = False
        if te and te[1] is not None:
            rb = b.reach_from(te[1])
            okret = [bi for (bi, k, _) in ret_assignments(b) if k == "ok"]
            ok = not (set(okret) & rb)
        c.inst("R3.sub-merge-error-propagates", e["name"], ok, "error of the sub-merge is not propagated", f.where(e["t"]["sp"]), fnp)
    errs = err_returns(b)
    mm = [x for x in errs if "UniqueIdMismatch" in x[1]]
    c.inst("R3.id-mismatch-error", "different ids => Err(UniqueIdMismatch)",
           len(mm) == 1 and ((NE, "true") in mm[0][2] or (EQ, "false") in mm[0][2]), "error returns %s" % [(x[1][:80], x[2]) for x in errs], f.where(), fnp)
    # any direct write to self outside the sub-merges must be gated too
    for e in effects(b):
        tp = _target_path(e["target"])
        if tp is None:
            continue
        if e["kind"] == "mutarg" and re.search(r"::merge$|iter_mut$|deref_mut$|unique_id$", e["callee"] or ""):
            continue
        cd = cond_desc(b, g.conds(e["bb"]))
        c.inst("R3.id-gate-dominates", "direct write self.%s" % ".".join(tp), (NE, "false") in cd or (EQ, "true") in cd,
               "direct mutation before/without the id gate", f.where(e.get("sp")), fnp)


D1 = "elem(arg2.xpub).1.1"
F1 = "elem(arg2.xpub).1.0"
ENTRY = "std::collections::BTreeMap::entry(arg1.xpub, elem(arg2.xpub).0)"
GET = "std::collections::btree_map::OccupiedEntry::get(%s.0)" % ENTRY
D2 = GET + ".1"
F2 = GET + ".0"

# classes of (other=(f1,d1), self=(f2,d2)) and the truth value of every atom in each class
#   deq: d1==d2, feq: f1==f2, lt12: len(d1)<len(d2), lt21: len(d2)<len(d1), suf12: d1 == tail of d2 (needs len1<=len2),
#   suf21: d2 == tail of d1 (needs len2<=len1)
CLASSES = {
    "equal":                      dict(deq=True, feq=True, lt12=False, lt21=False, suf12=True, suf21=True, want="keep"),
    "equal-path-different-fp":    dict(deq=True, feq=False, lt12=False, lt21=False, suf12=True, suf21=True, want="error"),
    "same-length-different-path": dict(deq=False, feq=True, lt12=False, lt21=False, suf12=False, suf21=False, want="error"),
    "other-is-strict-suffix":     dict(deq=False, feq=True, lt12=True, lt21=False, suf12=True, suf21=None, want="keep"),
    "self-is-strict-suffix":      dict(deq=False, feq=True, lt12=False, lt21=True, suf12=None, suf21=True, want="insert"),
    "other-shorter-unrelated":    dict(deq=False, feq=True, lt12=True, lt21=False, suf12=False, suf21=None, want="error"),
    "other-longer-unrelated":     dict(deq=False, feq=True, lt12=False, lt21=True, suf12=None, suf21=False, want="error"),
}


def _norm(s):
    return s.replace(D2, "D2").replace(F2, "F2").replace(D1, "D1").replace(F1, "F1")


def _atom(kind, term_or_assert, cls):
    """truth of a switch condition / assert under class cls; None if not an atom we know"""
    if kind == "assert":
        t = term_or_assert
        if t["ak"].startswith("Overflow(Sub)"):
            return ("sub", t)
        return None
    return None


def _xpub_table(c, prog):
    fnp = "<pset::map::global::Global as pset::map::Map>::merge"
    f = prog.fn(fnp)
    b = f.body
    prov = Prov(b)
    g = Guards(b)
    # start: target of the Occupied edge of the entry switch
    start = None
    for (sb, tb, vals, excl) in g.switch_edges():
        d = prov.operand(b.term(sb)["d"])
        if show(d) == "discr(%s)" % ENTRY:
            lab = cond_desc(b, [(sb, d, vals, excl)])
            if lab and lab[0][1] == "Occupied":
                start = tb
    c.inst("R4.xpub-occupied-branch", "Occupied entry branch found", start is not None, "", f.where(), fnp)
    if start is None:
        return
    hdr = None
    for bi, t in b.calls(lambda t: re.search(r"IntoIter<K, V, A> as std::iter::Iterator>::next$", callee_name(t))):
        if show(prov.operand(t["args"][0])) == "arg2.xpub":
            hdr = bi
    insert_blocks = {bi for bi, t in b.calls(lambda t: callee_name(t).endswith("OccupiedEntry::<'a, K, V, A>::insert"))}
    err_blocks = {bi for (bi, k, _) in ret_assignments(b) if k == "err"}
    errs = err_returns(b)
    conflict_blocks = {x[0] for x in errs if "MergeConflict" in x[1]}
    unknown_atoms = set()

    def make_val(cls):
        def val(kind, bb, t):
            if kind == "assert":
                if t["ak"].startswith("Overflow(Sub)"):
                    a, bb_ = _norm(show(prov.operand(t["ops"][0]), -9)), _norm(show(prov.operand(t["ops"][1]), -9))
                    L1, L2 = "bitcoin::bip32::DerivationPath::len(D1)", "bitcoin::bip32::DerivationPath::len(D2)"
                    if (a, bb_) == (L2, L1):      # len2 - len1 fails iff len2 < len1
                        return not cls["lt21"]
                    if (a, bb_) == (L1, L2):
                        return not cls["lt12"]
                    unknown_atoms.add("assert %s - %s" % (a, bb_))
                    return None
                return True
            if kind != "switch":
                return None
            s = _norm(show(t, -9))
            neg = False
            L1, L2 = "bitcoin::bip32::DerivationPath::len(D1)", "bitcoin::bip32::DerivationPath::len(D2)"
            table = {
                "<bitcoin::bip32::DerivationPath as std::cmp::PartialEq>::eq(D1, D2)": cls["deq"],
                "<bitcoin::bip32::DerivationPath as std::cmp::PartialEq>::eq(D2, D1)": cls["deq"],
                "<bitcoin::bip32::Fingerprint as std::cmp::PartialEq>::eq(F1, F2)": cls["feq"],
                "<bitcoin::bip32::Fingerprint as std::cmp::PartialEq>::eq(F2, F1)": cls["feq"],
                "(%s Lt %s)" % (L1, L2): cls["lt12"], "(%s Gt %s)" % (L2, L1): cls["lt12"],
                "(%s Lt %s)" % (L2, L1): cls["lt21"], "(%s Gt %s)" % (L1, L2): cls["lt21"],
                "(%s Ge %s)" % (L1, L2): not cls["lt12"], "(%s Le %s)" % (L2, L1): not cls["lt12"],
                "(%s Ge %s)" % (L2, L1): not cls["lt21"], "(%s Le %s)" % (L1, L2): not cls["lt21"],
            }
            if s in table:
                return table[s]
            IDX = "<bitcoin::bip32::DerivationPath as std::ops::Index<I>>::index"
            SL = "core::slice::cmp::<impl std::cmp::PartialEq<[U]> for [T]>::eq"
            full1, full2 = "%s(D1, std::ops::RangeFull::RangeFull{})" % IDX, "%s(D2, std::ops::RangeFull::RangeFull{})" % IDX
            tail2 = "%s(D2, std::ops::RangeFrom::RangeFrom{(%s SubWithOverflow %s).0})" % (IDX, L2, L1)
            tail1 = "%s(D1, std::ops::RangeFrom::RangeFrom{(%s SubWithOverflow %s).0})" % (IDX, L1, L2)
            if s in ("%s(%s, %s)" % (SL, full1, tail2), "%s(%s, %s)" % (SL, tail2, full1)):
                return cls["suf12"]
            if s in ("%s(%s, %s)" % (SL, full2, tail1), "%s(%s, %s)" % (SL, tail1, full2)):
                return cls["suf21"]
            if s.startswith("phi("):
                return None  # drop flags
            unknown_atoms.add(s[:200])
            return None
        return val

    def classify(bb, path):
        if bb in conflict_blocks:
            return "error"
        if bb == hdr and len(path) > 1:
            return "insert" if set(path) & insert_blocks else "keep"
        if bb in err_blocks:
            return "error-other"
        return None

    for name, cls in CLASSES.items():
        out = predicate_walk(b, start, make_val(cls), classify)
        c.inst("R4.xpub-table", name, out == {cls["want"]},
               "key sources of class `%s`: outcomes %s, documented %s" % (name, sorted(out), cls["want"]), f.where(), fnp)
        c.sample({"rule": "R4", "class": name, "outcomes": sorted(out), "want": cls["want"]})
        # different fingerprints on the non-equal-path classes must not panic either
        if name not in ("equal", "equal-path-different-fp"):
            cls2 = dict(cls, feq=False)
            out2 = predicate_walk(b, start, make_val(cls2), classify)
            c.inst("R4.xpub-no-panic", name + "+different-fp", "panic" not in out2 and "<budget>" not in out2,
                   "outcomes %s" % sorted(out2), f.where(), fnp)
    c.inst("R4.xpub-atoms-recognised", "every branch condition of the xpub arm is a known atom", not unknown_atoms,
           "unrecognised conditions: %s" % sorted(unknown_atoms), f.where(), fnp)
    # the overwrite stores other's complete key source (fingerprint and path from the same operand)
    occ = [(bi, t) for bi, t in b.calls(lambda t: callee_name(t).endswith("OccupiedEntry::<'a, K, V, A>::insert"))]
    oko = len(occ) == 1 and show(prov.operand(occ[0][1]["args"][1])) == "tuple{%s, %s}" % (F1, D1)
    c.inst("R4.xpub-overwrite-value", "longer path wins: the entry is replaced by other's (fingerprint, path) pair", oko,
           "inserted value %s; a pair mixing the two operands exists in neither PSET" % [show(prov.operand(t["args"][1])) for _, t in occ], f.where(), fnp)
    # vacant entry inserts other's source
    vac = [(bi, t) for bi, t in b.calls(lambda t: callee_name(t).endswith("VacantEntry::<'a, K, V, A>::insert"))]
    okv = len(vac) == 1 and show(prov.operand(vac[0][1]["args"][1])) == "tuple{%s, %s}" % (F1, D1)
    c.inst("R4.xpub-vacant", "unknown xpub: other's key source inserted", okv, "", f.where(), fnp)


def _global_combination(c, prog):
    fnp = "<pset::map::global::Global as pset::map::Map>::merge"
    f = prog.fn(fnp)
    effs = effects(f.body)
    byt = {}
    for e in effs:
        tp = _target_path(e["target"])
        if tp:
            byt.setdefault(".".join(tp), []).append(e)
    sc = [e["callee"] for e in byt.get("scalars", [])]
    ok = (any("Extend" in x and x.endswith("extend") for x in sc) and any(x.endswith("::sort") or "sort" in x for x in sc)
          and any(x.endswith("dedup") for x in sc))
    c.inst("R5.scalars", "scalars: extend, sort, dedup", ok, "ops %s" % sc, f.where(), fnp)
    tm = [show(e["value"]) for e in byt.get("tx_data.tx_modifiable", []) if e["value"] is not None]
    want = "std::option::Option::Some{(std::option::Option::unwrap_or(arg1.tx_data.tx_modifiable, 0) BitOr std::option::Option::unwrap_or(arg2.tx_data.tx_modifiable, 0))}"
    c.inst("R5.tx-modifiable-or", "tx_modifiable = self | other", tm == [want], "got %s" % tm, f.where(), fnp)
    vm = [show(e["value"]) for e in byt.get("version", []) if e["value"] is not None]
    c.inst("R5.version-max", "version = max(self, other)", vm in (["std::cmp::max(arg1.version, arg2.version)"], ["std::cmp::max(arg2.version, arg1.version)"]),
           "got %s" % vm, f.where(), fnp)

"""C10 — totality of fallible public APIs: panic-site audit on every function reachable
from a fallible public entry (instance call graph), bounded-allocation rule.

Every panic-capable site must be discharged by a recognised idiom (D0..D6) or be listed in
tables/panic_sites.tsv (keyed semantically, with a reason confirmed by reading)."""
import os
import re

from ..analysis import cond_desc, events
from ..facts import VERIF, CannotDecide
from ..mir import Prov, Guards, show, callee_name, walk_term

EXCL_TRAITS = re.compile(r"^(std::fmt::|std::cmp::PartialOrd|serde::|std::error::Error)")
NAMED = re.compile(
    r"^transaction::Transaction::(txid|wtxid|size|weight|vsize|discount_weight|discount_vsize|scaled_size)$"
    r"|^transaction::TxOut::(pegout_data|minimum_value|is_fee|is_null_data)$"
    r"|^transaction::TxIn::(pegin_data|pegin_prevout)$"
    r"|^script::Script::(instructions|instructions_minimal|asm|fmt_asm)$"
    r"|^block::Block::(size|weight)$|^block::BlockHeader::block_hash$|^block::Block::block_hash$")

PANIC_CALL = re.compile(
    r"(Option::<T>::(unwrap|expect)$|Result::<T, E>::(unwrap|expect|unwrap_err|expect_err)$|core::panicking::|std::rt::begin_panic"
    r"|panic_fmt|::index$|::index_mut$|copy_from_slice$|split_at$|split_at_mut$|Vec::<T, A>::(remove|insert|swap_remove|drain|split_off)$"
    r"|unreachable|slice::<impl \[T\]>::(chunks|chunks_exact|windows)$|assert_failed|RefCell)")

LEN_CALLS = re.compile(
    r"(::len$|Encodable>::consensus_encode$|Encodable::consensus_encode$|::encoded_length$|VarInt::size$|::size$|"
    r"consensus_encode_with_size$|std::io::Write::write$|::serialized_len$|key_source_len$|::count$|::weight$|::scaled_size$|"
    r"::discount_weight$|::get_size$|usize::div_ceil$|Iterator::sum$|pset::serialize::Serialize>::serialize$|::emit_varint$|::emit_slice$|"
    r"Vec::<T, A>::capacity$|surjectionproof_len$|rangeproof_len$|saturating_sub$|Option::<T>::map_or$|::encode$|usize::saturating_add$)")


def entries(prog):
    out = []
    for p, f in prog.fns.items():
        j = f.j
        if j["kind"] == "Closure" or not j.get("reachable"):
            continue
        o = j.get("output", "")
        if NAMED.search(p):
            out.append(p)
            continue
        if not (o.startswith("std::result::Result<") or o.startswith("std::option::Option<")):
            continue
        if EXCL_TRAITS.search(j.get("impl_trait", "")):
            continue
        out.append(p)
    return sorted(out)


def detag(s):
    s = re.sub(r"@[\w]*#\d+", "", s)
    s = re.sub(r"alloc\d+", "alloc", s)
    s = re.sub(r"cyc\(\d+,\)", "cyc", s)
    return s


# ----------------------------------------------------------------- term helpers
def is_lenlike(t, depth=0):
    """sum/product of byte lengths of in-memory data and small literals"""
    if depth > 12:
        return False
    k = t[0]
    if k == "const":
        return 0 <= t[2] < (1 << 32)
    if k in ("len",):
        return True
    if k == "call":
        return bool(LEN_CALLS.search(t[1]))
    if k in ("cyc",):
        return True
    if k == "phi":
        return all(is_lenlike(x, depth + 1) for x in t[1])
    if k == "bin":
        if t[1] in ("Add", "AddWithOverflow", "Mul", "MulWithOverflow", "Sub", "SubWithOverflow", "Div", "Shr"):
            return is_lenlike(t[2], depth + 1) and is_lenlike(t[3], depth + 1)
        return False
    if k == "fld":
        # .0 of a checked-arith pair, or a usize/size field
        if t[3] == "0" and t[1][0] == "bin":
            return is_lenlike(t[1], depth + 1)
        return False
    if k == "cast":
        if len(t) > 3 and t[3] in ("u8", "u16", "u32", "bool") and t[2] in ("usize", "u64", "i64", "u128"):
            return True  # widened small integer
        return is_lenlike(t[1], depth + 1)
    if k in ("ok", "some"):
        return is_lenlike(t[1], depth + 1)
    return False


def len_of(t):
    """if t is the length of X return X (term), else None"""
    if t[0] == "len":
        return strip_view(t[1])
    if t[0] == "call" and re.search(r"(slice::<impl \[T\]>::len|Vec::<T, A>::len|script::Script::len|core::str::<impl str>::len|String::len|DerivationPath::len)$", t[1]) and t[2]:
        return strip_view(t[2][0])
    return None


def strip_view(t):
    """views of the same bytes: as_bytes, as_slice ..."""
    while t[0] == "call" and re.search(r"(::as_bytes$|::as_slice$|::as_ref$|::deref$|Script::as_bytes$)", t[1]) and t[2]:
        t = t[2][0]
    return t


class LenFacts:
    """lower/exact bounds of len(X) implied by the switch edges dominating a block"""

    def __init__(self, body, guards):
        self.b = body
        self.g = guards

    def bounds(self, bb):
        """{X_term: (lo, exact or None)}"""
        out = {}

        def upd(x, lo=None, exact=None):
            cur = out.get(x, (0, None))
            nlo = max(cur[0], lo if lo is not None else 0, exact if exact is not None else 0)
            out[x] = (nlo, exact if exact is not None else cur[1])

        for (sb, d, vals, excl) in self.g.conds(bb):
            t = d
            dty = self.b.term(sb).get("dty")
            if dty == "bool":
                truth = None
                if vals is not None:
                    truth = False if vals == [0] else True if vals == [1] else None
                else:
                    truth = True if excl == [0] else False if excl == [1] else None
                if truth is None:
                    continue
                while t[0] == "un" and t[1] == "Not":
                    t = t[2]
                    truth = not truth
                if t[0] == "call" and re.search(r"::is_empty$", t[1]) and t[2]:
                    if not truth:
                        upd(strip_view(t[2][0]), lo=1)
                    continue
                if t[0] == "bin":
                    op, a, c = t[1], t[2], t[3]
                    xa, xc = len_of(a), len_of(c)
                    if xa is not None and c[0] == "const":
                        self._cmp(upd, xa, op, c[2], truth)
                    elif xc is not None and a[0] == "const":
                        self._cmp(upd, xc, {"Lt": "Gt", "Gt": "Lt", "Le": "Ge", "Ge": "Le", "Eq": "Eq", "Ne": "Ne"}.get(op, op), a[2], truth)
            else:
                x = len_of(t)
                if x is not None and vals is not None and len(vals) == 1:
                    upd(x, exact=vals[0])
                elif x is not None and vals is None and excl:
                    # otherwise-edge of `match len { 0 => .. }`: len != each excluded value
                    if 0 in excl:
                        upd(x, lo=1)
        return out

    @staticmethod
    def _cmp(upd, x, op, c, truth):
        if not truth:
            op = {"Lt": "Ge", "Ge": "Lt", "Gt": "Le", "Le": "Gt", "Eq": "Ne", "Ne": "Eq"}.get(op, None)
            if op is None:
                return
        if op == "Eq":
            upd(x, exact=c)
        elif op == "Ge":
            upd(x, lo=c)
        elif op == "Gt":
            upd(x, lo=c + 1)
        elif op == "Ne" and c == 0:
            upd(x, lo=1)


def range_need(rt):
    """minimal length a constant range needs: returns int or None"""
    if rt[0] != "agg":
        return None
    kind = rt[1]
    ops = rt[3]

    def cint(t):
        return t[2] if t[0] == "const" else None
    if kind.endswith("RangeFull::RangeFull"):
        return 0
    if kind.endswith("RangeTo::RangeTo") or kind.endswith("RangeFrom::RangeFrom"):
        return cint(ops[0])
    if kind.endswith("RangeToInclusive::RangeToInclusive"):
        v = cint(ops[0])
        return None if v is None else v + 1
    if kind.endswith("Range::Range"):
        a, bnd = cint(ops[0]), cint(ops[1])
        if a is None or bnd is None or a > bnd:
            return None
        return bnd
    return None


# ----------------------------------------------------------------- the audit
class Site:
    def __init__(self, fn, bb, kind, what, ops, sp, cond=None):
        self.fn, self.bb, self.kind, self.what, self.ops, self.sp, self.cond = fn, bb, kind, what, ops, sp, cond


def collect_sites(fn):
    b = fn.body
    out = []
    for bi in sorted(b.reachable()):
        if b.blocks[bi]["cleanup"]:
            continue
        t = b.term(bi)
        if t["k"] == "assert" and t["ak"] not in ("Misaligned", "NullPtr", "InvalidEnum", "Other"):
            out.append(Site(fn, bi, "assert", t["ak"], t["ops"], t["sp"], t.get("cond")))
        elif t["k"] == "call":
            n = callee_name(t)
            if PANIC_CALL.search(n):
                out.append(Site(fn, bi, "call", n, t["args"], t["sp"]))
    return out


def array_len(ty):
    m = re.match(r"^&?(?:mut )?\[[^;\]]+; (\d+)\]$", ty.replace("&'a ", "&").replace("&'_ ", "&"))
    return int(m.group(1)) if m else None


def discharge(site, prov, lf, body):
    """returns (rule, note) or None"""
    k, w = site.kind, site.what
    ops = [prov.operand(o) for o in site.ops]
    if k == "assert":
        if w == "BoundsCheck":
            ln, ix = ops
            if ln[0] == "const" and ix[0] == "const" and ix[2] < ln[2]:
                return ("D0", "constant index into fixed-size array")
            x = strip_view(ln[1]) if ln[0] == "len" else None
            if x is not None and ix[0] == "const":
                lo = lf.bounds(site.bb).get(x, (0, None))[0]
                if lo > ix[2]:
                    return ("D2", "index %d < guarded length >= %d" % (ix[2], lo))
            # last element: index = len(X) - c with c >= 1 (the subtraction is audited as its own site)
            if x is not None and ix[0] == "fld" and ix[3] == "0" and ix[1][0] == "bin" and ix[1][1] == "SubWithOverflow":
                la = len_of(ix[1][2])
                if la is not None and la == x and ix[1][3][0] == "const" and ix[1][3][2] >= 1:
                    return ("D2", "index len-%d of the same slice" % ix[1][3][2])
            # index produced by enumerate()/position over the same collection
            if x is not None and ix[0] == "index" and strip_view(ix[1]) == x:
                return ("D2", "index comes from enumerate() over the same slice")
            if ln[0] == "const" and ix[0] == "bin" and ix[1] in ("BitAnd", "Rem") and ix[3][0] == "const" and ix[3][2] < ln[2] + (1 if ix[1] == "Rem" else 0):
                if ix[1] == "BitAnd" and ix[3][2] < ln[2] or ix[1] == "Rem" and ix[3][2] <= ln[2]:
                    return ("D0", "masked/reduced index into fixed-size array")
            return None
        if w.startswith("Overflow(") and len(ops) == 2 and all(o[0] == "const" for o in ops):
            # both operands are literals: evaluate in the operand type
            a_, b_ = ops[0][2], ops[1][2]
            ty = ops[0][1]
            bits = {"u8": 8, "u16": 16, "u32": 32, "u64": 64, "usize": 64, "u128": 128, "i8": 8, "i16": 16, "i32": 32, "i64": 64, "isize": 64, "i128": 128}.get(ty)
            if bits:
                lo, hi = (-(1 << (bits - 1)), (1 << (bits - 1)) - 1) if ty.startswith("i") else (0, (1 << bits) - 1)
                r = {"Add": a_ + b_, "Sub": a_ - b_, "Mul": a_ * b_}.get(w[len("Overflow("):].split(")")[0])
                if r is not None and lo <= r <= hi:
                    return ("D0", "constant operands, result %d fits %s" % (r, ty))
        if w.startswith("Overflow(Add)") or w.startswith("Overflow(Mul)"):
            if all(is_lenlike(o) for o in ops):
                return ("D4", "sum/product of byte lengths of in-memory data and small literals")
            return None
        if w.startswith("Overflow(Sub)"):
            a, c = ops
            xa = len_of(a)
            if xa is not None and c[0] == "const":
                lo = lf.bounds(site.bb).get(xa, (0, None))[0]
                if lo >= c[2]:
                    return ("D5", "len - %d under guarded len >= %d" % (c[2], lo))
            # a - c (constant) under a guard a != 0 / a > c-1 / a >= c on the same term
            if c[0] == "const":
                for (sb, d, vals, excl) in lf.g.conds(site.bb):
                    dty = body.term(sb).get("dty")
                    if dty != "bool":
                        if d == a and vals is None and excl and all(v in excl for v in range(0, c[2])):
                            return ("D5", "a - %d where a matched none of 0..%d" % (c[2], c[2] - 1))
                        continue
                    truth = (vals == [1]) if vals is not None else (excl == [0])
                    t = d
                    while t[0] == "un" and t[1] == "Not":
                        t = t[2]
                        truth = not truth
                    if t[0] == "bin" and t[2] == a and t[3][0] == "const":
                        op, k2 = t[1], t[3][2]
                        if not truth:
                            op = {"Lt": "Ge", "Ge": "Lt", "Gt": "Le", "Le": "Gt", "Eq": "Ne", "Ne": "Eq"}.get(op)
                        if (op == "Ge" and k2 >= c[2]) or (op == "Gt" and k2 + 1 >= c[2]) or (op == "Ne" and k2 == 0 and c[2] == 1):
                            return ("D5", "a - %d under a guard implying a >= %d" % (c[2], c[2]))
            # a - b dominated by a >= b on the same terms
            for (sb, d, vals, excl) in lf.g.conds(site.bb):
                if body.term(sb).get("dty") != "bool":
                    continue
                truth = (vals == [1]) if vals is not None else (excl == [0])
                t = d
                while t[0] == "un" and t[1] == "Not":
                    t = t[2]
                    truth = not truth
                if t[0] == "bin":
                    op, l, r = t[1], t[2], t[3]
                    if not truth:
                        op = {"Lt": "Ge", "Ge": "Lt", "Gt": "Le", "Le": "Gt"}.get(op)
                    if op in ("Ge", "Gt") and l == a and r == c:
                        return ("D5", "a - b under a >= b")
                    if op in ("Le", "Lt") and l == c and r == a:
                        return ("D5", "a - b under b <= a")
            return None
        if w.startswith("Overflow(Shl)") or w.startswith("Overflow(Shr)"):
            a, c = ops
            if c[0] == "const" and 0 <= c[2] < 8:
                return ("D0", "shift by a constant < 8")
            tya = None
            if c[0] == "const":
                # width of the shifted operand from the local's type
                pl = site.ops[0].get("pl")
                if pl is not None and not pl["p"]:
                    tya = body.local_ty(pl["l"])
                elif site.ops[0]["k"] == "const":
                    tya = site.ops[0]["ty"]
                bits = {"u8": 8, "i8": 8, "u16": 16, "i16": 16, "u32": 32, "i32": 32, "u64": 64, "i64": 64, "usize": 64, "isize": 64, "u128": 128, "i128": 128}.get(tya)
                if bits and c[2] < bits:
                    return ("D0", "shift by constant %d < width %d" % (c[2], bits))
            return None
        if w in ("DivisionByZero", "RemainderByZero"):
            ct = prov.operand(site.cond) if site.cond else None
            if ct and ct[0] == "bin" and ct[1] in ("Eq", "Ne"):
                dv = ct[2] if ct[3][0] == "const" and ct[3][2] == 0 else ct[3]
                if dv[0] == "const" and dv[2] != 0:
                    return ("D0", "constant non-zero divisor")
                if dv[0] == "cast" and dv[1][0] == "const" and dv[1][2] != 0:
                    return ("D0", "constant non-zero divisor")
            return None
        return None
    # calls
    n = w
    if re.search(r"::index$|::index_mut$", n) and len(ops) == 2:
        coll, rng = ops
        need = range_need(rng)
        if need is None and rng[0] == "const":
            need = rng[2] + 1
        if need == 0:
            return ("D0", "full range")
        # fixed-size arrays
        pl = site.ops[0].get("pl")
        aty = None
        if pl is not None and not pl["p"]:
            aty = array_len(body.local_ty(pl["l"]))
        if coll[0] == "repeat":
            try:
                aty = int(coll[2])
            except Exception:
                pass
        if need is not None and aty is not None and need <= aty:
            return ("D0", "constant range within fixed-size array")
        if need is not None:
            lo = lf.bounds(site.bb).get(strip_view(coll), (0, None))[0]
            if lo >= need:
                return ("D2", "range needs %d <= guarded length >= %d" % (need, lo))
        # relational: range end E with a dominating guard `len(X) >= E` on the same terms
        ends = []
        if rng[0] == "agg" and rng[3]:
            if rng[1].endswith("Range::Range"):
                ends.append(("plain", rng[3][1]))
            elif rng[1].endswith("RangeFrom::RangeFrom") or rng[1].endswith("RangeTo::RangeTo"):
                ends.append(("plain", rng[3][0]))
        if rng[0] == "call" and rng[1].endswith("RangeInclusive::<Idx>::new") and len(rng[2]) == 2:
            ends.append(("plus1", rng[2][1]))
        xcoll = strip_view(coll)
        for (mode, e) in ends:
            for (sb, d, vals, excl) in lf.g.conds(site.bb):
                if body.term(sb).get("dty") != "bool":
                    continue
                truth = (vals == [1]) if vals is not None else (excl == [0])
                t = d
                while t[0] == "un" and t[1] == "Not":
                    t = t[2]
                    truth = not truth
                if t[0] != "bin":
                    continue
                op, l, r = t[1], t[2], t[3]
                if not truth:
                    op = {"Lt": "Ge", "Ge": "Lt", "Gt": "Le", "Le": "Gt"}.get(op)
                bound = None
                if op == "Ge" and len_of(l) == xcoll:
                    bound = r
                elif op == "Le" and len_of(r) == xcoll:
                    bound = l
                if bound is None:
                    continue
                if mode == "plain" and bound == e:
                    return ("D2", "range end equals the bound of a dominating `len >= end` guard")
                if mode == "plus1" and bound[0] == "fld" and bound[3] == "0" and bound[1][0] == "bin" and bound[1][1] == "AddWithOverflow" \
                        and bound[1][2] == e and bound[1][3][0] == "const" and bound[1][3][2] >= 1:
                    return ("D2", "inclusive range end + 1 equals the bound of a dominating `len >= end + 1` guard")
        # single element X[i] with a dominating guard `i < len(X)` (or the negation of `i >= len(X)`) on the same terms
        if rng[0] != "agg" and not (rng[0] == "call" and "Range" in rng[1]):
            for (sb, d, vals, excl) in lf.g.conds(site.bb):
                if body.term(sb).get("dty") != "bool":
                    continue
                truth = (vals == [1]) if vals is not None else (excl == [0])
                t = d
                while t[0] == "un" and t[1] == "Not":
                    t = t[2]
                    truth = not truth
                if t[0] != "bin":
                    continue
                op, l, r = t[1], t[2], t[3]
                if not truth:
                    op = {"Lt": "Ge", "Ge": "Lt", "Gt": "Le", "Le": "Gt"}.get(op)
                if (op == "Lt" and l == rng and len_of(r) == xcoll) or (op == "Gt" and r == rng and len_of(l) == xcoll):
                    return ("D2", "element index under a dominating `index < len` guard on the same terms")
        # [..len(X)-c] / [len(X)-c..] on X itself (the subtraction is audited as its own site)
        if rng[0] == "agg" and (rng[1].endswith("RangeTo::RangeTo") or rng[1].endswith("RangeFrom::RangeFrom")):
            e = rng[3][0]
            if e[0] == "fld" and e[3] == "0" and e[1][0] == "bin" and e[1][1] == "SubWithOverflow":
                la = len_of(e[1][2])
                if la is not None and la == strip_view(coll):
                    return ("D2", "range bound is len(X) - n on X itself")
            la = len_of(e)
            if la is not None and la == strip_view(coll):
                return ("D2", "range bound is len(X) on X itself")
        return None
    if re.search(r"Result::<T, E>::(unwrap|expect)$", n):
        t = ops[0]
        # D1: encoding into an in-memory sink
        if t[0] == "call" and re.search(r"(consensus_encode$|consensus_encode_with_size$|::write_into$|::write_all$|::emit_\w+$|fmt_asm$|::write_str$|::write_fmt$)", t[1]):
            sink = t[2][-1] if t[2] else None
            if t[1].endswith("::write_into") or t[1].endswith("fmt_asm"):
                sink = t[2][1] if len(t[2]) > 1 else None
            s = show(sink) if sink else ""
            if re.search(r"(Vec::new\(\)|Vec::with_capacity\(|::engine\(\)|String::new\(\)|Cursor::new\(|Cursor::<T>::new\()", s):
                return ("D1", "encoding into an in-memory sink cannot fail")
        return None
    if re.search(r"Option::<T>::(unwrap|expect)$", n):
        t = ops[0]
        st = show(t)
        for d, lab in cond_desc(body, lf.g.conds(site.bb)):
            if lab == "Some" and d == "discr(%s)" % st:
                return ("D3", "unwrap under a Some guard on the same place")
            if lab == "true" and d == "std::option::Option::is_some(%s)" % st:
                return ("D3", "unwrap under is_some() on the same place")
            if lab == "false" and d == "std::option::Option::is_none(%s)" % st:
                return ("D3", "unwrap under !is_none() on the same place")
        # last()/first() under non-empty guard
        if t[0] == "call" and re.search(r"slice::<impl \[T\]>::(last|first)$", t[1]):
            lo = lf.bounds(site.bb).get(strip_view(t[2][0]), (0, None))[0]
            if lo >= 1:
                return ("D3", "first()/last() of a slice guarded non-empty")
        return None
    return None


def site_key(site, prov):
    ops = [detag(show(prov.operand(o)))[:160] for o in site.ops]
    what = re.sub(r"<[^<>]*>", "", site.what) if site.kind == "call" else site.what
    return "%s %s [%s]" % (site.kind, what, " ; ".join(ops))


def load_table():
    path = os.path.join(VERIF, "tables", "panic_sites.tsv")
    tab = {}
    if not os.path.exists(path):
        return tab
    for ln in open(path):
        ln = ln.rstrip("\n")
        if not ln or ln.startswith("#"):
            continue
        parts = ln.split("\t")
        if len(parts) < 4:
            continue
        fn, key, n, reason = parts[0], parts[1], int(parts[2]), parts[3]
        guards = [g for g in (parts[4].split(" && ") if len(parts) > 4 and parts[4] else [])]
        tab[(fn, key)] = (n, reason, guards)
    return tab


def run(c, prog, ctx):
    c.explanation = (
        "Panic-site audit. Entry set: every reachable public function/trait method returning Result or Option (excluding "
        "fmt/serde/PartialOrd/Error impls) plus the accessors named by the property. For every function instance reachable from "
        "an entry on the instance-level call graph, every panic-capable MIR site (Assert{BoundsCheck, Overflow, DivisionByZero, "
        "RemainderByZero}, unwrap/expect, panic!/unreachable!, slice/array/Vec indexing, copy_from_slice, split_at, "
        "Vec::remove/insert, chunks) must be discharged by a recognised idiom — D0 constant-safe, D1 in-memory sink, D2 length "
        "guard (interval over dominating comparisons), D3 Some guard, D4 byte-length arithmetic, D5 guarded subtraction — or be "
        "listed in tables/panic_sites.tsv with a reason confirmed by reading. Anything else is a violation. R2: every "
        "allocation sized by a decoded integer is dominated by a comparison with a constant bound.")
    c.assume("sums of byte lengths of in-memory objects do not overflow usize (64-bit target)")
    c.assume("reasons in tables/panic_sites.tsv were confirmed by reading the code; each entry is keyed by function, site kind and operand provenance")
    ents = entries(prog)
    c.stats["entries"] = len(ents)
    reach = {}
    for e in ents:
        for d in prog.inst_defs(prog.inst_reach(e)):
            reach.setdefault(d, e)
    c.stats["reachable_functions"] = len(reach)
    table = load_table()
    used = {}
    per_rule = {}
    nsites = 0
    pending = []
    for d in sorted(reach):
        fn = prog.fns.get(d)
        if fn is None:
            continue
        sites = collect_sites(fn)
        if not sites:
            continue
        b = fn.body
        prov = Prov(b)
        lf = LenFacts(b, Guards(b))
        seen_keys = {}
        for s in sites:
            nsites += 1
            r = discharge(s, prov, lf, b)
            if r is not None:
                per_rule[r[0]] = per_rule.get(r[0], 0) + 1
                c.inst("R1.discharged-" + r[0], "%s#%d" % (site_key(s, prov)[:150], seen_keys.setdefault(("d", site_key(s, prov)), 0)), True, r[1], fn.where(s.sp), d)
                seen_keys[("d", site_key(s, prov))] += 1
                continue
            key = site_key(s, prov)
            cnt = seen_keys.get(key, 0)
            seen_keys[key] = cnt + 1
            ent = table.get((d, key))
            ok = ent is not None and cnt < ent[0]
            gmiss = None
            if ok and ent[2]:
                have = {"%s=%s" % (detag(dd), ll) for dd, ll in cond_desc(b, lf.g.conds(s.bb))}
                gmiss = [g for g in ent[2] if g not in have]
                if gmiss:
                    ok = False
            if ok:
                used[(d, key)] = used.get((d, key), 0) + 1
                per_rule["T"] = per_rule.get("T", 0) + 1
                if os.environ.get("VF_C10_DUMP_TABLED"):
                    with open(os.environ["VF_C10_DUMP_TABLED"], "a") as gh:
                        gh.write("%s\t%s\t%s\n" % (d, key, " && ".join("%s=%s" % (detag(dd), ll) for dd, ll in cond_desc(b, lf.g.conds(s.bb)))))
            c.inst("R1.panic-site", "%s#%d" % (key, cnt), ok,
                   ("tabled: " + ent[1]) if ok else
                   ("the guard(s) %s that justified this tabled site (%s) no longer dominate it" % (gmiss, ent[1])) if gmiss else
                   "panic-capable site on a path from fallible entry `%s` is neither discharged by a guard idiom nor listed with a reason"
                   % reach[d], fn.where(s.sp), d)
            if not ok:
                pending.append((d, key, fn.where(s.sp)))
                if os.environ.get("VF_C10_DUMP"):
                    with open(os.environ["VF_C10_DUMP"] + ".guards", "a") as gh:
                        gh.write("%s\t%s\t%s\n" % (d, key, " && ".join("%s=%s" % (detag(dd), ll) for dd, ll in cond_desc(b, lf.g.conds(s.bb)))))
    c.stats["sites"] = nsites
    c.stats["by_rule"] = per_rule
    c.stats["table_entries"] = len(table)
    stale = [k for k in table if k not in used]
    c.stats["stale_table_entries"] = len(stale)
    c.sample({"rule": "R1", "entries": ents[:8], "sites": nsites, "by_rule": per_rule})
    if os.environ.get("VF_C10_DUMP"):
        with open(os.environ["VF_C10_DUMP"], "w") as fh:
            agg = {}
            for d, key, where in pending:
                agg.setdefault((d, key), [0, where])[0] += 1
            for (d, key), (n, where) in sorted(agg.items()):
                f2 = prog.fns[d]
                fh.write("%s\t%s\t%d\t%s\t%s\n" % (d, key, n, where, reach.get(d)))
    _alloc(c, prog, reach)
    # the reviewed-table entries of Address::from_script are discharged *under* Script::is_p2pkh/is_p2sh/is_v0_p2wpkh/is_v0_p2wsh/
    # is_v1plus_p2witprog; the bounds they quote are those predicates' truth tables, decided by C16's R1.template-table and
    # evaluated here as well (a predicate that accepts more scripts makes the guarded index or subtraction reachable)
    from . import c16 as _c16
    PRED = ("is_p2pkh", "is_p2sh", "is_v0_p2wpkh", "is_v0_p2wsh", "is_v1plus_p2witprog", "is_witness_program")
    c.borrow(_c16, "C16", prog, ctx, lambda rule, k: (rule == "R1.template-table" and k.rsplit("|", 1)[1] in PRED) or rule == "R8.classify-total", "R1.guard-predicate-table", 6)
    # likewise the two expect("n is valid") sites of LockTime::from_consensus are tabled under is_block_height(n) and its
    # negation: that the height and time predicates are exact complements at the threshold (and what Height/Time::from_consensus
    # accept) is C01's R7.locktime
    from . import c01 as _c01
    c.borrow(_c01, "C01", prog, ctx, lambda rule, k: rule == "R7.locktime" and ("is_block_" in k or "from_consensus" in k), "R1.guard-predicate-table", 4)
    c.floor("R1.discharged-D4", 100, "byte-length sums in encoders")
    c.floor("R1.discharged-D0", 40, "constant-safe sites")


# ----------------------------------------------------------------- R2 bounded allocation
ALLOC = re.compile(r"(Vec::<T>::with_capacity$|Vec::<T, A>::reserve$|Vec::<T, A>::reserve_exact$|vec::from_elem$|Vec::<T, A>::resize$|String::with_capacity$|Vec::<T, A>::with_capacity_in$)")
DECODED = re.compile(r"(Decodable>::consensus_decode$|Decodable::consensus_decode$|::read_varint$|::read_u\d+$|::read_i\d+$|read_uint$|::from_le_bytes$|u32_from_le|slice_to_u\d+)")


def _alloc(c, prog, reach):
    n = 0
    for d in sorted(reach):
        fn = prog.fns.get(d)
        if fn is None:
            continue
        b = fn.body
        prov = None
        for bi, t in b.calls(lambda t: ALLOC.search(callee_name(t)) is not None):
            prov = prov or Prov(b)
            name = callee_name(t)
            size_op = t["args"][-1] if not name.endswith("from_elem") else t["args"][1]
            if name.endswith("resize"):
                size_op = t["args"][1]
            st = prov.operand(size_op)
            tainted = any(x[0] == "call" and DECODED.search(x[1]) for x in walk_term(st))
            if not tainted:
                continue
            # sized by the length of data that is already in memory: proportional to the input
            if is_lenlike(st) and any((x[0] == "len") or (x[0] == "call" and x[1].endswith("::len")) for x in walk_term(st)):
                continue
            n += 1
            g = Guards(b)
            bounded = False
            for (sb, dd, vals, excl) in g.conds(bi):
                if b.term(sb).get("dty") != "bool":
                    continue
                t2 = dd
                truth = (vals == [1]) if vals is not None else (excl == [0])
                while t2[0] == "un" and t2[1] == "Not":
                    t2 = t2[2]
                    truth = not truth
                if t2[0] == "bin" and t2[1] in ("Gt", "Ge", "Lt", "Le"):
                    l, r = t2[2], t2[3]
                    op = t2[1]
                    if not truth:
                        op = {"Gt": "Le", "Ge": "Lt", "Lt": "Ge", "Le": "Gt"}[op]
                    core = _strip_cast(st)
                    if op in ("Le", "Lt") and _monotone_in(l, core) and _is_constish(r):
                        bounded = True
                    if op in ("Ge", "Gt") and _monotone_in(r, core) and _is_constish(l):
                        bounded = True
            c.inst("R2.bounded-allocation", "%s(%s)" % (re.sub(r"<[^<>]*>", "", name).split("::")[-1], detag(show(st))[:80]), bounded,
                   "allocation sized by a decoded integer is not dominated by a comparison with a constant bound", fn.where(t["sp"]), d)
            # when the bound is on count * size_of::<X>(), X must be the element type of the vector being allocated
            # (a bound computed with another type's size admits counts whose real allocation is far larger)
            full = t.get("callee_full") or ""
            mel = re.search(r"Vec::<(.+?)>::with_capacity$", full)
            sizes = [t2.get("callee_full") or "" for bj, t2 in b.calls(lambda t2: callee_name(t2).endswith("mem::size_of"))]
            if mel and sizes:
                c.inst("R2.bound-element-size", "%s: bound uses the size of the allocated element type" % re.sub(r"<[^<>]*>", "", name).split("::")[-1],
                       all(x == "std::mem::size_of::<%s>" % mel.group(1) for x in sizes),
                       "allocation of Vec<%s>, bound computed with %s" % (mel.group(1), sizes), fn.where(t["sp"]), d)
    c.floor("R2.bounded-allocation", 3, "encode.rs Vec<T>/Vec<u8> decoders, pset/raw.rs key")


def _strip_cast(t):
    while t[0] in ("cast", "ok", "some") or (t[0] == "fld" and t[3] == "0" and t[2].endswith("VarInt")):
        t = t[1]
    return t


def _monotone_in(t, core):
    """t is core itself or core multiplied (checked) by a compile-time size"""
    t = _strip_cast(t)
    if t == core:
        return True
    if t[0] == "call" and re.search(r"::checked_mul$", t[1]) and len(t[2]) == 2:
        return _strip_cast(t[2][0]) == core and _is_constish(t[2][1])
    if t[0] == "bin" and t[1] in ("Mul", "MulWithOverflow"):
        return (_strip_cast(t[2]) == core and _is_constish(t[3])) or (_strip_cast(t[3]) == core and _is_constish(t[2]))
    if t[0] == "fld" and t[3] == "0":
        return _monotone_in(t[1], core)
    return False


def _is_constish(t):
    if t[0] == "const":
        return True
    if t[0] == "cast":
        return _is_constish(t[1])
    if t[0] == "bin" and t[1] in ("Div", "Mul", "Add", "Sub"):
        return _is_constish(t[2]) and (_is_constish(t[3]) or (t[3][0] == "call" and "size_of" in t[3][1]))
    if t[0] == "call" and "size_of" in t[1]:
        return True
    if t[0] == "cdef":
        return True
    return False

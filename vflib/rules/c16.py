"""C16 — scripts, templates, addresses: exact truth tables of the template predicates versus
the specification table, from_script slice ranges, builder/predicate shape agreement, push
threshold tables, small-integer and verify-folding tables."""
import re

from ..analysis import bool_fn_table, events, cond_desc, err_returns, const_eval
from ..mir import Prov, Guards, show, callee_name, walk_term

S = "script::Script::"


def opcode_values(prog):
    vals = {}
    for path, cst in prog.consts.items():
        m = re.match(r"^opcodes::all::(OP_\w+)$", path)
        if m and cst.get("val"):
            mm = re.search(r"code: (\d+)_u8", cst["val"])
            if mm:
                vals[m.group(1)] = int(mm.group(1))
    return vals


def norm_atom(a, ops):
    s = a
    s = re.sub(r"opcodes::All::into_u8\(opcodes::all::(OP_\w+)\)", lambda m: str(ops.get(m.group(1), m.group(0))), s)
    s = re.sub(r"<opcodes::All as std::cmp::PartialEq>::eq\(arg1\.0\[(\d+)\], opcodes::all::(OP_\w+)\)", lambda m: "(b%s Eq %s)" % (m.group(1), ops.get(m.group(2), m.group(2))), s)
    s = s.replace("core::slice::len(arg1.0)", "len").replace("script::Script::len(arg1)", "len")
    s = re.sub(r"arg1\.0\[(\d+)\]", r"b\1", s)
    s = re.sub(r"\((b\d+) as usize\)", r"\1", s)
    s = s.replace("(len SubWithOverflow 2).0", "len-2").replace("(b1 AddWithOverflow 2).0", "b1+2")
    s = s.replace("core::slice::is_empty(arg1.0)", "empty").replace("script::Script::is_empty(arg1)", "empty")
    m = re.match(r"^\((\S+) (Eq|Ne|Lt|Le|Gt|Ge) (\S+)\)$", s)
    if m:
        lhs, opn, rhs = m.group(1), m.group(2), m.group(3)
        # canonical orientation: the constant on the right (`22 == len` is `len == 22`, `96 >= b0` is `b0 <= 96`)
        if re.fullmatch(r"\d+", lhs) and not re.fullmatch(r"\d+", rhs):
            lhs, rhs = rhs, lhs
            opn = {"Eq": "Eq", "Ne": "Ne", "Lt": "Gt", "Le": "Ge", "Gt": "Lt", "Ge": "Le"}[opn]
        op = {"Eq": "==", "Ne": "!=", "Lt": "<", "Le": "<=", "Gt": ">", "Ge": ">="}[opn]
        return "%s%s%s" % (lhs, op, rhs)
    return s


SPEC = {
    "is_p2pkh": (["len==25", "b0==118", "b1==169", "b2==20", "b23==136", "b24==172"], lambda v: all(v.values())),
    "is_p2sh": (["len==23", "b0==169", "b1==20", "b22==135"], lambda v: all(v.values())),
    "is_p2pk": (["len==67", "b0==65", "b66==172", "len==35", "b0==33", "b34==172"],
                lambda v: (v["len==67"] and v["b0==65"] and v["b66==172"]) or (not v["len==67"] and v["len==35"] and v["b0==33"] and v["b34==172"])),
    "is_v0_p2wpkh": (["len==22", "b0==0", "b1==20"], lambda v: all(v.values())),
    "is_v0_p2wsh": (["len==34", "b0==0", "b1==32"], lambda v: all(v.values())),
    "is_v1_p2tr": (["len==34", "b0==81", "b1==32"], lambda v: all(v.values())),
    "is_witness_program": (["len>=4", "len<=42", "b0==0", "b0>=81", "b0<=96", "b1>=2", "b1<=40", "len-2==b1"],
                           lambda v: v["len>=4"] and v["len<=42"] and (v["b0==0"] or (v["b0>=81"] and v["b0<=96"])) and v["b1>=2"] and v["b1<=40"] and v["len-2==b1"]),
    "is_v1plus_p2witprog": (["len>1", "len==b1+2", "b0>=81", "b0<=96", "b1>=2", "b1<=40"], lambda v: all(v.values())),
    "is_op_return": (["empty", "b0==106"], lambda v: (not v["empty"]) and v["b0==106"]),
}
# pairs of atoms that cannot hold together (the function may branch either way on them)
EXCLUSIVE = [("len==67", "len==35"), ("b0==65", "b0==33")]


def _templates(c, prog, ops):
    for name, (want_atoms, formula) in SPEC.items():
        f = prog.fn(S + name)
        atoms, table = bool_fn_table(f.body, max_atoms=10)
        natoms = [norm_atom(a, ops) for a in atoms]
        ok = table is not None and sorted(natoms) == sorted(want_atoms)
        detail = "conditions %s, specified %s" % (sorted(natoms), sorted(want_atoms))
        if ok:
            bad = None
            for bits, res in table.items():
                v = dict(zip(natoms, bits))
                if any(v.get(a) and v.get(b_) for a, b_ in EXCLUSIVE):
                    continue
                exp = bool(formula(v))
                if res != exp:
                    bad = (v, res, exp)
                    break
            ok = bad is None
            if bad:
                detail = "for %s the predicate returns %s, the template table says %s" % bad
        c.inst("R1.template-table", name, ok, detail, f.where(), f.path)
        c.sample({"rule": "R1", "predicate": name, "conditions": natoms})
    # is_provably_unspendable: OP_RETURN-led or oversized or empty
    f = prog.fn(S + "is_provably_unspendable")
    atoms, table = bool_fn_table(f.body, max_atoms=10)
    natoms = [norm_atom(a, ops) for a in atoms]
    want = ["empty", "b0==106", "len>10000", "empty"]
    ok = table is not None and sorted(set(natoms)) == sorted(set(want))
    if ok:
        for bits, res in table.items():
            v = {}
            incons = False
            for a, bit in zip(natoms, bits):
                if a in v and v[a] != bit:
                    incons = True
                v[a] = bit
            if incons:
                continue
            exp = ((not v["empty"]) and v["b0==106"]) or v["len>10000"] or v["empty"]
            if res != exp:
                ok = False
    c.inst("R1.template-table", "is_provably_unspendable", ok, "conditions %s" % natoms, f.where(), f.path)


def _from_script(c, prog):
    f = prog.fn("address::Address::from_script")
    b = f.body
    g = Guards(b)
    p = Prov(b)
    rows = {}
    for bi, t in b.calls(lambda t: re.search(r"Index<I> for \[T\]>::index$", callee_name(t)) is not None):
        cd = cond_desc(b, g.conds(bi))
        pred = [d for d, l in cd if l == "true" and d.startswith("script::Script::is_")]
        rng = show(p.operand(t["args"][1]))
        rows.setdefault(pred[-1] if pred else "?", set()).add(re.sub(r"std::ops::\w+::", "", rng))
    want = {"script::Script::is_p2pkh(arg1)": {"Range{3, 23}"}, "script::Script::is_p2sh(arg1)": {"Range{2, 22}"},
            "script::Script::is_v0_p2wpkh(arg1)": {"Range{2, 22}"}, "script::Script::is_v0_p2wsh(arg1)": {"Range{2, 34}"},
            "script::Script::is_v1plus_p2witprog(arg1)": {"RangeFrom{2}"}}
    c.inst("R2.from-script-ranges", "payload bytes: p2pkh [3..23], p2sh [2..22], wpkh [2..22], wsh [2..34], v1+ [2..]", rows == want, "ranges %s" % {k: sorted(v) for k, v in rows.items()}, f.where(), f.path)
    ver = [show(p.operand(t["args"][0])) for bi, t in b.calls(lambda t: "TryFrom<u8>>::try_from" in callee_name(t))]
    c.inst("R2.from-script-version", "version = first opcode - 0x50", ver == ["(script::Script::as_bytes(arg1)[0] SubWithOverflow 80).0"], "version term %s" % ver, f.where(), f.path)
    # order of the predicate chain: the specific templates before the generic v1+ one
    order = []
    for bi in b.rpo():
        t = b.term(bi)
        if t["k"] == "call" and callee_name(t).startswith("script::Script::is_"):
            order.append(callee_name(t).split("::")[-1])
    c.inst("R2.from-script-dispatch", "is_p2pkh, is_p2sh, is_v0_p2wpkh, is_v0_p2wsh, is_v1plus_p2witprog, else None",
           order == ["is_p2pkh", "is_p2sh", "is_v0_p2wpkh", "is_v0_p2wsh", "is_v1plus_p2witprog"], "order %s" % order, f.where(), f.path)


def _builder_seq(prog, fn, ops, conds_filter=None):
    """sequence of builder operations of a function: [('op', value) | ('slice', term) | ('int', term)]"""
    b = fn.body
    g = Guards(b)
    p = Prov(b)
    seq = []
    for e in events(b, lambda t: re.search(r"script::Builder::(push_opcode|push_slice|push_int)$", callee_name(t)) is not None, prov=p, guards=g):
        if conds_filter and not conds_filter(cond_desc(b, e["conds"])):
            continue
        n = e["name"].split("::")[-1]
        a = e["args"][1]
        if n == "push_opcode":
            s = show(a)
            m = re.match(r"opcodes::all::(OP_\w+)$", s)
            seq.append(("op", ops.get(m.group(1)) if m else s))
        elif n == "push_slice":
            seq.append(("slice", show(a)))
        else:
            seq.append(("int", show(a)))
    return seq


def _shapes(c, prog, ops):
    want = {
        "new_p2pkh": [("op", 118), ("op", 169), ("slice", 20), ("op", 136), ("op", 172)],
        "new_p2sh": [("op", 169), ("slice", 20), ("op", 135)],
    }
    for name, w in want.items():
        f = prog.fn(S + name)
        seq = _builder_seq(prog, f, ops)
        got = [(k, v) if k == "op" else (k, 20) for k, v in seq]
        c.inst("R3.builder-shape", name, got == w, "builder emits %s; the predicate expects opcodes %s" % (seq, w), f.where(), f.path)
    fa = prog.fn("address::Address::script_pubkey")
    for variant, w in (("PubkeyHash", want["new_p2pkh"]), ("ScriptHash", want["new_p2sh"])):
        seq = _builder_seq(prog, fa, ops, lambda cd, variant=variant: ("discr(arg1.payload)", variant) in cd)
        got = [(k, v) if k == "op" else (k, 20) for k, v in seq]
        c.inst("R3.builder-shape", "Address::script_pubkey/" + variant, got == w, "builder emits %s" % seq, fa.where(), fa.path)
    seq = _builder_seq(prog, fa, ops, lambda cd: ("discr(arg1.payload)", "WitnessProgram") in cd)
    okw = len(seq) == 2 and seq[0][0] == "int" and "Fe32::to_u8(arg1.payload.version)" in seq[0][1] and seq[1] == ("slice", "arg1.payload.program")
    c.inst("R3.builder-shape", "Address::script_pubkey/WitnessProgram", okw, "builder emits %s" % seq, fa.where(), fa.path)
    # new_witness_program: version opcode = ver (0) or ver + 0x50, then the program
    fw = prog.fn(S + "new_witness_program")
    b = fw.body
    p = Prov(b)
    g = Guards(b)
    adds = set()
    for bi in sorted(b.reachable()):
        for s in b.stmts(bi):
            if s["k"] == "assign" and s["rv"]["k"] == "bin" and s["rv"]["op"] in ("Add", "AddWithOverflow"):
                adds.add((show(p.operand(s["rv"]["b"])), tuple(cond_desc(b, g.conds(bi)))))
    okv = any(a == "80" and any(" Gt 0)" in d and l == "true" for d, l in cd) for a, cd in adds)
    seq = _builder_seq(prog, fw, ops)
    c.inst("R3.witness-program-builder", "version opcode = 0 or 0x50 + version; then push(program)", okv and len(seq) == 2 and seq[1] == ("slice", "arg2"), "adds %s, builder %s" % (sorted(adds), seq), fw.where(), fw.path)


def _thresholds(c, prog, ops):
    f = prog.fn("script::Builder::push_slice")
    b = f.body
    g = Guards(b)
    p = Prov(b)
    cmps = set()
    for (sb, tb, vals, excl) in g.switch_edges():
        d = p.operand(b.term(sb)["d"])
        if d[0] == "bin" and d[1] == "Lt":
            k = const_eval(d[3])
            if k is None:
                m = re.search(r"opcodes::Ordinary::(OP_\w+)", show(d[3]))
                k = ops.get(m.group(1)) if m else show(d[3])
            cmps.add(k)
    c.inst("R4.push-thresholds", "push_slice arms: < 76 direct, < 0x100 PUSHDATA1, < 0x10000 PUSHDATA2, < 0x100000000 PUSHDATA4",
           cmps == {76, 0x100, 0x10000, 0x100000000}, "thresholds %s" % sorted(map(str, cmps)), f.where(), f.path)
    # emitted push opcodes per arm
    emitted = []
    for e in events(b, lambda t: callee_name(t).endswith("Vec::<T, A>::push")):
        s = show(e["args"][1])
        m = re.search(r"opcodes::Ordinary::(OP_PUSHDATA\d)", s)
        if m:
            emitted.append(m.group(1))
    c.inst("R4.push-opcodes", "PUSHDATA1/2/4 emitted in that order of arms", emitted == ["OP_PUSHDATA1", "OP_PUSHDATA2", "OP_PUSHDATA4"], "emitted %s" % emitted, f.where(), f.path)
    fn = prog.fn("<script::Instructions<'a> as std::iter::Iterator>::next")
    bn = fn.body
    gn = Guards(bn)
    errs = err_returns(bn)
    nm = set()
    for bi, t in bn.calls():
        pass
    pn = Prov(bn)
    mins = set()
    for bi in sorted(bn.reachable()):
        for s in bn.stmts(bi):
            if s["k"] == "assign" and s["rv"]["k"] == "agg" and s["rv"].get("variant") == "NonMinimalPush":
                for d, l in cond_desc(bn, gn.conds(bi)):
                    m = re.search(r" Lt (\d+)\)$", d)
                    if m and l == "true" and "read_uint" in d:
                        w = re.search(r"RangeFrom\{1\}\), (\d)\)", d)
                        mins.add((int(w.group(1)) if w else None, int(m.group(1))))
    c.inst("R4.minimal-push-thresholds", "enforce_minimal: PUSHDATA1 needs n >= 76, PUSHDATA2 n >= 0x100, PUSHDATA4 n >= 0x10000",
           mins == {(1, 76), (2, 0x100), (4, 0x10000)}, "(width, bound) pairs %s" % sorted(mins), fn.where(), fn.path)
    # operand widths of read_uint per opcode in next() and fmt_asm
    for fnp in ("<script::Instructions<'a> as std::iter::Iterator>::next", "script::Script::fmt_asm"):
        ff = prog.fn(fnp)
        bb_ = ff.body
        gg = Guards(bb_)
        pp = Prov(bb_)
        widths = {}
        for bi, t in bb_.calls(lambda t: callee_name(t) == "script::read_uint"):
            w = const_eval(pp.operand(t["args"][1]))
            cd = cond_desc(bb_, gg.conds(bi))
            inv = {v: k for k, v in ops.items()}
            oc = [l for d, l in cd if l.startswith("OP_PUSHDATA")] + [inv.get(int(l[1:]), l) for d, l in cd if d.endswith(".code") and re.match(r"^=\d+$", l)]
            widths[oc[-1] if oc else "?"] = w
        c.inst("R4.pushdata-widths", fnp.split("::")[-1], widths == {"OP_PUSHDATA1": 1, "OP_PUSHDATA2": 2, "OP_PUSHDATA4": 4}, "widths %s" % widths, ff.where(), fnp)


def _ints_and_verify(c, prog, ops):
    f = prog.fn("script::Builder::push_int")
    b = f.body
    p = Prov(b)
    g = Guards(b)
    ev = events(b, lambda t: callee_name(t).endswith("Builder::push_opcode") or callee_name(t).endswith("Builder::push_scriptint"))
    rows = []
    for e in ev:
        rows.append((e["name"].split("::")[-1], show(e["args"][1], -9), [(d, l) for d, l in cond_desc(b, e["conds"])]))
    small = [r for r in rows if r[0] == "push_opcode" and "SubWithOverflow 1" in r[1]]
    TRUE = ops.get("OP_PUSHNUM_1", 81)
    oks = len(small) == 1 and small[0][1].startswith("(((arg2 SubWithOverflow 1).0 AddWithOverflow ") and "opcodes::All::into_u8(opcodes::OP_TRUE)" in small[0][1]
    zero = [r for r in rows if r[0] == "push_opcode" and any("Eq 0)" in d and l == "true" for d, l in r[2])]
    okz = len(zero) == 1 and zero[0][1] in ("opcodes::OP_FALSE", "opcodes::all::OP_PUSHBYTES_0")
    other = [r for r in rows if r[0] == "push_scriptint"]
    c.inst("R5.push-int-table", "-1 and 1..=16 => OP_TRUE - 1 + n; 0 => OP_FALSE; else script number", oks and okz and len(other) == 1,
           "rows %s" % [(r[0], r[1][:80]) for r in rows], f.where(), f.path)
    # the range test of the small-int arm
    conds = {d for r in small for d, l in r[2]} | {show(p.operand(b.term(sb)["d"])) for (sb, tb, vals, excl) in g.switch_edges()}
    okr = any("(arg2 Eq -1)" in d for d in conds) and any("(arg2 Ge 1)" in d for d in conds) and any("(arg2 Le 16)" in d for d in conds)
    c.inst("R5.push-int-range", "small-integer arm: data == -1 || (data >= 1 && data <= 16)", okr, "conditions %s" % sorted(conds), f.where(), f.path)
    tv = show(prog.static_init("opcodes::OP_TRUE") or ("unk",))
    fv_ = show(prog.static_init("opcodes::OP_FALSE") or ("unk",))
    c.inst("R5.op-true", "OP_TRUE = OP_PUSHNUM_1 (0x51), OP_FALSE = OP_PUSHBYTES_0 (0x00)",
           tv == "opcodes::all::OP_PUSHNUM_1" and fv_ == "opcodes::all::OP_PUSHBYTES_0" and ops.get("OP_PUSHNUM_1") == 0x51 and ops.get("OP_PUSHBYTES_0") == 0,
           "OP_TRUE = %s, OP_FALSE = %s" % (tv, fv_), None, "opcodes::OP_TRUE")
    fv = prog.fn("script::Builder::push_verify")
    bv = fv.body
    gv = Guards(bv)
    pv = Prov(bv)
    table = {}
    for e in events(bv, lambda t: callee_name(t).endswith("Builder::push_opcode")):
        out = show(e["args"][1])
        cd = cond_desc(bv, e["conds"])
        inv = {v: k for k, v in ops.items()}
        src = [inv.get(int(l[1:]), l) for d, l in cd if d.endswith(".code") and re.match(r"^=\d+$", l)]
        table[src[-1] if src else "*"] = out.split("::")[-1]
    want = {"OP_EQUAL": "OP_EQUALVERIFY", "OP_NUMEQUAL": "OP_NUMEQUALVERIFY", "OP_CHECKSIG": "OP_CHECKSIGVERIFY", "OP_CHECKMULTISIG": "OP_CHECKMULTISIGVERIFY",
            "OP_CHECKSIGFROMSTACK": "OP_CHECKSIGFROMSTACKVERIFY", "*": "OP_VERIFY"}
    c.inst("R5.verify-folding", "each of the five opcodes folds into its own *VERIFY, anything else appends OP_VERIFY", table == want, "table %s" % table, fv.where(), fv.path)
    pops = [bi for bi, t in bv.calls(lambda t: callee_name(t).endswith("Vec::<T, A>::pop"))]
    c.inst("R5.verify-folding-pops", "the folded opcode is removed first (5 pops)", len(pops) == 5, "pops %d" % len(pops), fv.where(), fv.path)
    # numeric values of the pairs: X_VERIFY = X + 1 for the five
    okp = all(ops.get(v) == ops.get(k, -9) + 1 for k, v in want.items() if k != "*")
    c.inst("R5.verify-opcode-values", "opcode values of each pair are adjacent", okp, "values %s" % {k: (ops.get(k), ops.get(v)) for k, v in want.items() if k != "*"}, None, "opcodes::all")
    fs = prog.fn("script::Builder::push_slice")
    from ..analysis import effects
    resets = [e for e in effects(fs.body) if e["kind"] == "assign" and e["target"][0] == "fld" and e["target"][3] == "1"]
    c.inst("R5.push-slice-resets-memo", "push_slice clears the last-opcode memo", any("None" in show(e["value"]) for e in resets), "assignments %s" % [show(e["value"]) for e in resets], fs.where(), fs.path)


def _views(c, prog):
    """R7: the accessors every template predicate, builder and address conversion reads a script through are the identity on
    the stored bytes, and a pushed opcode is appended as its own code byte and remembered as the last opcode."""
    from ..analysis import effects
    S = "script::"
    table = {
        S + "Script::len": "core::slice::len(arg1.0)",
        S + "Script::as_bytes": "arg1.0",
        S + "Script::is_empty": "core::slice::is_empty(arg1.0)",
        S + "Script::into_bytes": "std::slice::into_vec(arg1.0)",
        S + "Script::to_bytes": "std::slice::into_vec(arg1.0)",
        S + "Builder::into_script": "script::Script::Script{std::vec::Vec::into_boxed_slice(arg1.0)}",
        "<script::Script as std::convert::From<std::vec::Vec<u8>>>::from": "script::Script::Script{std::vec::Vec::into_boxed_slice(arg1)}",
        "opcodes::All::into_u8": "arg1.code",
        "<opcodes::All as std::convert::From<u8>>::from": "opcodes::All::All{arg1}",
        S + "Builder::push_scriptint": "script::Builder::push_slice(arg1, script::build_scriptint(arg2))",
    }
    for fnp, want in table.items():
        f = prog.fn(fnp)
        t = show(Prov(f.body).local(0), -30)
        c.inst("R7.byte-views", fnp.split("::", 1)[1] if fnp.startswith("script::") else fnp, t == want, "returns %s" % t[:200], f.where(), fnp)
    for fnp, want in ((S + "Script::new", r"^script::Script::Script\{std::vec::Vec::into_boxed_slice\(std::vec::Vec::new\(\)(@#\d+)?\)\}$"),
                      (S + "Builder::new", r"^script::Builder::Builder\{std::vec::Vec::new\(\)(@#\d+)?, std::option::Option::None\{\}\}$")):
        f = prog.fn(fnp)
        t = show(Prov(f.body).local(0), -30)
        c.inst("R7.byte-views", fnp.split("::", 1)[1], re.match(want, t) is not None, "returns %s" % t[:200], f.where(), fnp)
    f = prog.fn(S + "Builder::push_opcode")
    ef = [(e["kind"], e["callee"], show(e["target"], -20), show(e["value"], -20) if e.get("value") is not None else [show(a, -20) for a in e.get("args", [])])
          for e in effects(f.body) if e["kind"] in ("mutarg", "assign")]
    c.inst("R7.byte-views", "Builder::push_opcode appends the code byte and records the opcode",
           ef == [("mutarg", "std::vec::Vec::<T, A>::push", "arg1.0", ["arg1.0", "opcodes::All::into_u8(arg2)"]), ("assign", None, "arg1.1", "std::option::Option::Some{arg2}")]
           and show(Prov(f.body).local(0), -9) == "arg1", "effects %s" % ef, f.where(), f.path)
    # Builder::from(bytes): the remembered last opcode is the *last instruction* when it is an opcode, nothing otherwise (push_verify
    # folds into it; remembering an earlier opcode makes a following data push look like that opcode)
    fb_ = prog.fn("<script::Builder as std::convert::From<std::vec::Vec<u8>>>::from")
    tb = show(Prov(fb_.body).local(0), -40)
    LAST = "std::iter::Iterator::last(script::Script::instructions(script::Script::Script{std::vec::Vec::into_boxed_slice(arg1)}))"
    okb = (tb == "script::Builder::Builder{script::Script::into_bytes(script::Script::Script{std::vec::Vec::into_boxed_slice(arg1)}), "
                 "phi(std::option::Option::None{} | std::option::Option::Some{ok(some(%s)).0})}" % LAST
           or tb == "script::Builder::Builder{script::Script::into_bytes(script::Script::Script{std::vec::Vec::into_boxed_slice(arg1)}), "
                    "phi(std::option::Option::Some{ok(some(%s)).0} | std::option::Option::None{})}" % LAST)
    c.inst("R7.byte-views", "Builder::from(bytes): same bytes, last_op = the last instruction if it is an opcode", okb, "returns %s" % tb[:300], fb_.where(), fb_.path)
    c.floor("R7.byte-views", 14)


def _classify_total(c, prog, ops):
    """R8: Instructions::next and fmt_asm classify every opcode byte in the Legacy context; the Ordinary arm unwraps
    Ordinary::try_from_all. Exhaustive table over all 256 codes: whenever the Legacy classification ends in the Ordinary arm,
    the code is in the ordinary-opcode table (otherwise iterating a script that contains that byte panics)."""
    from .c15 import Fn, decide
    C = Fn(prog, "opcodes::All::classify")
    T = Fn(prog, "opcodes::Ordinary::try_from_all")
    leaves = {"arg1.code": "c", "discr(arg2)": "ctx"}
    env0 = {}
    for name, v in ops.items():
        leaves["opcodes::all::%s.code" % name] = "K_" + name
        env0["K_" + name] = v
    LEGACY = None
    for v in prog.types["opcodes::ClassifyContext"]["variants"]:
        if v["name"] == "Legacy":
            LEGACY = v.get("discr", v.get("idx"))
    if LEGACY is None:
        LEGACY = [v["name"] for v in prog.types["opcodes::ClassifyContext"]["variants"]].index("Legacy")
    bad, undec, n_ord = [], [], 0
    for code in range(256):
        r = decide(C.L, dict(env0, c=code, ctx=int(LEGACY)), leaves)
        if r[0] != "ret":
            undec.append((code, r))
            continue
        if "try_from_all" in r[1]:
            n_ord += 1
            t = decide(T.L, dict(env0, c=code), leaves)
            if not (t[0] == "ret" and t[1].startswith("std::option::Option::Some")):
                bad.append(code)
    c.inst("R8.classify-total", "Legacy context: every code classified Ordinary is in the ordinary-opcode table (256 codes)", not bad and not undec and n_ord >= 40,
           "codes reaching the unwrap without a table entry: %s; undecided %s; ordinary codes %d" % ([hex(x) for x in bad[:8]], undec[:2], n_ord), C.f.where(), C.f.path)


def _scriptint_reader(c, prog):
    """R9: what read_scriptint refuses. Builder::push_int/push_scriptint write any i64 through build_scriptint (at most 9 bytes);
    the reader's only refusal is more than four bytes (NumericOverflow) — the decidable part of "integers pushed as script
    numbers read back to the same value": no further rejection (a minimality or range test) stands between a written number
    of at most four bytes and its value. The arithmetic of the two loops is not decided."""
    from ..analysis import err_returns
    f = prog.fn("script::read_scriptint")
    errs = [(str(e[1]), [(d, l) for d, l in e[2]]) for e in err_returns(f.body)]
    ok = (len(errs) == 1 and "NumericOverflow" in errs[0][0]
          and any(d in ("(core::slice::len(arg1) Gt 4)", "(core::slice::len(arg1) Ge 5)") and l == "true" for d, l in errs[0][1])
          and all("len(arg1)" in d for d, l in errs[0][1]))
    c.inst("R9.scriptint-reader-refusals", "read_scriptint fails only for more than four bytes", ok, "error returns %s" % [(a[:60], b) for a, b in errs], f.where(), f.path)


def run(c, prog, ctx):
    c.explanation = (
        "Static decision of the structural clauses of C16: (R1) the exact truth table of every template predicate over its own "
        "atomic conditions (length and byte comparisons with evaluated opcode constants) equals the specification table "
        "(p2pkh, p2sh, p2pk, v0 wpkh/wsh, v1 p2tr, witness program 2..40 bytes with len = b1 + 2, v1+ programs, op_return, "
        "provably unspendable); (R2) Address::from_script selects the payload bytes with the ranges the guarding predicate "
        "establishes and dispatches specific templates before the generic one; (R3) the builders emit the opcodes the predicates "
        "test at the same positions; (R4) the push-size thresholds of Builder::push_slice, the minimal-push thresholds of "
        "Instructions::next and the PUSHDATA operand widths agree; (R5) small-integer and verify-folding tables. Script-number "
        "arithmetic (build_scriptint/read_scriptint) is not decided.")
    ops = opcode_values(prog)
    c.stats["opcode_constants"] = len(ops)
    _templates(c, prog, ops)
    _from_script(c, prog)
    _shapes(c, prog, ops)
    _thresholds(c, prog, ops)
    _ints_and_verify(c, prog, ops)
    _views(c, prog)
    _classify_total(c, prog, ops)
    _scriptint_reader(c, prog)
    # last clause of the property — "its text form parses back to the same address" — is C06's subject: its rules (payload
    # layouts, program-length and padding tables of the blech32 reader, prefix matching, variant by version) are evaluated here too
    if not ctx.get("no_deps"):
        from . import c06 as _c06
        c.borrow(_c06, "C06", prog, ctx, lambda rule, k: True, "R6.text-form", 20)
    c.floor("R1.template-table", 10, "ten predicates")

"""Rule-instance bookkeeping, evidence files, violation reports, known findings."""
import hashlib
import json
import os
import re
import time

from .facts import VERIF, CannotDecide

KNOWN = os.path.join(VERIF, "KNOWN_FINDINGS.txt")


def load_known():
    """returns {property: {key: description}} for `finding:` lines (fixed: lines suppress nothing)"""
    out = {}
    if not os.path.exists(KNOWN):
        return out
    for line in open(KNOWN):
        line = line.strip()
        if not line.startswith("finding:"):
            continue
        m = re.match(r"finding:\s+property=(\S+)\s+key=(\S+)\s*(.*)$", line)
        if m:
            out.setdefault(m.group(1), {})[m.group(2)] = m.group(3)
    return out


class Check:
    def __init__(self, pid, tier, level="other"):
        self.pid = pid
        self.tier = tier
        self.level = level
        self.t0 = time.time()
        self.instances = []      # (rule, key, ok, detail, where)
        self.samples = []
        self.floors = {}
        self.notes = []
        self.assumptions = []
        self.stats = {}
        self.explanation = ""
        self.extra_cov = {}

    # ---- recording
    def inst(self, rule, key, ok, detail="", where=None, fn=None):
        """one evaluated rule instance. key identifies the construct semantically (no line numbers)."""
        k = "%s|%s|%s" % (rule, fn or "-", key)
        self.instances.append((rule, k, bool(ok), detail, where))
        return ok

    def sample(self, obj):
        if len(self.samples) < 60:
            self.samples.append(obj)

    def floor(self, rule, n, why=""):
        self.floors[rule] = (n, why)

    def count(self, rule):
        return sum(1 for i in self.instances if i[0] == rule)

    def note(self, s):
        self.notes.append(s)

    def assume(self, s):
        if s not in self.assumptions:
            self.assumptions.append(s)

    def borrow(self, module, src_pid, prog, ctx, select, new_rule, floor):
        """evaluate another property's rule module and adopt the instances selected by `select(rule, key)` under `new_rule`.
        Used where a clause of this property rests on a fact that another property's rule already decides (the same
        source construct serves both); the instance is re-evaluated on the current tree on every run, not copied."""
        from .facts import CannotDecide
        sub = Check(src_pid, self.tier)
        asked = set(getattr(prog, "asked", ()))
        try:
            module.run(sub, prog, dict(ctx, no_deps=True))
        finally:
            if hasattr(prog, "asked"):
                prog.asked = asked       # the borrowed module's anchors are not this property's (vflib/deps.py)
        n = 0
        for (rule, k, okk, detail, where) in sub.instances:
            if select(rule, k):
                parts = k.split("|")
                self.instances.append((new_rule, "|".join([new_rule] + parts[1:]), okk, "[%s %s] %s" % (src_pid, rule, detail), where))
                n += 1
        if n < floor and not any(not i[2] for i in self.instances if i[0] == new_rule):
            # fewer instances than confirmed on the pinned tree and none of them failing: the selection went vacuous
            raise CannotDecide("%s's rules selected for %s produced %d instance(s), expected at least %d" % (src_pid, new_rule, n, floor))
        return n

    # ---- finishing
    def finish(self):
        known = load_known().get(self.pid, {})
        viol = [i for i in self.instances if not i[2]]
        new = []
        seen_keys = set()
        for (rule, k, ok, detail, where) in viol:
            if k in seen_keys:
                continue
            seen_keys.add(k)
            if k in known:
                print("KNOWN-FINDING: property=%s %s :: %s" % (self.pid, k, known[k] or detail))
            else:
                new.append((rule, k, detail, where))
        rdir = os.path.join(VERIF, "reports", self.pid)
        lines = []
        for (rule, k, detail, where) in new:
            os.makedirs(rdir, exist_ok=True)
            h = hashlib.sha256(k.encode()).hexdigest()[:16]
            path = os.path.join(rdir, h + ".json")
            with open(path, "w") as fh:
                json.dump({"property": self.pid, "rule": rule, "key": k, "detail": detail, "where": where,
                           "tier": self.tier}, fh, indent=1)
            print("  violation: %s\n    at %s\n    %s" % (k, where, detail))
            lines.append("VIOLATION property=%s replay=%s" % (self.pid, path))
        self.write_evidence(len(new))
        for l in lines:
            print(l)
        if new:
            return 1
        # floors: a rule that matched fewer instances than were confirmed by hand passes
        # vacuously; that is a checker failure (cannot decide), never a silent pass
        for rule, (n, why) in self.floors.items():
            cnt = self.count(rule)
            if cnt < n:
                raise CannotDecide("rule %s matched %d instances, floor is %d (%s)" % (rule, cnt, n, why))
        return 0

    def write_evidence(self, nviol):
        if os.environ.get("VF_NO_EVIDENCE"):
            return      # runs against deliberately modified trees (seeds, rewrites) must not overwrite the evidence of /repo
        rules = sorted({i[0] for i in self.instances})
        distinct = len({i[1] for i in self.instances})
        per_rule = {r: self.count(r) for r in rules}
        cov = {
            "explanation": self.explanation,
            "evaluations": len(self.instances),
            "distinct_nontrivial": distinct,
            "rule": "one evaluation = one rule instance: a (rule, function, construct) triple extracted from "
                    "the type-checked MIR/constants of /repo's current tree and compared with its "
                    "specification; distinct = distinct triples; a rule that matches no construct contributes 0",
            "samples": self.samples[:60] or [{"rule": i[0], "key": i[1], "ok": i[2], "detail": i[3]} for i in self.instances[:20]],
            "rule_instances": per_rule,
            "floors": {r: n for r, (n, _) in self.floors.items()},
            "stats": self.stats,
            "notes": self.notes,
        }
        cov.update(self.extra_cov)
        ev = {
            "property_id": self.pid,
            "tier": self.tier,
            "seed": int(os.environ.get("VERIF_SEED", "0") or 0),
            "level": self.level,
            "coverage": cov,
            "assumptions": self.assumptions,
            "wall_s": round(time.time() - self.t0, 3),
            "violations": nviol,
        }
        os.makedirs(os.path.join(VERIF, "evidence"), exist_ok=True)
        with open(os.path.join(VERIF, "evidence", self.pid + ".json"), "w") as fh:
            json.dump(ev, fh, indent=1, default=str)

"""Evaluation of extracted integer/boolean terms on concrete valuations of their leaves.
This evaluates *terms the checker extracted* (guards, counters, indices) to compare them as
functions with a specification; it never executes the library."""
import re

from .mir import show

MASK = {"u8": 0xff, "u16": 0xffff, "u32": 0xffffffff, "u64": (1 << 64) - 1, "usize": (1 << 64) - 1}


class NoEval(Exception):
    pass


def ieval(t, env, leaves=None):
    """env: {var-name or leaf-key: int}; leaves: {shown term: key in env}"""
    if leaves:
        s = show(t, -12)
        if s in leaves:
            return env[leaves[s]]
    k = t[0]
    if k == "const":
        return t[2]
    if k == "var":
        if t[1] not in env:
            raise NoEval("unbound %s" % t[1])
        return env[t[1]]
    if k == "arg":
        key = "arg%d" % t[1]
        if key in env:
            return env[key]
        raise NoEval(key)
    if k == "cast":
        v = ieval(t[1], env, leaves)
        return v & MASK.get(t[2], (1 << 64) - 1)
    if k == "fld" and t[3] == "0" and t[1][0] == "bin" and t[1][1].endswith("WithOverflow"):
        return ieval(("bin", t[1][1].replace("WithOverflow", ""), t[1][2], t[1][3]), env, leaves)
    if k == "bin":
        a, b = ieval(t[2], env, leaves), ieval(t[3], env, leaves)
        op = t[1]
        if op in ("Shl", "Shr") and not 0 <= b < 64:
            raise NoEval("shift")
        if op in ("Rem", "Div") and b == 0:
            raise NoEval("div0")
        f = {"Add": lambda: a + b, "Sub": lambda: a - b, "Mul": lambda: a * b, "Shl": lambda: a << b, "Shr": lambda: a >> b,
             "BitAnd": lambda: a & b, "BitOr": lambda: a | b, "BitXor": lambda: a ^ b, "Eq": lambda: int(a == b), "Ne": lambda: int(a != b),
             "Lt": lambda: int(a < b), "Le": lambda: int(a <= b), "Gt": lambda: int(a > b), "Ge": lambda: int(a >= b),
             "Rem": lambda: a % b, "Div": lambda: a // b}.get(op)
        if f is None:
            raise NoEval(op)
        return f()
    if k == "un" and t[1] == "Not":
        return int(not ieval(t[2], env, leaves))
    if k in ("call", "len") and "#n" in env:
        if (k == "call" and re.search(r"slice::<impl \[T\]>::len$|Vec::<T, A>::len$", t[1]) and t[2] == (("arg", 1),)) or (k == "len" and t[1] == ("arg", 1)):
            return env["#n"]
    raise NoEval(show(t, -6))

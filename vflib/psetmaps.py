"""Extraction of the PSET key-type tables: writer side (Map::get_pairs) and reader side
(Map::insert_pair + the hand-written Decodable loops) of Global, Input and Output."""
import re

from .analysis import events, cond_desc, effects
from .mir import Prov, Guards, show, callee_name, walk_term

MAPS = {
    "Global": "pset::map::global::Global",
    "Input": "pset::map::input::Input",
    "Output": "pset::map::output::Output",
}


def _first_field(t, roots=(("arg", 1),)):
    """field path of a term rooted at one of roots, ignoring some/elem wrappers"""
    path = []
    while True:
        if t[0] == "fld":
            path.append(t[3])
            t = t[1]
        elif t[0] in ("some", "ok", "elem", "next", "index"):
            t = t[1]
        else:
            break
    if t in roots:
        return list(reversed(path))
    return None


def _ser_call(t):
    """(type, inner term) if t is <T as pset::serialize::Serialize>::serialize(x)"""
    if t[0] == "call":
        m = re.match(r"^<(.*) as pset::serialize::Serialize>::serialize$", t[1])
        if m and t[2]:
            return m.group(1), t[2][0]
    return None


def writer_table(prog, owner):
    fn = prog.fn("<%s as pset::map::Map>::get_pairs" % owner)
    b = fn.body
    rows = []
    for e in events(b, lambda t: callee_name(t).endswith("Vec::<T, A>::push")):
        v = e["args"][1]
        if v[0] != "agg" or not v[1].endswith("raw::Pair::Pair"):
            continue
        key, val = v[3][0], v[3][1]
        row = {"ktype": None, "subtype": None, "keyed": False, "field": None, "ty": None, "kty": None, "raw": show(v, -9)[:200],
               "conds": cond_desc(b, e["conds"])}
        if key[0] == "agg" and key[1].endswith("raw::Key::Key"):
            tv, kb = key[3][0], key[3][1]
            row["ktype"] = tv[2] if tv[0] == "const" else show(tv)
            sc = _ser_call(kb)
            if sc:
                row["keyed"] = True
                row["kty"] = sc[0]
            elif kb[0] == "call" and not kb[1].startswith("std::vec::Vec::<T>::new") and not (len(kb) > 4 and kb[4]):
                row["keyed"] = True
                row["kty"] = show(kb)[:80]
        elif key[0] == "call" and key[1].endswith("ProprietaryKey::<Subtype>::to_key") or key[0] == "call" and "to_key" in key[1]:
            inner = key[2][0]
            row["ktype"] = 0xFC
            if inner[0] == "call" and inner[1].endswith("from_pset_pair"):
                st = inner[2][0]
                row["subtype"] = st[2] if st[0] == "const" else show(st)
                kb = inner[2][1]
                if not (kb[0] == "call" and len(kb) > 4):
                    row["keyed"] = True
                    row["kty"] = show(kb)[:80]
            else:
                row["subtype"] = "*"
        else:
            row["ktype"] = "*"
        sc = _ser_call(val)
        inner = val
        if sc:
            row["ty"] = sc[0]
            inner = sc[1]
        fp = None
        for x in walk_term(inner):
            fp = _first_field(x)
            if fp:
                break
        if fp is None:
            # key derived from a field (keyed maps / scalars)
            for x in walk_term(key):
                fp = _first_field(x)
                if fp:
                    break
        row["field"] = ".".join(fp) if fp else None
        rows.append(row)
    return fn, rows


_TYPE_RE = re.compile(r"(\.key\.type_value|raw_key\.type_value)$")


def _reader_rows_from_effects(prog, fnp, roots):
    fn = prog.fn(fnp)
    b = fn.body
    g = Guards(b)
    prov = Prov(b)
    rows = []
    for e in effects(b, prov):
        t = e["target"]
        cd = cond_desc(b, g.conds(e["bb"]))
        ktype = [l for d, l in cd if d.endswith(".key.type_value")]
        sub = [l for d, l in cd if d.endswith(".subtype")]
        if not ktype:
            continue
        fp = _first_field(t, roots)
        if not fp:
            continue
        vals = [e["value"]] if e["value"] is not None else e.get("args", [])
        dty = None
        kty = None
        for v in vals:
            for x in walk_term(v):
                if x[0] == "call":
                    m = re.match(r"^<(.*) as pset::serialize::Deserialize>::deserialize$", x[1])
                    if m:
                        if show(x[2][0]).endswith(".key.key") or show(x[2][0]).endswith(").key"):
                            kty = m.group(1)
                        else:
                            dty = dty or m.group(1)
        rows.append({"field": ".".join(fp), "ktype": ktype[0], "subtype": sub[0] if sub else None, "ty": dty, "kty": kty,
                     "kind": e["kind"], "callee": e["callee"], "conds": cd, "value": show(e["value"])[:120] if e["value"] else None})
    return fn, rows

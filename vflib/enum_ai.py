"""Forward abstract interpretation over the discriminants of one enum type.
Abstract value of a tracked place = variant name (or TOP). Switches on the discriminant
of a tracked place follow only the matching edge; every other switch is explored on all
edges. `max_fns` are calls computing the maximum of two tracked values under the enum's
derived Ord (variant order)."""
import re

from .mir import callee_name, op_place

TOP = "<top>"


def _pkey(pl):
    """(local, field-path) ignoring derefs; None if the place has index/downcast projections"""
    path = []
    for e in pl["p"]:
        if e == "*":
            continue
        if isinstance(e, dict) and "f" in e and "dc" not in e:
            path.append(e["f"])
        else:
            return None
    return (pl["l"], tuple(path))


class EnumAI:
    def __init__(self, body, enum_path, variants, max_fns=(r"^std::cmp::max$", r"^std::cmp::Ord::max$", r"as std::cmp::Ord>::max$")):
        self.b = body
        self.enum = enum_path
        self.variants = list(variants)
        self.max_res = [re.compile(p) for p in max_fns]

    def _val(self, st, op):
        pl = op_place(op)
        if pl is None:
            return None
        k = _pkey(pl)
        if k is None:
            return None
        return st.get(k)

    def _vmax(self, a, b):
        if a in (None, TOP) or b in (None, TOP):
            return TOP
        return a if self.variants.index(a) >= self.variants.index(b) else b

    def _exec_stmt(self, st, s):
        if s["k"] != "assign":
            return
        k = _pkey(s["pl"])
        rv = s["rv"]
        if k is None:
            return
        # kill anything rooted below k
        for kk in [x for x in st if x[0] == k[0] and x[1][:len(k[1])] == k[1] and x != k]:
            del st[kk]
        if rv["k"] == "agg":
            if rv["ak"] == "adt" and rv["adt"] == self.enum:
                st[k] = rv["variant"]
                return
            if rv["ak"] == "tuple":
                st.pop(k, None)
                for i, o in enumerate(rv["ops"]):
                    v = self._val(st, o)
                    if v is not None:
                        st[(k[0], k[1] + (str(i),))] = v
                return
            st.pop(k, None)
            return
        if rv["k"] == "use":
            v = self._val(st, rv["a"])
            src = op_place(rv["a"])
            if v is not None:
                st[k] = v
            else:
                st.pop(k, None)
            # copy sub-places (tuple moved as a whole)
            if src is not None:
                sk = _pkey(src)
                if sk is not None:
                    for kk, vv in list(st.items()):
                        if kk[0] == sk[0] and kk[1][:len(sk[1])] == sk[1] and kk != sk:
                            st[(k[0], k[1] + kk[1][len(sk[1]):])] = vv
            return
        if rv["k"] == "discr":
            pk = _pkey(rv["pl"])
            v = st.get(pk) if pk is not None else None
            if v is not None and v != TOP and rv.get("adt") == self.enum:
                vals = {n: int(d) for d, n in rv["vars"]}
                st[k] = ("discr", vals[v])
            else:
                st.pop(k, None)
            return
        if rv["k"] == "ref":
            # reference to a tracked place: alias by value (read-only uses)
            pk = _pkey(rv["pl"])
            v = st.get(pk) if pk is not None else None
            if v is not None:
                st[k] = v
            else:
                st.pop(k, None)
            return
        st.pop(k, None)

    def run(self, start=0, init=None, observe=None, max_states=20000):
        """explores all abstract paths; observe(bb, state) is called on entry of every (bb,state);
        returns list of (end_kind, bb, state) for return / diverging ends"""
        b = self.b
        init = dict(init or {})
        seen = set()
        work = [(start, tuple(sorted(init.items(), key=repr)))]
        ends = []
        n = 0
        while work:
            bb, stt = work.pop()
            if (bb, stt) in seen:
                continue
            seen.add((bb, stt))
            n += 1
            if n > max_states:
                ends.append(("budget", bb, dict(stt)))
                break
            st = dict(stt)
            if observe:
                observe(bb, st)
            for s in b.stmts(bb):
                self._exec_stmt(st, s)
            t = b.term(bb)
            k = t["k"]
            succs = []
            if k == "switch":
                pl = op_place(t["d"])
                v = st.get(_pkey(pl)) if pl is not None and _pkey(pl) is not None else None
                if isinstance(v, tuple) and v[0] == "discr":
                    tm = {int(x): y for x, y in t["ts"]}
                    succs = [tm.get(v[1], t["o"])]
                else:
                    succs = b.succ(bb)
            elif k == "call":
                name = callee_name(t)
                dk = _pkey(t["dest"]) if t.get("dest") else None
                if dk is not None:
                    for kk in [x for x in st if x[0] == dk[0] and x[1][:len(dk[1])] == dk[1]]:
                        del st[kk]
                    if any(r.search(name) for r in self.max_res) and len(t["args"]) == 2:
                        a, c = self._val(st, t["args"][0]), self._val(st, t["args"][1])
                        if a is not None or c is not None:
                            st[dk] = self._vmax(a, c)
                if t.get("t") is None:
                    ends.append(("diverge:" + name, bb, st))
                    continue
                succs = [t["t"]]
            elif k == "return":
                ends.append(("return", bb, st))
                continue
            elif k == "unreachable":
                continue
            else:
                succs = b.succ(bb)
            nst = tuple(sorted(st.items(), key=repr))
            for s2 in succs:
                work.append((s2, nst))
        self.explored = n
        return ends

"""Supporting obligations: a property's rules name anchor functions; those call local helpers that the same rules never
open (encoders, predicates, id derivations, accessors). When another property's rule decides a clause about such a helper,
that instance is evaluated here for the relying property as well, under the rule name `D.<Q>.<rule>` — a change to the
helper that breaks the clause breaks what the anchors compute from it.

  blind(P)  = local functions reachable (resolved call graph, closures included) from the anchors P's rules asked for
              with Program.fn(), minus those anchors themselves (a body merely met while scanning is not thereby decided)
  adopted   = instances (rule, fn, ...) of every other rule module Q (C10's panic audit excluded: a panic site is not a
              wrong value) whose subject function fn is in blind(P), except Q's own listed known findings

All modules are evaluated once per tree state and cached in .cache (key: facts file name + hash of the checker sources).
tables/deps_floor.json holds, per (P, Q), half the number of adopted instances counted on the pinned tree: a lower count is
recorded in the evidence; only when nothing at all can be related to P's anchors any more does P fail closed (a helper being
inlined or a call being rerouted legitimately changes the counts, and P's own rules and floors remain decisive)."""
import hashlib
import importlib
import json
import os
import re

from .facts import VERIF, CACHE, CannotDecide, extract

SKIP = re.compile(r"(as std::fmt::(Debug|Display|LowerHex|UpperHex)>::fmt$|as std::clone::Clone>::clone$|as std::cmp::(PartialEq|Eq|PartialOrd|Ord)>::|as std::hash::Hash>::hash$|"
                  r"as std::default::Default>::default$|::assert_fields_are_eq$|as std::error::Error>::|as std::convert::From<.*Error>|::fmt$|^<.*Error as )")
NOT_A_SOURCE = {"C10"}
FLOORS = os.path.join(VERIF, "tables", "deps_floor.json")


def _src_hash():
    h = hashlib.sha256()
    for root in (os.path.join(VERIF, "vflib"), os.path.join(VERIF, "tables")):
        for dp, dn, fn in sorted(os.walk(root)):
            dn.sort()
            for f in sorted(fn):
                if f.endswith((".py", ".tsv", ".txt")):
                    h.update(f.encode())
                    h.update(open(os.path.join(dp, f), "rb").read())
    h.update(open(os.path.join(VERIF, "KNOWN_FINDINGS.txt"), "rb").read() if os.path.exists(os.path.join(VERIF, "KNOWN_FINDINGS.txt")) else b"")
    return h.hexdigest()[:16]


def callmap(facts):
    """local call graph from the raw facts (no Body objects are built: opening a body is what `opened` measures)"""
    names = {j["path"] for j in facts["fns"]}
    out = {}
    for j in facts["fns"]:
        s = set()
        bodies = [j["mir"]] + list(j.get("promoted", []) or [])
        for m in bodies:
            for b in m["blocks"]:
                t = b["t"]
                if t["k"] == "call":
                    for key in ("resolved", "callee"):
                        n = t.get(key)
                        if n and n in names:
                            s.add(n)
        out.setdefault(j["path"], set()).update(s)
    for n in names:
        m = re.match(r"^(.*)::\{closure#\d+\}$", n)
        if m and m.group(1) in out:
            out[m.group(1)].add(n)
    return out


def all_instances(tier):
    """{Q: {"instances": [(rule, key, ok, detail, where)], "error": msg|None}} for the full configuration, cached"""
    from .mir import Program
    from .report import Check, load_known
    from . import facts as _facts
    fpath = extract("full")
    cpath = os.path.join(CACHE, "instances-%s-%s.json" % (os.path.basename(fpath)[:-5], _src_hash()))
    if os.path.exists(cpath):
        try:
            return json.load(open(cpath))
        except Exception:
            pass
    known = load_known()
    out = {}
    raw = _facts.load("full")
    for i in range(1, 21):
        q = "C%02d" % i
        if q in NOT_A_SOURCE:
            continue
        try:
            mod = importlib.import_module("vflib.rules." + q.lower())
        except ModuleNotFoundError:
            continue
        sub = Check(q, "quick")
        err = None
        try:
            mod.run(sub, Program(raw), {"tier": "quick", "config": "full", "no_deps": True})
        except CannotDecide as e:
            err = str(e)[:300]
        except Exception as e:  # noqa
            err = "internal error: %s" % (str(e)[:200])
        kq = known.get(q, {})
        out[q] = {"error": err,
                  "instances": [(r, k, ok, (d or "")[:600], w) for (r, k, ok, d, w) in sub.instances if k not in kq]}
    for f in os.listdir(CACHE):
        if f.startswith("instances-"):
            try:
                os.unlink(os.path.join(CACHE, f))
            except OSError:
                pass
    tmp = cpath + ".%d.tmp" % os.getpid()
    with open(tmp, "w") as fh:
        json.dump(out, fh)
    os.rename(tmp, cpath)
    return json.load(open(cpath))


def blind_set(prog):
    cm = callmap(prog.facts)
    asked = set(prog.asked)
    opened = {p for p, f in prog.fns.items() if f._body is not None}
    seen, st = set(asked), list(asked)
    while st:
        x = st.pop()
        for y in cm.get(x, ()):
            if y not in seen:
                seen.add(y)
                st.append(y)
    # monomorphic instance graph where the anchor has an instance root: trait calls inside generic helpers
    # (encode::serialize::<T>, Vec<T> encoders, iterator adaptors with local closures) resolve only there
    for a in asked:
        if a in prog.roots:
            try:
                seen |= {d for d in prog.inst_defs(prog.inst_reach(a)) if d in prog.fns}
            except CannotDecide:
                pass
    return sorted(p for p in seen - asked if not SKIP.search(p)), len(asked), len(opened)


def adopt(c, prog, pid):
    blind, n_asked, n_opened = blind_set(prog)
    bset = set(blind)
    inst = all_instances(c.tier)
    floors = json.load(open(FLOORS)).get(pid, {}) if os.path.exists(FLOORS) else {}
    counts, covered, short = {}, set(), []
    for q in sorted(inst):
        if q == pid:
            continue
        n = 0
        for (rule, k, ok, detail, where) in inst[q]["instances"]:
            parts = k.split("|")
            if len(parts) < 3 or parts[1] not in bset:
                continue
            n += 1
            covered.add(parts[1])
            nr = "D.%s.%s" % (q, rule)
            c.instances.append((nr, "|".join([nr] + parts[1:]), ok, "[relied on through the call graph; %s %s] %s" % (q, rule, detail), where))
        if n:
            counts[q] = n
        if n < floors.get(q, 0) and inst[q]["error"]:
            # Q itself cannot be decided on this tree (its own check says so and exits 2); P's own rules stay decisive
            c.note("supporting rules of %s not evaluated: %s" % (q, inst[q]["error"]))
            c.extra_cov.setdefault("supporting_rules_undecided", []).append(q)
        elif n < floors.get(q, 0):
            why = inst[q]["error"]
            short.append("supporting rules of %s for %s: %d instance(s) about functions %s relies on, %d counted on the pinned tree%s"
                               % (q, pid, n, pid, floors[q], ("; %s could not be decided: %s" % (q, why)) if why else ""))
    # like every floor: only when nothing is reported (a violation on this tree is the better answer than "cannot decide")
    from .report import load_known
    kp = load_known().get(pid, {})
    for m in short:
        c.note("fewer supporting instances than on the pinned tree: " + m)
    if (short and sum(floors.values()) > 0 and sum(counts.values()) == 0
            and not any((not i[2]) and i[1] not in kp for i in c.instances)):
        # nothing at all could be related to this property's anchors any more: the call graph or the keys changed shape
        raise CannotDecide(short[0])
    undecided = sorted(bset - covered)
    c.extra_cov["supporting_obligations"] = {
        "anchors_named_by_rules": n_asked, "bodies_opened": n_opened, "helpers_reached_not_opened": len(blind),
        "adopted_instances_by_property": counts,
        "helpers_no_rule_decides": undecided[:80],
    }
    c.note("supporting obligations: %d helper functions reached from the anchors and not opened; %d adopted instances %s; %d helpers no rule of any property decides (trusted)"
           % (len(blind), sum(counts.values()), counts, len(undecided)))
    return counts

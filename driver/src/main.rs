// elfacts: rustc_private driver that dumps type-checked facts (types, evaluated
// constants, functions, MIR with resolved callees) of the crate under analysis as
// JSON. It behaves like rustc for every other crate.
//
// Invoked through RUSTC_WORKSPACE_WRAPPER: argv = [elfacts, rustc, <rustc args...>].
// Environment:
//   ELFACTS_CRATE  crate name to analyse (default "elements")
//   ELFACTS_OUT    output file (required for analysis; one write per process)
#![feature(rustc_private)]
#![allow(clippy::all)]

extern crate rustc_abi;
extern crate rustc_driver;
extern crate rustc_hir;
extern crate rustc_interface;
extern crate rustc_middle;
extern crate rustc_session;
extern crate rustc_span;

use rustc_driver::{Callbacks, Compilation};
use rustc_hir::def::DefKind;
use rustc_hir::def_id::{DefId, LocalDefId};
use rustc_interface::interface::Compiler;
use rustc_middle::mir::{
    self, AggregateKind, AssertKind, BasicBlock, Body, Operand, Place, ProjectionElem, Rvalue,
    StatementKind, TerminatorKind,
};
use rustc_middle::ty::print::{with_no_trimmed_paths, PrintTraitRefExt};
use rustc_middle::ty::{self, Instance, Ty, TyCtxt, TypeVisitableExt, TypingEnv};
use rustc_span::Span;
use std::fmt::Write as _;

// ---------------------------------------------------------------- tiny JSON
fn jstr(s: &str) -> String {
    let mut o = String::with_capacity(s.len() + 2);
    o.push('"');
    for c in s.chars() {
        match c {
            '"' => o.push_str("\\\""),
            '\\' => o.push_str("\\\\"),
            '\n' => o.push_str("\\n"),
            '\r' => o.push_str("\\r"),
            '\t' => o.push_str("\\t"),
            c if (c as u32) < 0x20 => {
                let _ = write!(o, "\\u{:04x}", c as u32);
            }
            c => o.push(c),
        }
    }
    o.push('"');
    o
}
fn jarr(v: &[String]) -> String {
    format!("[{}]", v.join(","))
}
fn jobj(v: &[(&str, String)]) -> String {
    let parts: Vec<String> = v.iter().map(|(k, x)| format!("{}:{}", jstr(k), x)).collect();
    format!("{{{}}}", parts.join(","))
}
fn jbool(b: bool) -> String {
    if b { "true".into() } else { "false".into() }
}
fn jopt(o: Option<String>) -> String {
    o.unwrap_or_else(|| "null".into())
}

// ---------------------------------------------------------------- helpers
struct Cx<'tcx> {
    tcx: TyCtxt<'tcx>,
}

impl<'tcx> Cx<'tcx> {
    fn path(&self, did: DefId) -> String {
        with_no_trimmed_paths!(self.tcx.def_path_str(did))
    }
    fn path_args(&self, did: DefId, args: ty::GenericArgsRef<'tcx>) -> String {
        with_no_trimmed_paths!(self.tcx.def_path_str_with_args(did, args))
    }
    fn ty(&self, t: Ty<'tcx>) -> String {
        with_no_trimmed_paths!(format!("{}", t))
    }
    fn span(&self, sp: Span) -> String {
        // location of the outermost call site (user-visible line), plus macro info
        let sm = self.tcx.sess.source_map();
        let cs = sp.source_callsite();
        let lo = sm.lookup_char_pos(cs.lo());
        let file = match &lo.file.name {
            rustc_span::FileName::Real(r) => match r.local_path() {
                Some(p) => p.to_string_lossy().to_string(),
                None => format!("{:?}", lo.file.name),
            },
            other => format!("{:?}", other),
        };
        let mac = if sp.from_expansion() {
            let ed = sp.ctxt().outer_expn_data();
            Some(jstr(&format!("{}", ed.kind.descr())))
        } else {
            None
        };
        // innermost (definition-site) line as well: for macro-generated code this is
        // the line inside the macro definition
        let ilo = sm.lookup_char_pos(sp.lo());
        jobj(&[
            ("file", jstr(&file)),
            ("line", format!("{}", lo.line)),
            ("iline", format!("{}", ilo.line)),
            ("mac", jopt(mac)),
        ])
    }

    fn adt_info(&self, t: Ty<'tcx>) -> Option<(ty::AdtDef<'tcx>, ty::GenericArgsRef<'tcx>)> {
        match t.kind() {
            ty::Adt(d, a) => Some((*d, a)),
            _ => None,
        }
    }

    fn place(&self, body: &Body<'tcx>, p: &Place<'tcx>) -> String {
        let mut projs = Vec::new();
        for (i, elem) in p.projection.iter().enumerate() {
            let base_ty = Place::ty_from(p.local, &p.projection[..i], body, self.tcx);
            let s = match elem {
                ProjectionElem::Deref => jstr("*"),
                ProjectionElem::Field(f, fty) => {
                    let (owner, vname, fname) = match base_ty.ty.kind() {
                        ty::Adt(def, _) => {
                            let vidx = base_ty.variant_index.unwrap_or(rustc_abi::FIRST_VARIANT);
                            let v = def.variant(vidx);
                            (
                                self.path(def.did()),
                                v.name.to_string(),
                                v.fields[f].name.to_string(),
                            )
                        }
                        ty::Tuple(_) => ("(tuple)".to_string(), String::new(), format!("{}", f.index())),
                        ty::Closure(d, _) => {
                            (format!("(closure){}", self.path(*d)), String::new(), format!("{}", f.index()))
                        }
                        _ => (self.ty(base_ty.ty), String::new(), format!("{}", f.index())),
                    };
                    jobj(&[
                        ("f", jstr(&fname)),
                        ("i", format!("{}", f.index())),
                        ("o", jstr(&owner)),
                        ("v", jstr(&vname)),
                        ("t", jstr(&self.ty(fty))),
                    ])
                }
                ProjectionElem::Index(l) => jobj(&[("idx", format!("{}", l.index()))]),
                ProjectionElem::ConstantIndex { offset, min_length, from_end } => jobj(&[(
                    "cidx",
                    format!("[{},{},{}]", offset, min_length, jbool(from_end)),
                )]),
                ProjectionElem::Subslice { from, to, from_end } => {
                    jobj(&[("sub", format!("[{},{},{}]", from, to, jbool(from_end)))])
                }
                ProjectionElem::Downcast(name, vidx) => {
                    let n = match name {
                        Some(s) => s.to_string(),
                        None => match base_ty.ty.kind() {
                            ty::Adt(def, _) => def.variant(vidx).name.to_string(),
                            _ => format!("{}", vidx.index()),
                        },
                    };
                    jobj(&[("dc", jstr(&n)), ("vi", format!("{}", vidx.index()))])
                }
                ProjectionElem::OpaqueCast(_) => jstr("opaque"),
                ProjectionElem::UnwrapUnsafeBinder(_) => jstr("unwrap_binder"),
            };
            projs.push(s);
        }
        jobj(&[("l", format!("{}", p.local.index())), ("p", jarr(&projs))])
    }

    fn constant(&self, env: TypingEnv<'tcx>, c: &mir::ConstOperand<'tcx>) -> String {
        let cty = c.const_.ty();
        let mut fields: Vec<(&str, String)> = vec![("k", jstr("const")), ("ty", jstr(&self.ty(cty)))];
        if let ty::FnDef(did, args) = *cty.kind() {
            fields.push(("fn", jstr(&self.path(did))));
            fields.push(("fnargs", jstr(&self.path_args(did, args))));
        } else {
            // named constant?
            if let mir::Const::Unevaluated(uv, _) = c.const_ {
                fields.push(("def", jstr(&self.path(uv.def))));
                if let Some(pi) = uv.promoted {
                    fields.push(("promoted", format!("{}", pi.index())));
                }
            }
            let is_scalar_ty = cty.is_integral() || cty.is_bool() || cty.is_char();
            if is_scalar_ty {
                if let Some(si) = c.const_.try_eval_scalar_int(self.tcx, env) {
                    let sz = si.size();
                    let bits = si.to_bits(sz);
                    let v: String = if cty.is_signed() {
                        let n = sz.bits();
                        let sv = if n == 128 { bits as i128 } else {
                            let shift = 128 - n;
                            ((bits << shift) as i128) >> shift
                        };
                        format!("{}", sv)
                    } else {
                        format!("{}", bits)
                    };
                    // big ints as strings to stay JSON-safe
                    fields.push(("v", jstr(&v)));
                }
            } else {
                // non-scalar: evaluated display if cheap
                let evald = c.const_.eval(self.tcx, env, c.span);
                if let Ok(mir::ConstValue::Scalar(mir::interpret::Scalar::Ptr(ptr, _))) = evald {
                    // reference to a static item: name it
                    let aid = ptr.provenance.alloc_id();
                    if let Some(mir::interpret::GlobalAlloc::Static(sdid)) = self.tcx.try_get_global_alloc(aid) {
                        fields.push(("static", jstr(&self.path(sdid))));
                    }
                }
                let disp = match evald {
                    Ok(val) => with_no_trimmed_paths!(format!("{}", mir::Const::Val(val, cty))),
                    Err(_) => with_no_trimmed_paths!(format!("{}", c.const_)),
                };
                let mut d = disp;
                if d.len() > 4000 {
                    d.truncate(4000);
                }
                fields.push(("disp", jstr(&d)));
            }
        }
        jobj(&fields)
    }

    fn operand(&self, env: TypingEnv<'tcx>, body: &Body<'tcx>, o: &Operand<'tcx>) -> String {
        match o {
            Operand::Copy(p) => jobj(&[("k", jstr("copy")), ("pl", self.place(body, p))]),
            Operand::Move(p) => jobj(&[("k", jstr("move")), ("pl", self.place(body, p))]),
            Operand::Constant(c) => self.constant(env, c),
            _ => jobj(&[("k", jstr("runtime_checks"))]),
        }
    }

    fn rvalue(&self, env: TypingEnv<'tcx>, body: &Body<'tcx>, rv: &Rvalue<'tcx>) -> String {
        match rv {
            Rvalue::Use(o, ..) => jobj(&[("k", jstr("use")), ("a", self.operand(env, body, o))]),
            Rvalue::Repeat(o, n) => jobj(&[
                ("k", jstr("repeat")),
                ("a", self.operand(env, body, o)),
                ("n", jstr(&with_no_trimmed_paths!(format!("{}", n)))),
            ]),
            Rvalue::Ref(_, bk, p) => jobj(&[
                ("k", jstr("ref")),
                ("mut", jbool(matches!(bk, mir::BorrowKind::Mut { .. }))),
                ("pl", self.place(body, p)),
            ]),
            Rvalue::ThreadLocalRef(d) => jobj(&[("k", jstr("tls")), ("def", jstr(&self.path(*d)))]),
            Rvalue::RawPtr(_, p) => jobj(&[("k", jstr("rawptr")), ("pl", self.place(body, p))]),
            Rvalue::Cast(kind, o, t) => jobj(&[
                ("k", jstr("cast")),
                ("ck", jstr(&format!("{:?}", kind))),
                ("a", self.operand(env, body, o)),
                ("ty", jstr(&self.ty(*t))),
                ("from", jstr(&self.ty(o.ty(body, self.tcx)))),
            ]),
            Rvalue::BinaryOp(op, ab) => jobj(&[
                ("k", jstr("bin")),
                ("op", jstr(&format!("{:?}", op))),
                ("a", self.operand(env, body, &ab.0)),
                ("b", self.operand(env, body, &ab.1)),
            ]),
            Rvalue::UnaryOp(op, a) => jobj(&[
                ("k", jstr("un")),
                ("op", jstr(&format!("{:?}", op))),
                ("a", self.operand(env, body, a)),
            ]),
            Rvalue::Discriminant(p) => {
                let pty = p.ty(body, self.tcx).ty;
                let mut vars = Vec::new();
                let mut adt = String::new();
                if let ty::Adt(def, _) = pty.kind() {
                    adt = self.path(def.did());
                    if def.is_enum() {
                        for (vi, d) in def.discriminants(self.tcx) {
                            vars.push(format!(
                                "[{},{}]",
                                jstr(&format!("{}", d.val)),
                                jstr(&def.variant(vi).name.to_string())
                            ));
                        }
                    }
                }
                jobj(&[
                    ("k", jstr("discr")),
                    ("pl", self.place(body, p)),
                    ("adt", jstr(&adt)),
                    ("vars", jarr(&vars)),
                ])
            }
            Rvalue::Aggregate(kind, ops) => {
                let opsj: Vec<String> = ops.iter().map(|o| self.operand(env, body, o)).collect();
                let mut f: Vec<(&str, String)> = vec![("k", jstr("agg"))];
                match &**kind {
                    AggregateKind::Array(t) => {
                        f.push(("ak", jstr("array")));
                        f.push(("ety", jstr(&self.ty(*t))));
                    }
                    AggregateKind::Tuple => f.push(("ak", jstr("tuple"))),
                    AggregateKind::Adt(did, vidx, _args, _, active) => {
                        let def = self.tcx.adt_def(*did);
                        let v = def.variant(*vidx);
                        f.push(("ak", jstr("adt")));
                        f.push(("adt", jstr(&self.path(*did))));
                        f.push(("variant", jstr(&v.name.to_string())));
                        let names: Vec<String> = if let Some(a) = active {
                            vec![jstr(&v.fields[*a].name.to_string())]
                        } else {
                            v.fields.iter().map(|fd| jstr(&fd.name.to_string())).collect()
                        };
                        f.push(("fields", jarr(&names)));
                    }
                    AggregateKind::Closure(did, _) => {
                        f.push(("ak", jstr("closure")));
                        f.push(("def", jstr(&self.path(*did))));
                    }
                    AggregateKind::Coroutine(did, _) | AggregateKind::CoroutineClosure(did, _) => {
                        f.push(("ak", jstr("coroutine")));
                        f.push(("def", jstr(&self.path(*did))));
                    }
                    AggregateKind::RawPtr(..) => f.push(("ak", jstr("rawptr"))),
                }
                f.push(("ops", jarr(&opsj)));
                jobj(&f)
            }
            Rvalue::CopyForDeref(p) => jobj(&[
                ("k", jstr("use")),
                ("a", jobj(&[("k", jstr("copy")), ("pl", self.place(body, p))])),
            ]),
            Rvalue::WrapUnsafeBinder(o, _) => jobj(&[("k", jstr("use")), ("a", self.operand(env, body, o))]),
        }
    }

    fn resolve_call(
        &self,
        env: TypingEnv<'tcx>,
        did: DefId,
        args: ty::GenericArgsRef<'tcx>,
    ) -> Vec<(&'static str, String)> {
        let mut out: Vec<(&'static str, String)> = Vec::new();
        out.push(("callee", jstr(&self.path(did))));
        out.push(("callee_full", jstr(&self.path_args(did, args))));
        // trait method? record the trait and Self type
        if let Some(tr) = self.tcx.trait_of_assoc(did) {
            out.push(("trait", jstr(&self.path(tr))));
            if args.len() > 0 {
                if let Some(t0) = args[0].as_type() {
                    out.push(("self_ty", jstr(&self.ty(t0))));
                }
            }
        }
        let kind = self.tcx.def_kind(did);
        if matches!(kind, DefKind::Fn | DefKind::AssocFn) {
            match Instance::try_resolve(self.tcx, env, did, args) {
                Ok(Some(inst)) => {
                    let rdid = inst.def_id();
                    out.push(("resolved", jstr(&self.path(rdid))));
                    out.push(("resolved_full", jstr(&self.path_args(rdid, inst.args))));
                    out.push(("resolved_local", jbool(rdid.is_local())));
                    let ik = match inst.def {
                        ty::InstanceKind::Item(_) => "item",
                        ty::InstanceKind::Intrinsic(_) => "intrinsic",
                        ty::InstanceKind::Virtual(..) => "virtual",
                        ty::InstanceKind::ClosureOnceShim { .. } => "closure_once_shim",
                        ty::InstanceKind::FnPtrShim(..) => "fnptr_shim",
                        ty::InstanceKind::DropGlue(..) => "drop_glue",
                        ty::InstanceKind::CloneShim(..) => "clone_shim",
                        _ => "other",
                    };
                    out.push(("ikind", jstr(ik)));
                }
                Ok(None) => out.push(("unresolved", jstr("generic"))),
                Err(_) => out.push(("unresolved", jstr("error"))),
            }
        }
        out
    }

    fn body(&self, did: LocalDefId, body: &Body<'tcx>) -> String {
        let tcx = self.tcx;
        let env = TypingEnv::post_analysis(tcx, did);
        // locals
        let mut names: Vec<Option<String>> = vec![None; body.local_decls.len()];
        for vdi in &body.var_debug_info {
            if let mir::VarDebugInfoContents::Place(p) = &vdi.value {
                if p.projection.is_empty() {
                    names[p.local.index()] = Some(vdi.name.to_string());
                }
            }
        }
        let mut locals = Vec::new();
        for (l, decl) in body.local_decls.iter_enumerated() {
            locals.push(jobj(&[
                ("ty", jstr(&self.ty(decl.ty))),
                ("name", jopt(names[l.index()].as_ref().map(|s| jstr(s)))),
            ]));
        }
        // closure upvar debug names: (field index -> name)
        let mut upvars = Vec::new();
        for vdi in &body.var_debug_info {
            if let mir::VarDebugInfoContents::Place(p) = &vdi.value {
                if !p.projection.is_empty() && p.local.index() == 1 {
                    upvars.push(jobj(&[("name", jstr(&vdi.name.to_string())), ("pl", self.place(body, p))]));
                }
            }
        }
        let mut blocks = Vec::new();
        for (_bb, data) in body.basic_blocks.iter_enumerated() {
            let mut stmts = Vec::new();
            for st in &data.statements {
                match &st.kind {
                    StatementKind::Assign(b) => {
                        let (pl, rv) = &**b;
                        stmts.push(jobj(&[
                            ("k", jstr("assign")),
                            ("pl", self.place(body, pl)),
                            ("rv", self.rvalue(env, body, rv)),
                            ("sp", self.span(st.source_info.span)),
                        ]));
                    }
                    StatementKind::SetDiscriminant { place, variant_index } => {
                        stmts.push(jobj(&[
                            ("k", jstr("setdiscr")),
                            ("pl", self.place(body, place)),
                            ("vi", format!("{}", variant_index.index())),
                        ]));
                    }
                    StatementKind::Intrinsic(i) => {
                        stmts.push(jobj(&[("k", jstr("intrinsic")), ("d", jstr(&format!("{:?}", i)))]));
                    }
                    _ => {}
                }
            }
            let term = data.terminator();
            let tsp = self.span(term.source_info.span);
            let bbi = |b: &BasicBlock| format!("{}", b.index());
            let t = match &term.kind {
                TerminatorKind::Goto { target } => jobj(&[("k", jstr("goto")), ("t", bbi(target))]),
                TerminatorKind::SwitchInt { discr, targets } => {
                    let mut ts = Vec::new();
                    for (v, b) in targets.iter() {
                        ts.push(format!("[{},{}]", jstr(&format!("{}", v)), b.index()));
                    }
                    jobj(&[
                        ("k", jstr("switch")),
                        ("d", self.operand(env, body, discr)),
                        ("dty", jstr(&self.ty(discr.ty(body, tcx)))),
                        ("ts", jarr(&ts)),
                        ("o", bbi(&targets.otherwise())),
                        ("sp", tsp),
                    ])
                }
                TerminatorKind::UnwindResume => jobj(&[("k", jstr("resume"))]),
                TerminatorKind::UnwindTerminate(_) => jobj(&[("k", jstr("terminate"))]),
                TerminatorKind::Return => jobj(&[("k", jstr("return")), ("sp", tsp)]),
                TerminatorKind::Unreachable => jobj(&[("k", jstr("unreachable"))]),
                TerminatorKind::Drop { place, target, .. } => jobj(&[
                    ("k", jstr("drop")),
                    ("pl", self.place(body, place)),
                    ("t", bbi(target)),
                ]),
                TerminatorKind::Call { func, args, destination, target, .. } => {
                    let mut f: Vec<(&str, String)> = vec![("k", jstr("call"))];
                    if let Some((cd, cargs)) = func.const_fn_def() {
                        for (k, v) in self.resolve_call(env, cd, cargs) {
                            f.push((k, v));
                        }
                    } else {
                        f.push(("fnop", self.operand(env, body, func)));
                    }
                    let a: Vec<String> = args.iter().map(|s| self.operand(env, body, &s.node)).collect();
                    f.push(("args", jarr(&a)));
                    f.push(("dest", self.place(body, destination)));
                    f.push(("t", jopt(target.as_ref().map(bbi))));
                    f.push(("sp", tsp));
                    jobj(&f)
                }
                TerminatorKind::TailCall { func, args, .. } => {
                    let mut f: Vec<(&str, String)> = vec![("k", jstr("call")), ("tail", jbool(true))];
                    if let Some((cd, cargs)) = func.const_fn_def() {
                        for (k, v) in self.resolve_call(env, cd, cargs) {
                            f.push((k, v));
                        }
                    }
                    let a: Vec<String> = args.iter().map(|s| self.operand(env, body, &s.node)).collect();
                    f.push(("args", jarr(&a)));
                    f.push(("t", "null".into()));
                    f.push(("sp", tsp));
                    jobj(&f)
                }
                TerminatorKind::Assert { cond, expected, msg, target, .. } => {
                    let (ak, ops): (String, Vec<String>) = match &**msg {
                        AssertKind::BoundsCheck { len, index } => (
                            "BoundsCheck".into(),
                            vec![self.operand(env, body, len), self.operand(env, body, index)],
                        ),
                        AssertKind::Overflow(op, a, b) => (
                            format!("Overflow({:?})", op),
                            vec![self.operand(env, body, a), self.operand(env, body, b)],
                        ),
                        AssertKind::OverflowNeg(a) => ("OverflowNeg".into(), vec![self.operand(env, body, a)]),
                        AssertKind::DivisionByZero(a) => {
                            ("DivisionByZero".into(), vec![self.operand(env, body, a)])
                        }
                        AssertKind::RemainderByZero(a) => {
                            ("RemainderByZero".into(), vec![self.operand(env, body, a)])
                        }
                        AssertKind::MisalignedPointerDereference { .. } => ("Misaligned".into(), vec![]),
                        AssertKind::NullPointerDereference => ("NullPtr".into(), vec![]),
                        AssertKind::InvalidEnumConstruction(_) => ("InvalidEnum".into(), vec![]),
                        _ => ("Other".into(), vec![]),
                    };
                    jobj(&[
                        ("k", jstr("assert")),
                        ("cond", self.operand(env, body, cond)),
                        ("expected", jbool(*expected)),
                        ("ak", jstr(&ak)),
                        ("ops", jarr(&ops)),
                        ("t", bbi(target)),
                        ("sp", tsp),
                    ])
                }
                TerminatorKind::Yield { .. } => jobj(&[("k", jstr("yield"))]),
                TerminatorKind::CoroutineDrop => jobj(&[("k", jstr("coroutine_drop"))]),
                TerminatorKind::FalseEdge { real_target, .. } => {
                    jobj(&[("k", jstr("goto")), ("t", bbi(real_target))])
                }
                TerminatorKind::FalseUnwind { real_target, .. } => {
                    jobj(&[("k", jstr("goto")), ("t", bbi(real_target))])
                }
                TerminatorKind::InlineAsm { .. } => jobj(&[("k", jstr("asm"))]),
            };
            blocks.push(jobj(&[
                ("s", jarr(&stmts)),
                ("t", t),
                ("cleanup", jbool(data.is_cleanup)),
            ]));
        }
        jobj(&[
            ("argc", format!("{}", body.arg_count)),
            ("locals", jarr(&locals)),
            ("upvars", jarr(&upvars)),
            ("blocks", jarr(&blocks)),
        ])
    }
}

struct Mono<'a, 'tcx> {
    cx: &'a Cx<'tcx>,
    table: Vec<String>,
    seen: std::collections::HashSet<String>,
}

impl<'a, 'tcx> Mono<'a, 'tcx> {
    fn key(&self, inst: Instance<'tcx>, root: &str) -> String {
        let base = self.cx.path_args(inst.def_id(), inst.args);
        if inst.args.has_param() { format!("{}@{}", base, root) } else { base }
    }

    fn has_body(&self, inst: Instance<'tcx>) -> bool {
        matches!(inst.def, ty::InstanceKind::Item(_))
            && inst.def_id().is_local()
            && matches!(
                self.cx.tcx.def_kind(inst.def_id()),
                DefKind::Fn | DefKind::AssocFn | DefKind::Closure
            )
            && self.cx.tcx.is_mir_available(inst.def_id())
    }

    /// local callables mentioned in generic arguments (closures, fn items)
    fn callables_in_args(
        &self,
        env: TypingEnv<'tcx>,
        args: ty::GenericArgsRef<'tcx>,
        out: &mut Vec<Instance<'tcx>>,
    ) {
        for ga in args.iter() {
            for inner in ga.walk() {
                if let Some(t) = inner.as_type() {
                    match *t.kind() {
                        ty::Closure(d, a) => {
                            if d.is_local() {
                                out.push(Instance::new_raw(d, a));
                            }
                        }
                        ty::FnDef(d, a) => {
                            if let Ok(Some(i)) = Instance::try_resolve(self.cx.tcx, env, d, a) {
                                if i.def_id().is_local() {
                                    out.push(i);
                                }
                            }
                        }
                        _ => {}
                    }
                }
            }
        }
    }

    fn walk_root(&mut self, root: LocalDefId) -> String {
        let tcx = self.cx.tcx;
        let env = TypingEnv::post_analysis(tcx, root);
        let rootp = self.cx.path(root.to_def_id());
        let inst = Instance::new_raw(root.to_def_id(), ty::GenericArgs::identity_for_item(tcx, root));
        let rkey = self.key(inst, &rootp);
        let mut stack = vec![inst];
        while let Some(cur) = stack.pop() {
            let ckey = self.key(cur, &rootp);
            if !self.seen.insert(ckey.clone()) {
                continue;
            }
            let body = tcx.instance_mir(cur.def);
            let mut calls = Vec::new();
            for (bb, data) in body.basic_blocks.iter_enumerated() {
                let term = data.terminator();
                let (func, _is_tail) = match &term.kind {
                    TerminatorKind::Call { func, .. } => (func, false),
                    TerminatorKind::TailCall { func, .. } => (func, true),
                    _ => continue,
                };
                let fty = func.ty(body, tcx);
                let fty = match cur.try_instantiate_mir_and_normalize_erasing_regions(
                    tcx,
                    env,
                    ty::EarlyBinder::bind(fty),
                ) {
                    Ok(t) => t,
                    Err(_) => {
                        calls.push(jobj(&[("bb", format!("{}", bb.index())), ("k", jstr("normfail"))]));
                        continue;
                    }
                };
                let mut extra: Vec<Instance<'tcx>> = Vec::new();
                let mut f: Vec<(&str, String)> = vec![("bb", format!("{}", bb.index()))];
                match *fty.kind() {
                    ty::FnDef(did, args) => {
                        match Instance::try_resolve(tcx, env, did, args) {
                            Ok(Some(callee)) => {
                                if self.has_body(callee) {
                                    f.push(("k", jstr("local")));
                                    f.push(("to", jstr(&self.key(callee, &rootp))));
                                    f.push(("def", jstr(&self.cx.path(callee.def_id()))));
                                    stack.push(callee);
                                } else {
                                    let k = match callee.def {
                                        ty::InstanceKind::Virtual(..) => "virtual",
                                        ty::InstanceKind::Intrinsic(..) => "intrinsic",
                                        _ => "ext",
                                    };
                                    f.push(("k", jstr(k)));
                                    f.push(("to", jstr(&self.cx.path_args(callee.def_id(), callee.args))));
                                    f.push(("def", jstr(&self.cx.path(callee.def_id()))));
                                    self.callables_in_args(env, callee.args, &mut extra);
                                }
                            }
                            _ => {
                                f.push(("k", jstr("unresolved")));
                                f.push(("to", jstr(&self.cx.path_args(did, args))));
                                f.push(("def", jstr(&self.cx.path(did))));
                                self.callables_in_args(env, args, &mut extra);
                            }
                        }
                    }
                    _ => {
                        f.push(("k", jstr("indirect")));
                        f.push(("to", jstr(&self.cx.ty(fty))));
                    }
                }
                let mut ex = Vec::new();
                for e in extra {
                    if self.has_body(e) {
                        ex.push(jstr(&self.key(e, &rootp)));
                        stack.push(e);
                    }
                }
                f.push(("extra", jarr(&ex)));
                calls.push(jobj(&f));
            }
            self.table.push(jobj(&[
                ("key", jstr(&ckey)),
                ("def", jstr(&self.cx.path(cur.def_id()))),
                ("calls", jarr(&calls)),
            ]));
        }
        rkey
    }
}

struct Facts;

impl Callbacks for Facts {
    fn after_analysis<'tcx>(&mut self, _c: &Compiler, tcx: TyCtxt<'tcx>) -> Compilation {
        let want = std::env::var("ELFACTS_CRATE").unwrap_or_else(|_| "elements".into());
        let cname = tcx.crate_name(rustc_hir::def_id::LOCAL_CRATE).to_string();
        if cname != want {
            return Compilation::Continue;
        }
        // only the lib target (not build scripts / tests / examples named alike)
        let out = match std::env::var("ELFACTS_OUT") {
            Ok(o) => o,
            Err(_) => return Compilation::Continue,
        };
        let cx = Cx { tcx };
        let mut types = Vec::new();
        let mut consts = Vec::new();
        let mut fns = Vec::new();
        let mut impls = Vec::new();

        let eff = tcx.effective_visibilities(());

        for ldid in tcx.hir_crate_items(()).definitions() {
            let did = ldid.to_def_id();
            let kind = tcx.def_kind(did);
            match kind {
                DefKind::Struct | DefKind::Enum | DefKind::Union => {
                    let def = tcx.adt_def(did);
                    let mut vars = Vec::new();
                    let discrs: Vec<String> = if def.is_enum() {
                        def.discriminants(tcx).map(|(_, d)| format!("{}", d.val)).collect()
                    } else {
                        vec!["0".into()]
                    };
                    for (vi, v) in def.variants().iter_enumerated() {
                        let mut fs = Vec::new();
                        for f in v.fields.iter() {
                            let fty = tcx.type_of(f.did).instantiate_identity().skip_norm_wip();
                            fs.push(jobj(&[
                                ("name", jstr(&f.name.to_string())),
                                ("ty", jstr(&cx.ty(fty))),
                                ("pub", jbool(f.vis.is_public())),
                            ]));
                        }
                        vars.push(jobj(&[
                            ("name", jstr(&v.name.to_string())),
                            ("discr", jstr(discrs.get(vi.index()).map(|s| s.as_str()).unwrap_or("?"))),
                            ("fields", jarr(&fs)),
                        ]));
                    }
                    types.push(jobj(&[
                        ("path", jstr(&cx.path(did))),
                        ("kind", jstr(if def.is_enum() { "enum" } else if def.is_struct() { "struct" } else { "union" })),
                        ("pub", jbool(eff.is_reachable(ldid))),
                        ("variants", jarr(&vars)),
                        ("sp", cx.span(tcx.def_span(did))),
                    ]));
                }
                DefKind::Const { .. } | DefKind::AssocConst { .. } | DefKind::Static { .. } => {
                    // skip trait-declared consts without default, and generic parents
                    let generics = tcx.generics_of(did);
                    if generics.requires_monomorphization(tcx) {
                        continue;
                    }
                    if let DefKind::AssocConst { .. } = kind {
                        if tcx.trait_of_assoc(did).is_some() && !tcx.defaultness(did).has_value() {
                            continue;
                        }
                    }
                    let cty = tcx.type_of(did).instantiate_identity().skip_norm_wip();
                    let val = if matches!(kind, DefKind::Static { .. }) {
                        None
                    } else {
                        match tcx.const_eval_poly(did) {
                            Ok(v) => {
                                let mut d = with_no_trimmed_paths!(format!("{}", mir::Const::Val(v, cty)));
                                if d.len() > 20000 {
                                    d.truncate(20000);
                                }
                                Some(d)
                            }
                            Err(_) => None,
                        }
                    };
                    // statics: dump the initializer body so that rules can read its value
                    let init = if matches!(kind, DefKind::Static { .. }) {
                        Some(cx.body(ldid, tcx.mir_for_ctfe(did)))
                    } else {
                        None
                    };
                    consts.push(jobj(&[
                        ("path", jstr(&cx.path(did))),
                        ("ty", jstr(&cx.ty(cty))),
                        ("val", jopt(val.map(|v| jstr(&v)))),
                        ("init", jopt(init)),
                        ("sp", cx.span(tcx.def_span(did))),
                    ]));
                }
                DefKind::Impl { .. } => {
                    let self_ty = tcx.type_of(did).instantiate_identity().skip_norm_wip();
                    let tr = tcx.impl_opt_trait_ref(did).map(|t| {
                        let t = t.instantiate_identity().skip_norm_wip();
                        with_no_trimmed_paths!(format!("{}", t.print_only_trait_path()))
                    });
                    let items: Vec<String> = tcx
                        .associated_item_def_ids(did)
                        .iter()
                        .map(|d| jstr(&cx.path(*d)))
                        .collect();
                    impls.push(jobj(&[
                        ("self_ty", jstr(&cx.ty(self_ty))),
                        ("trait", jopt(tr.map(|t| jstr(&t)))),
                        ("items", jarr(&items)),
                        ("sp", cx.span(tcx.def_span(did))),
                    ]));
                }
                _ => {}
            }
        }

        let mut nbodies = 0usize;
        for ldid in tcx.hir_body_owners() {
            let did = ldid.to_def_id();
            let kind = tcx.def_kind(did);
            if !matches!(kind, DefKind::Fn | DefKind::AssocFn | DefKind::Closure) {
                continue;
            }
            let body = tcx.optimized_mir(did);
            nbodies += 1;
            let mut f: Vec<(&str, String)> = Vec::new();
            f.push(("path", jstr(&cx.path(did))));
            f.push(("kind", jstr(&format!("{:?}", kind))));
            f.push(("sp", cx.span(tcx.def_span(did))));
            let body_span = body.span;
            f.push(("body_sp", cx.span(body_span)));
            f.push(("from_macro", jbool(tcx.def_span(did).from_expansion())));
            if matches!(kind, DefKind::Fn | DefKind::AssocFn) {
                f.push(("pub", jbool(tcx.visibility(did).is_public())));
                f.push(("reachable", jbool(eff.is_reachable(ldid))));
                let sig = tcx.fn_sig(did).instantiate_identity().skip_norm_wip().skip_binder();
                let ins: Vec<String> = sig.inputs().iter().map(|t| jstr(&cx.ty(*t))).collect();
                f.push(("inputs", jarr(&ins)));
                f.push(("output", jstr(&cx.ty(sig.output()))));
                f.push(("is_const", jbool(tcx.is_const_fn(did))));
                if let Some(imp) = tcx.impl_of_assoc(did) {
                    let self_ty = tcx.type_of(imp).instantiate_identity().skip_norm_wip();
                    f.push(("impl_self", jstr(&cx.ty(self_ty))));
                    if let Some(tr) = tcx.impl_opt_trait_ref(imp) {
                        let t = tr.instantiate_identity().skip_norm_wip();
                        f.push((
                            "impl_trait",
                            jstr(&with_no_trimmed_paths!(format!("{}", t.print_only_trait_path()))),
                        ));
                    }
                    f.push(("name", jstr(&tcx.item_name(did).to_string())));
                } else if let Some(tr) = tcx.trait_of_assoc(did) {
                    f.push(("in_trait", jstr(&cx.path(tr))));
                    f.push(("name", jstr(&tcx.item_name(did).to_string())));
                } else {
                    f.push(("name", jstr(&tcx.item_name(did).to_string())));
                }
                // doc comments
                let mut doc = String::new();
                for attr in tcx.get_all_attrs(did) {
                    if let Some((s, _)) = attr.doc_str_and_fragment_kind() {
                        doc.push_str(s.as_str());
                        doc.push('\n');
                    }
                }
                f.push(("doc", jstr(&doc)));
                // cfg(test) items are not present in a lib check build; nothing to do
            } else {
                // closure: parent fn
                let parent = tcx.typeck_root_def_id(did);
                f.push(("parent", jstr(&cx.path(parent))));
            }
            f.push(("mir", cx.body(ldid, body)));
            let proms: Vec<String> = tcx.promoted_mir(did).iter().map(|pb| cx.body(ldid, pb)).collect();
            f.push(("promoted", jarr(&proms)));
            fns.push(jobj(&f));
        }

        // ---- instance-level call graph (generic parameters of the root stay symbolic)
        let mut mono = Mono { cx: &cx, table: Vec::new(), seen: std::collections::HashSet::new() };
        let mut roots = Vec::new();
        for ldid in tcx.hir_body_owners() {
            let did = ldid.to_def_id();
            if !matches!(tcx.def_kind(did), DefKind::Fn | DefKind::AssocFn) {
                continue;
            }
            let key = mono.walk_root(ldid);
            roots.push(format!("[{},{}]", jstr(&cx.path(did)), jstr(&key)));
        }
        let instances = jarr(&mono.table);

        let feats: Vec<String> = std::env::args()
            .collect::<Vec<_>>()
            .windows(2)
            .filter(|w| w[0] == "--cfg" && w[1].starts_with("feature="))
            .map(|w| jstr(&w[1]))
            .collect();
        let doc = jobj(&[
            ("crate", jstr(&cname)),
            ("run_id", jstr(&std::env::var("ELFACTS_RUN_ID").unwrap_or_default())),
            ("features", jarr(&feats)),
            ("nbodies", format!("{}", nbodies)),
            ("types", jarr(&types)),
            ("consts", jarr(&consts)),
            ("impls", jarr(&impls)),
            ("fns", jarr(&fns)),
            ("roots", jarr(&roots)),
            ("instances", instances),
        ]);
        std::fs::write(&out, doc).expect("write facts");
        Compilation::Continue
    }
}

fn main() {
    let mut args: Vec<String> = std::env::args().collect();
    // RUSTC_WORKSPACE_WRAPPER: argv[1] is the real rustc path; drop it.
    if args.len() > 1 && (args[1].ends_with("rustc") || args[1].contains("/rustc")) {
        args.remove(1);
    }
    let mut cb = Facts;
    rustc_driver::run_compiler(&args, &mut cb);
}
